//! Monitors attached to simulated parties: wire well-formedness (C06), preview agreement (C18),
//! fragmentation progress (C11), re-use policy (C15). Written from the property statements.

use crate::core::Violation;
use crate::nodes::{PrevRes, TxRes};
use crate::wire::{self, Desc, ExtTable, Kind, Lab, MExt, Parsed, LT_3, LT_6, LT_BCAST, LT_REUSE};
use dvb_gse_rust::gse_encap::{ContextFrag, EncapError};

#[derive(Clone, Copy, PartialEq, Eq, Debug)]
pub enum Call {
    Encap,
    EncapExt,
    EncapFrag,
}

impl Call {
    pub fn name(self) -> &'static str {
        match self {
            Call::Encap => "encap",
            Call::EncapExt => "encap_ext",
            Call::EncapFrag => "encap_frag",
        }
    }
}

/// What the sender-side table must know to parse what the sender itself wrote.
pub fn sender_table(exts: &[(u16, Vec<u8>)], ptype: u16) -> ExtTable {
    let mut t = ExtTable::default();
    let n = exts.len();
    for (i, (id, d)) in exts.iter().enumerate() {
        if *id < 0x100 {
            let m = if i + 1 == n && *id == ptype { MExt::Final(d.len() as u8) } else { MExt::NonFinal(d.len() as u8) };
            if !t.entries.iter().any(|(j, _)| j == id) {
                t.entries.push((*id, m));
            }
        }
    }
    t
}

pub fn size_regime(buf_len: usize, pdu_len: usize) -> &'static str {
    if buf_len > 4097 {
        if pdu_len > 4095 {
            "buf>4097,pdu>4095"
        } else {
            "buf>4097"
        }
    } else if buf_len < 13 {
        "buf<13"
    } else {
        "buf<=4097"
    }
}

pub struct Emitted<'a> {
    pub call: Call,
    pub pdu: &'a [u8],
    pub ptype: u16,
    pub label: Lab,
    pub fid: u8,
    pub exts: &'a [(u16, Vec<u8>)],
    /// for encap_frag: context passed
    pub ctx: Option<ContextFrag>,
    pub before: &'a [u8],
    pub after: &'a [u8],
    pub res: &'a TxRes,
}

/// C06: returns (violation, parsed packet when it parsed).
pub fn check_c06(e: &Emitted) -> (Option<Violation>, Option<Parsed>) {
    let n = match e.res.n() {
        Some(n) => n,
        None => return (None, None),
    };
    let regime = size_regime(e.before.len(), e.pdu.len());
    let site = |what: &str| format!("{}:{}:{}", e.call.name(), what, regime);
    let v = |clause: &'static str, what: &str, detail: String| Some(Violation::new("C06", clause, site(what), detail));
    let mut tail_v: Option<Violation> = None;
    if n > e.after.len() {
        return (v("C06.len_exceeds_buffer", e.res.class(), format!("reported {} > buffer {}", n, e.after.len())), None);
    }
    if n < 2 {
        return (v("C06.len_too_small", e.res.class(), format!("reported {}", n)), None);
    }
    if e.after[n..] != e.before[n..] {
        // the packet itself may still be perfectly well-formed: go on, and report this (a C06 matter only: no other
        // property speaks about the buffer behind the packet) if nothing else is wrong with the packet
        let first = (n..e.after.len()).find(|i| e.after[*i] != e.before[*i]).unwrap();
        tail_v = v("C06.wrote_beyond_reported_length", e.res.class(), format!("reported {} but byte {} modified (buffer {})", n, first, e.after.len()));
    }
    let pkt = &e.after[..n];
    let (kind, lt, gl) = wire::header(pkt).unwrap();
    if gl + 2 != n {
        return (
            v("C06.gse_len_ne_written", kind.name(), format!("gse_len field {} but {} bytes reported (pdu {}, buffer {})", gl, n, e.pdu.len(), e.before.len())),
            None,
        );
    }
    if kind == Kind::Inter && lt == LT_6 {
        return (v("C06.reads_as_padding", kind.name(), format!("first byte {:02x}", pkt[0])), None);
    }
    // kind vs call/status
    let want_kind = match (e.call, e.res) {
        (Call::EncapFrag, TxRes::Complete(_)) => Kind::End,
        (Call::EncapFrag, _) => Kind::Inter,
        (_, TxRes::Complete(_)) => Kind::Complete,
        _ => Kind::First,
    };
    if kind != want_kind {
        return (v("C06.start_end_bits", kind.name(), format!("status {} from {} but wire kind {}", e.res.class(), e.call.name(), kind.name())), None);
    }
    // mandatory extension data beyond 255 bytes can not be described to any receiver-side manager (u8 length): the
    // layout of such a packet is undecided here; everything above (length, buffer, header) has been checked
    if e.exts.iter().any(|(id, d)| *id < 0x100 && d.len() > 255) {
        return (tail_v, None);
    }
    let mut table = sender_table(e.exts, e.ptype);
    // a chain using one mandatory id with two different data lengths (or both as final and non-final)
    // is outside the property's domain ("known" extensions have one length): undecided, never a violation
    {
        let n = e.exts.len();
        for (i, (id, d)) in e.exts.iter().enumerate() {
            if *id < 0x100 {
                let m = if i + 1 == n && *id == e.ptype { MExt::Final(d.len() as u8) } else { MExt::NonFinal(d.len() as u8) };
                if table.lookup(*id) != m {
                    return (tail_v, None);
                }
            }
        }
    }
    if e.exts.is_empty() && e.ptype < 0x100 {
        // encap with a protocol type below 0x0100: a final mandatory extension without data
        // standing for the protocol type (signalling packets such as NCR 0x0081)
        table.entries.push((e.ptype, MExt::Final(0)));
    }
    let p = match wire::parse(pkt, &table) {
        Ok(p) => p,
        Err(m) => {
            return (v("C06.unparseable", kind.name(), format!("{:?} (pdu {}, buffer {}, exts {})", m, e.pdu.len(), e.before.len(), e.exts.len())), None);
        }
    };
    match kind {
        Kind::Inter | Kind::End => {
            // zero-length label type: 0b11 prescribed, 0b10 tolerated (property: bits match what is written)
            if !(lt == LT_REUSE || lt == LT_BCAST) {
                return (v("C06.label_type_bits", kind.name(), format!("continuation packet with label type {}", lt)), Some(p));
            }
            let ctx = e.ctx.unwrap();
            if p.frag_id != Some(ctx.frag_id()) {
                return (v("C06.field_order", "frag_id", format!("frag id {:?} != context {}", p.frag_id, ctx.frag_id())), Some(p));
            }
            let off = ctx.len_pdu_frag() as usize;
            let k = p.payload.len();
            if off + k > e.pdu.len() || pkt[p.payload.clone()] != e.pdu[off..off + k] {
                return (v("C06.field_order", "payload", format!("payload of {} bytes is not pdu[{}..{}]", k, off, off + k)), Some(p));
            }
            // the CRC field closes an end packet: its four bytes are the CRC the context carries
            if kind == Kind::End && p.crc != Some(ctx.crc()) {
                return (v("C06.field_order", "crc", format!("the last four bytes of the end packet read {:08x?}, the context carries {:08x}", p.crc, ctx.crc())), Some(p));
            }
        }
        Kind::Complete | Kind::First => {
            // label type bits vs label actually written
            let passed_lt = e.label.lt();
            let ok_lt = lt == passed_lt || (lt == LT_REUSE && (passed_lt == LT_6 || passed_lt == LT_3));
            if !ok_lt {
                return (v("C06.label_type_bits", kind.name(), format!("label {} passed, label type {} on the wire", e.label.short(), lt)), Some(p));
            }
            if lt == passed_lt && p.label != e.label.bytes() {
                return (v("C06.label_bytes", kind.name(), format!("label {} passed, bytes {} written", e.label.short(), wire::hex(&p.label))), Some(p));
            }
            // re-serialise from the observed split and compare byte for byte
            let k = p.payload.len();
            if k > e.pdu.len() {
                return (v("C06.field_order", "payload", format!("payload {} > pdu {}", k, e.pdu.len())), Some(p));
            }
            if kind == Kind::Complete && k != e.pdu.len() {
                return (v("C06.field_order", "payload", format!("complete packet carries {} of {} pdu bytes", k, e.pdu.len())), Some(p));
            }
            let final_mand = e.exts.last().map(|(id, _)| *id < 0x100 && *id == e.ptype).unwrap_or(false);
            let d = Desc {
                kind,
                lt,
                frag_id: e.fid,
                total_len: p.total_len.unwrap_or(0),
                ptype: e.ptype,
                label: &p.label,
                exts: e.exts,
                final_mandatory: final_mand,
                payload: &e.pdu[..k],
                crc: 0,
            };
            let want = wire::serialise(&d, None);
            if want != pkt {
                let i = (0..want.len().min(pkt.len())).find(|i| want[*i] != pkt[*i]).unwrap_or(want.len().min(pkt.len()));
                return (
                    v("C06.field_order", if e.exts.is_empty() { "fields" } else { "fields_ext" }, format!("byte {} differs from the reference serialisation (ref len {}, got {}; exts {})", i, want.len(), pkt.len(), e.exts.len())),
                    Some(p),
                );
            }
            if kind == Kind::First && e.exts.is_empty() {
                let want_total = 2 + p.label.len() + e.pdu.len();
                if p.total_len != Some(want_total as u16) || want_total > 65535 {
                    return (v("C06.total_length", kind.name(), format!("total length {:?}, expected {}", p.total_len, want_total)), Some(p));
                }
            }
        }
    }
    (tail_v, Some(p))
}

/// C18: preview vs actual. `substitution_possible`: the harness cannot exclude a re-use substitution.
pub fn check_c18(call: Call, prev: &PrevRes, res: &TxRes, parsed: Option<&Parsed>, substitution_possible: bool, ptype: u16, buf_len: usize, pdu_len: usize) -> Option<Violation> {
    if let PrevRes::Panic(m, l) = prev {
        return Some(Violation::new("C18", "C18.preview_panic", format!("{}:{}", call.name(), crate::core::panic_site(m, l)), format!("{} at {}", m, l)));
    }
    if matches!(res, TxRes::Panic(..)) {
        return None;
    }
    // "(when no re-use substitution applies)": with re-use on and the same label remembered a substitution may apply.
    // Whether it did is visible on the emitted packet (its label type is re-use although a label was passed); for a
    // refused call it is not, so those are left alone
    if call != Call::EncapFrag && substitution_possible {
        match (res, parsed) {
            (TxRes::Complete(_), Some(p)) | (TxRes::Frag(..), Some(p)) if p.lt != crate::wire::LT_REUSE => {}
            _ => return None,
        }
    }
    let pt = if ptype < 0x100 { "ptype<0x100" } else if ptype < 0x600 { "ptype<0x600" } else { "ptype>=0x600" };
    let regime = size_regime(buf_len, pdu_len);
    match (prev, res) {
        (PrevRes::Err(a), TxRes::Err(b)) => {
            if a != b {
                return Some(Violation::new("C18", "C18.different_error", format!("{}:{:?}!={:?}:{}", call.name(), a, b, pt), format!("preview {:?}, actual {:?}", a, b)));
            }
            None
        }
        (PrevRes::Err(a), _) => Some(Violation::new("C18", "C18.preview_err_actual_ok", format!("{}:{:?}:{}:{}", call.name(), a, pt, regime), format!("preview {:?}, actual {}", a, res.class()))),
        (PrevRes::Ok { .. }, TxRes::Err(b)) => Some(Violation::new("C18", "C18.preview_ok_actual_err", format!("{}:{:?}:{}:{}", call.name(), b, pt, regime), format!("preview ok, actual {:?}", b))),
        (PrevRes::Ok { kind, pdu_len: ppl, pkt_len }, _) => {
            let n = res.n().unwrap();
            if parsed.is_none() && *pkt_len != n {
                return Some(Violation::new("C18", "C18.pkt_len", format!("{}:unparsed:{}", call.name(), regime), format!("preview pkt_len {}, actual {}", pkt_len, n)));
            }
            let p = parsed?;
            if *kind != p.kind {
                return Some(Violation::new("C18", "C18.kind", format!("{}:{}!={}:{}", call.name(), kind.name(), p.kind.name(), regime), format!("preview kind {}, actual {}", kind.name(), p.kind.name())));
            }
            if *pkt_len != n {
                return Some(Violation::new("C18", "C18.pkt_len", format!("{}:{}:{}", call.name(), p.kind.name(), regime), format!("preview pkt_len {}, actual {}", pkt_len, n)));
            }
            if call == Call::EncapFrag && *ppl != p.payload.len() {
                return Some(Violation::new("C18", "C18.payload_len", format!("{}:{}:{}", call.name(), p.kind.name(), regime), format!("preview payload {}, actual {}", ppl, p.payload.len())));
            }
            None
        }
        _ => None,
    }
}

/// which cell of the preview / real-call comparison a pair falls in (reach counters of C18)
pub fn c18_cell(call: Call, prev: &PrevRes, res: &TxRes, parsed: Option<&Parsed>, substitution_possible: bool) -> &'static str {
    let frag = call == Call::EncapFrag;
    if !frag && substitution_possible {
        match (res, parsed) {
            (TxRes::Complete(_), Some(p)) | (TxRes::Frag(..), Some(p)) if p.lt != crate::wire::LT_REUSE => return "probe.c18.encap.compared_although_substitution_was_possible",
            _ => return "c18.encap.not_compared_substitution_possible",
        }
    }
    match (prev, res) {
        (PrevRes::Ok { .. }, TxRes::Complete(_)) => if frag { "probe.c18.encap_frag.ok_end" } else { "probe.c18.encap.ok_complete" },
        (PrevRes::Ok { .. }, TxRes::Frag(..)) => if frag { "probe.c18.encap_frag.ok_intermediate" } else { "probe.c18.encap.ok_first" },
        (PrevRes::Err(_), TxRes::Err(e)) => match (frag, e) {
            (false, EncapError::ErrorSizeBuffer) => "probe.c18.encap.err_size_buffer",
            (false, EncapError::ErrorPduLength) => "probe.c18.encap.err_pdu_length",
            (false, EncapError::ErrorProtocolType) => "probe.c18.encap.err_protocol_type",
            (false, EncapError::ErrorInvalidLabel) => "probe.c18.encap.err_invalid_label",
            (true, EncapError::ErrorSizeBuffer) => "probe.c18.encap_frag.err_size_buffer",
            (true, EncapError::ErrorPduLength) => "probe.c18.encap_frag.err_pdu_length",
            _ => "c18.err_other",
        },
        _ => "c18.mismatch_or_panic",
    }
}

/// C11 step check for the first fragment.
pub fn check_c11_first(res: &TxRes, parsed: &Parsed, fid: u8, buf_len: usize, has_ext: bool, pdu: &[u8], after: &[u8]) -> Option<Violation> {
    if let TxRes::Frag(_, ctx) = res {
        let regime = size_regime(buf_len, 0);
        if parsed.kind == Kind::First && parsed.payload.end <= after.len() && parsed.payload.len() <= pdu.len() && after[parsed.payload.clone()] != pdu[..parsed.payload.len()] {
            return Some(Violation::new("C11", "C11.payload_not_the_next_slice", format!("first:{}:{}", if has_ext { "encap_ext" } else { "encap" }, regime), format!("the first fragment's {} payload bytes are not pdu[..{}]", parsed.payload.len(), parsed.payload.len())));
        }
        if ctx.len_pdu_frag() as usize != parsed.payload.len() {
            return Some(Violation::new(
                "C11",
                "C11.first_context_count",
                format!("{}:{}", if has_ext { "encap_ext" } else { "encap" }, regime),
                format!("context says {} payload bytes, packet carries {}", ctx.len_pdu_frag(), parsed.payload.len()),
            ));
        }
        if ctx.frag_id() != fid {
            return Some(Violation::new("C11", "C11.first_context_fid", "encap", format!("context frag id {} != {}", ctx.frag_id(), fid)));
        }
    }
    None
}

/// C11 step check for a continuation call.
pub fn check_c11_cont(pdu: &[u8], ctx: &ContextFrag, buf_len: usize, res: &TxRes, parsed: Option<&Parsed>, after: &[u8]) -> Option<Violation> {
    let off = ctx.len_pdu_frag() as usize;
    if off > pdu.len() {
        return None; // C09's business
    }
    let remaining = pdu.len() - off;
    let regime = if buf_len > 4097 { "buf>4097" } else if buf_len < 7 { "buf<7" } else { "buf<=4097" };
    let rem = if remaining == 0 { "remaining==0" } else { "remaining>0" };
    match res {
        TxRes::Err(EncapError::ErrorSizeBuffer) if buf_len >= 7 => {
            Some(Violation::new("C11", "C11.rejects_useful_buffer", format!("{}:{}", regime, rem), format!("buffer of {} bytes rejected with {} bytes remaining", buf_len, remaining)))
        }
        // with 7 bytes the end packet of an exhausted PDU fits, and so does a fragment with one payload byte: for a
        // context inside a PDU of the quantified domain no other refusal is compatible with "finishes within
        // (remaining + 1) calls"
        TxRes::Err(e) if buf_len >= 7 && pdu.len() <= 65535 => Some(Violation::new("C11", "C11.rejects_useful_buffer", format!("{}:{}:{:?}", regime, rem, e), format!("buffer of {} bytes refused with {:?}, {} bytes remaining", buf_len, e, remaining))),
        TxRes::Err(_) => None,
        TxRes::Panic(..) => None,
        TxRes::Complete(n) => {
            let p = parsed?;
            if p.kind != Kind::End {
                return None; // C06 reports
            }
            if p.payload.len() != remaining {
                return Some(Violation::new("C11", "C11.end_payload", format!("{}:{}", regime, rem), format!("end packet carries {} bytes, {} remained", p.payload.len(), remaining)));
            }
            if p.payload.end <= after.len() && after[p.payload.clone()] != pdu[off..] {
                return Some(Violation::new("C11", "C11.payload_not_the_next_slice", format!("end:{}", regime), format!("the end packet's {} payload bytes are not pdu[{}..]", remaining, off)));
            }
            if *n >= 4 && after[n - 4..*n] != ctx.crc().to_be_bytes() {
                return Some(Violation::new("C11", "C11.end_crc", format!("{}", regime), format!("trailer {} != context crc {:08x}", wire::hex(&after[n - 4..*n]), ctx.crc())));
            }
            None
        }
        TxRes::Frag(_, c2) => {
            let p = parsed?;
            let k = p.payload.len();
            if k == 0 {
                return Some(Violation::new("C11", "C11.empty_fragment", format!("{}:{}", regime, rem), format!("empty intermediate fragment for a {}-byte buffer, {} bytes remaining", buf_len, remaining)));
            }
            if c2.len_pdu_frag() as usize != off + k {
                return Some(Violation::new("C11", "C11.context_advance", format!("{}:{}", regime, rem), format!("context {} -> {} but {} bytes written", off, c2.len_pdu_frag(), k)));
            }
            if c2.frag_id() != ctx.frag_id() || c2.crc() != ctx.crc() {
                return Some(Violation::new("C11", "C11.context_identity", regime.to_string(), "frag id or crc changed".to_string()));
            }
            if k > remaining {
                return Some(Violation::new("C11", "C11.overrun", regime.to_string(), format!("{} bytes written, {} remained", k, remaining)));
            }
            if p.payload.end <= after.len() && after[p.payload.clone()] != pdu[off..off + k] {
                return Some(Violation::new("C11", "C11.payload_not_the_next_slice", format!("intermediate:{}", regime), format!("the fragment's {} payload bytes are not pdu[{}..{}]", k, off, off + k)));
            }
            None
        }
    }
}

// ---------------------------------------------------------------------------------------------
// C15 policy monitor + sender label ledger

#[derive(Clone, Debug)]
pub struct TxLedger {
    /// re-use configuration as the harness set it
    pub enabled: bool,
    pub max: u8,
    /// label carried (resolved) by the last emitted start/complete packet of this frame
    pub last: Option<Lab>,
    /// the last emitted start/complete packet of this frame carried the broadcast label (an explicit re-use label
    /// sent right after it stands for "broadcast": a receiver may resolve it so or refuse it)
    pub after_bcast: bool,
    /// a start/complete packet has been emitted since the last reset/broadcast
    /// number of substituted re-use packets since the last full-label packet or configuration call
    pub run: u32,
}

impl TxLedger {
    pub fn new() -> TxLedger {
        TxLedger { enabled: true, max: 0, last: None, after_bcast: false, run: 0 }
    }
    pub fn reset(&mut self) {
        self.last = None;
        self.after_bcast = false;
    }
    /// an explicit re-use label right after a broadcast packet: the preceding start/complete packet carries the
    /// broadcast label, so delivery under that label is right and a refusal ("no label remembered") is right too
    pub fn reuse_after_broadcast(&self, l: &Lab) -> bool {
        *l == Lab::ReUse && self.last.is_none() && self.after_bcast
    }
    pub fn cfg(&mut self, enabled: bool, max: u8) {
        self.enabled = enabled;
        self.max = max;
        self.run = 0;
    }
    /// Can a substitution be excluded for this label? (used by C18 / C01b / C09)
    pub fn substitution_possible(&self, l: &Lab) -> bool {
        l.is_addr() && self.enabled && self.last.as_ref() == Some(l)
    }
    /// intended label of a PDU submitted with `l`
    pub fn intended(&self, l: &Lab) -> Option<Lab> {
        match l {
            Lab::ReUse => self.last,
            x => Some(*x),
        }
    }
    /// Observe an emitted start/complete packet; returns a C15 violation if the policy is broken.
    pub fn observe(&mut self, passed: &Lab, wire_lt: u8) -> Option<Violation> {
        let mut out = None;
        let substituted = passed.is_addr() && wire_lt == LT_REUSE;
        if substituted {
            if !self.enabled {
                out = Some(Violation::new("C15", "C15.substituted_while_disabled", "start", format!("label {} replaced by re-use while re-use is disabled", passed.short())));
            } else if self.last.as_ref() != Some(passed) {
                let why = if self.last.is_none() { "after_reset_or_broadcast" } else { "different_label" };
                out = Some(Violation::new(
                    "C15",
                    "C15.substituted_without_matching_predecessor",
                    why,
                    format!("label {} replaced by re-use; preceding start/complete label is {:?}", passed.short(), self.last.map(|l| l.short())),
                ));
            } else {
                self.run += 1;
                if self.max >= 1 && self.run > self.max as u32 {
                    out = Some(Violation::new("C15", "C15.more_than_max_consecutive", format!("max={}", if self.max == 1 { "1".to_string() } else if self.max == 255 { "255".into() } else { "n".into() }), format!("{} consecutive substituted re-use packets with max {}", self.run, self.max)));
                }
            }
            // last unchanged
        } else {
            match wire_lt {
                LT_6 | LT_3 => {
                    self.last = Some(*passed);
                    self.after_bcast = false;
                    self.run = 0;
                }
                LT_BCAST => {
                    self.last = None;
                    self.after_bcast = true;
                    self.run = 0;
                }
                _ => {} // explicit re-use: unchanged
            }
        }
        out
    }
}

/// C11 first-fragment clause evaluated on the packet as delimited by its own header, for emissions the C06
/// monitor rejected (reported length and header disagree): the context must still count exactly the payload
/// bytes an independent reader finds in that packet.
pub fn check_c11_first_raw(res: &TxRes, after: &[u8], exts: &[(u16, Vec<u8>)], ptype: u16, buf_len: usize) -> Option<Violation> {
    if let TxRes::Frag(_, ctx) = res {
        let regime = size_regime(buf_len, 0);
        let mut table = sender_table(exts, ptype);
        if exts.is_empty() && ptype < 0x100 {
            table.entries.push((ptype, MExt::Final(0)));
        }
        match wire::parse(after, &table) {
            Ok(p) if p.kind == Kind::First => {
                if p.payload.len() != ctx.len_pdu_frag() as usize {
                    return Some(Violation::new("C11", "C11.first_context_count", format!("header_delimited:{}", regime), format!("context says {} payload bytes, the packet delimited by its GSE length field ({}) carries {}", ctx.len_pdu_frag(), p.gse_len, p.payload.len())));
                }
                None
            }
            other => Some(Violation::new("C11", "C11.first_context_count", format!("not_a_first_fragment:{}", regime), format!("context says {} payload bytes but the emitted bytes do not parse as a first fragment ({:?})", ctx.len_pdu_frag(), other.map(|p| p.kind)))),
        }
    } else {
        None
    }
}
