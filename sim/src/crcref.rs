//! Independent CRC-32/MPEG-2: polynomial 0x04C11DB7, init 0xFFFFFFFF, no reflection, no final XOR.
//! Written from the polynomial; does not import the crate's table.

pub const POLY: u32 = 0x04C1_1DB7;

/// bit-by-bit reference
pub fn crc_bitwise(init: u32, data: &[u8]) -> u32 {
    let mut crc = init;
    for &b in data {
        crc ^= (b as u32) << 24;
        for _ in 0..8 {
            crc = if crc & 0x8000_0000 != 0 { (crc << 1) ^ POLY } else { crc << 1 };
        }
    }
    crc
}

pub struct CrcRef {
    pub table: [u32; 256],
}

impl CrcRef {
    pub fn new() -> CrcRef {
        let mut table = [0u32; 256];
        for i in 0..256u32 {
            let mut c = i << 24;
            for _ in 0..8 {
                c = if c & 0x8000_0000 != 0 { (c << 1) ^ POLY } else { c << 1 };
            }
            table[i as usize] = c;
        }
        let r = CrcRef { table };
        // self-check against the bitwise loop and the standard check value
        assert_eq!(r.raw(0xFFFF_FFFF, b"123456789"), 0x0376_E6E7);
        assert_eq!(crc_bitwise(0xFFFF_FFFF, b"123456789"), 0x0376_E6E7);
        r
    }
    #[inline]
    pub fn raw(&self, init: u32, data: &[u8]) -> u32 {
        let mut crc = init;
        for &b in data {
            crc = (crc << 8) ^ self.table[((crc >> 24) as u8 ^ b) as usize];
        }
        crc
    }
    /// raw, recording which table indices were used at which position class
    pub fn raw_traced(&self, init: u32, data: &[u8], class: usize, seen: &mut [[bool; 256]; 6]) -> u32 {
        let mut crc = init;
        for &b in data {
            let ix = ((crc >> 24) as u8 ^ b) as usize;
            seen[class][ix] = true;
            crc = (crc << 8) ^ self.table[ix];
        }
        crc
    }
    /// CRC over total_len(2 BE) | ptype(2 BE) | label | pdu
    pub fn gse(&self, total_len: u16, ptype: u16, label: &[u8], pdu: &[u8]) -> u32 {
        let mut c = self.raw(0xFFFF_FFFF, &total_len.to_be_bytes());
        c = self.raw(c, &ptype.to_be_bytes());
        c = self.raw(c, label);
        self.raw(c, pdu)
    }
}
