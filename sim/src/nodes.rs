//! The simulated parties: real sender and receiver code from /repo behind thin wrappers, plus the
//! three seam implementations (memory ledger, recording CRC, table-driven extension manager).

use crate::core::guarded;
use crate::crcref::CrcRef;
use crate::wire::{ExtTable, Kind, Lab, MExt};
use dvb_gse_rust::crc::{CrcCalculator, DefaultCrc};
use dvb_gse_rust::gse_decap::gse_decap_memory::MemoryContext;
use dvb_gse_rust::gse_decap::{
    read_gse_header, DecapContext, DecapError, DecapMemoryError, DecapStatus, Decapsulator, GetLabelorFragIdError,
    GseDecapMemory, LabelorFragId, SimpleGseMemory,
};
use dvb_gse_rust::gse_encap::{
    encap_frag_preview, encap_preview, ContextFrag, EncapError, EncapMetadata, EncapPreview, EncapStatus, Encapsulator,
};
use dvb_gse_rust::header_extension::{Extension, MandatoryHeaderExt, MandatoryHeaderExtensionManager};
use dvb_gse_rust::label::Label;
use std::cell::RefCell;
use std::collections::BTreeMap;
use std::rc::Rc;
use std::sync::OnceLock;

pub fn crcref() -> &'static CrcRef {
    static C: OnceLock<CrcRef> = OnceLock::new();
    C.get_or_init(CrcRef::new)
}

pub fn to_label(l: &Lab) -> Label {
    match l {
        Lab::L6(b) => Label::SixBytesLabel(*b),
        Lab::L3(b) => Label::ThreeBytesLabel(*b),
        Lab::Bcast => Label::Broadcast,
        Lab::ReUse => Label::ReUse,
    }
}
pub fn from_label(l: &Label) -> Lab {
    match l {
        Label::SixBytesLabel(b) => Lab::L6(*b),
        Label::ThreeBytesLabel(b) => Lab::L3(*b),
        Label::Broadcast => Lab::Bcast,
        Label::ReUse => Lab::ReUse,
    }
}

// ---------------------------------------------------------------------------------------------
// Recording CRC seam

#[derive(Clone, Debug)]
pub struct CrcCall {
    pub pdu_len: usize,
    pub ptype: u16,
    pub total_len: u16,
    pub label: Vec<u8>,
    pub result: u32,
    pub expected: u32,
}

#[derive(Clone, Debug, Default)]
pub struct CrcLog {
    pub calls: Vec<CrcCall>,
    /// (position class * 256 + table index) pairs used by the reference computation
    pub reach: std::collections::BTreeSet<u16>,
    /// when set, the result is XORed with this (simulates nothing by default; used only by selftests)
    pub n: u64,
}

#[derive(Clone, Debug)]
pub struct RecCrc {
    pub log: Rc<RefCell<CrcLog>>,
    pub keep: bool,
}

impl PartialEq for RecCrc {
    fn eq(&self, _: &Self) -> bool {
        true
    }
}
impl Eq for RecCrc {}

impl RecCrc {
    pub fn new(keep: bool) -> RecCrc {
        RecCrc { log: Rc::new(RefCell::new(CrcLog::default())), keep }
    }
}

impl CrcCalculator for RecCrc {
    fn calculate_crc32(&self, pdu: &[u8], protocol_type: u16, total_length: u16, label: &[u8]) -> u32 {
        let r = DefaultCrc {}.calculate_crc32(pdu, protocol_type, total_length, label);
        let mut l = self.log.borrow_mut();
        l.n += 1;
        if self.keep {
            let cr = crcref();
            let mut seen = [[false; 256]; 6];
            let mut c = cr.raw_traced(0xFFFF_FFFF, &total_length.to_be_bytes(), 0, &mut seen);
            c = cr.raw_traced(c, &protocol_type.to_be_bytes(), 1, &mut seen);
            c = cr.raw_traced(c, label, 2, &mut seen);
            let n = pdu.len();
            if n > 0 {
                c = cr.raw_traced(c, &pdu[..1], 3, &mut seen);
                if n > 2 {
                    // sample the middle: tracing every byte of large PDUs costs more than it tells
                    let m = (n - 2).min(64);
                    c = cr.raw_traced(c, &pdu[1..1 + m], 4, &mut seen);
                    c = cr.raw(c, &pdu[1 + m..n - 1]);
                }
                if n > 1 {
                    c = cr.raw_traced(c, &pdu[n - 1..], 5, &mut seen);
                }
            }
            let expected = c;
            for (cl, row) in seen.iter().enumerate() {
                for (ix, b) in row.iter().enumerate() {
                    if *b {
                        l.reach.insert((cl * 256 + ix) as u16);
                    }
                }
            }
            l.calls.push(CrcCall {
                pdu_len: pdu.len(),
                ptype: protocol_type,
                total_len: total_length,
                label: label.to_vec(),
                result: r,
                expected,
            });
        }
        r
    }
}

// ---------------------------------------------------------------------------------------------
// Table-driven mandatory extension manager seam

#[derive(Clone, Debug, Default)]
pub struct TableManager {
    pub table: ExtTable,
}

impl MandatoryHeaderExtensionManager for TableManager {
    fn is_mandatory_header_id_known(&self, id: u16) -> MandatoryHeaderExt {
        match self.table.lookup(id) {
            MExt::Final(n) => MandatoryHeaderExt::Final(n),
            MExt::NonFinal(n) => MandatoryHeaderExt::NonFinal(n),
            MExt::Unknown => MandatoryHeaderExt::Unknown,
        }
    }
}

// ---------------------------------------------------------------------------------------------
// Ledger memory seam: forwards to SimpleGseMemory, records every buffer crossing the trait
// boundary, can fail a chosen upcoming call.

#[derive(Clone, Copy, PartialEq, Eq, Debug, PartialOrd, Ord)]
pub enum MemOp {
    Provision,
    NewPdu,
    NewFrag,
    TakeFrag,
    SaveFrag,
}

impl MemOp {
    pub fn name(self) -> &'static str {
        match self {
            MemOp::Provision => "provision",
            MemOp::NewPdu => "new_pdu",
            MemOp::NewFrag => "new_frag",
            MemOp::TakeFrag => "take_frag",
            MemOp::SaveFrag => "save_frag",
        }
    }
    pub fn from_u(x: u64) -> MemOp {
        match x % 5 {
            0 => MemOp::Provision,
            1 => MemOp::NewPdu,
            2 => MemOp::NewFrag,
            3 => MemOp::TakeFrag,
            _ => MemOp::SaveFrag,
        }
    }
    pub fn to_u(self) -> u64 {
        self as u64
    }
}

#[derive(Clone, Copy, Debug)]
pub struct MemFault {
    pub op: MemOp,
    /// fire on the nth (0-based) call of `op` counted from when the fault was armed
    pub nth: u64,
    pub fired: bool,
}

/// Storage corruption fault: the context handed back by the nth successful `take_frag` (counted from when the
/// fault was armed) has one field altered, as if a stored word had been flipped while the reassembly was parked.
#[derive(Clone, Copy, Debug)]
pub struct CtxFault {
    pub nth: u64,
    /// 0 pdu_len, 1 total_len, 2 protocol_type, 3 from_label_reuse toggled, 4 label replaced
    pub field: u8,
    pub val: u64,
    pub fired: bool,
}

#[derive(Default, Debug)]
pub struct Ledger {
    /// address -> ordinal for every buffer ever provisioned by the harness
    pub ord: BTreeMap<usize, u32>,
    pub len_of: BTreeMap<usize, usize>,
    /// buffers currently inside the inner memory (free or attached), by address
    pub inside: BTreeMap<usize, Option<u8>>, // Some(fid) = attached under fid
    /// buffers taken out through the trait and not yet put back (held by decapsulator or caller)
    pub out: BTreeMap<usize, ()>,
    pub faults: Vec<MemFault>,
    pub ctxfaults: Vec<CtxFault>,
    /// context corruptions applied / of those, how many left pdu_len beyond the storage length
    pub refused_saves_by_inner_memory: u64,
    pub ctx_fired: u64,
    pub ctx_beyond_storage: u64,
    pub calls: BTreeMap<MemOp, u64>,
    pub fired: BTreeMap<MemOp, u64>,
    /// total trait calls (for fault enumeration)
    pub ncalls: u64,
    /// problems noticed by the ledger itself
    pub anomalies: Vec<String>,
    /// buffers destroyed by an injected save_frag failure (not a conservation matter)
    pub destroyed_by_injection: u64,
    /// trace of trait calls: (op, ok)
    pub trace: Vec<(MemOp, bool)>,
    pub keep_trace: bool,
}

impl Ledger {
    fn should_fail(&mut self, op: MemOp) -> bool {
        let n = *self.calls.get(&op).unwrap_or(&0);
        *self.calls.entry(op).or_insert(0) += 1;
        self.ncalls += 1;
        let mut fire = false;
        for f in self.faults.iter_mut() {
            if !f.fired && f.op == op {
                if f.nth == 0 {
                    f.fired = true;
                    fire = true;
                    break;
                } else {
                    f.nth -= 1;
                }
            }
        }
        let _ = n;
        if fire {
            *self.fired.entry(op).or_insert(0) += 1;
        }
        fire
    }
    pub fn arm(&mut self, op: MemOp, nth: u64) {
        self.faults.push(MemFault { op, nth, fired: false });
    }
    pub fn arm_ctx(&mut self, nth: u64, field: u8, val: u64) {
        self.ctxfaults.push(CtxFault { nth, field, val, fired: false });
    }
    pub fn disarm_all(&mut self) {
        self.faults.clear();
        self.ctxfaults.clear();
    }
    fn note_in(&mut self, addr: usize, len: usize, fid: Option<u8>) {
        if !self.ord.contains_key(&addr) {
            let o = self.ord.len() as u32;
            self.ord.insert(addr, o);
            self.len_of.insert(addr, len);
        }
        if self.inside.contains_key(&addr) {
            self.anomalies.push(format!("buffer #{} entered the memory twice (duplicate or freed-and-reallocated)", self.ord[&addr]));
        }
        self.out.remove(&addr);
        self.inside.insert(addr, fid);
    }
    fn note_out(&mut self, addr: usize, what: &str) {
        if self.inside.remove(&addr).is_none() {
            let o = self.ord.get(&addr).map(|x| x.to_string()).unwrap_or("?".into());
            self.anomalies.push(format!("{} returned buffer #{} that the ledger did not believe inside", what, o));
        }
        self.out.insert(addr, ());
    }
    pub fn ordinal(&self, b: &[u8]) -> Option<u32> {
        self.ord.get(&(b.as_ptr() as usize)).copied()
    }
    pub fn n_inside(&self) -> usize {
        self.inside.len()
    }
    pub fn n_attached(&self) -> usize {
        self.inside.values().filter(|v| v.is_some()).count()
    }
    pub fn attached_ids(&self) -> Vec<u8> {
        let mut v: Vec<u8> = self.inside.values().filter_map(|x| *x).collect();
        v.sort();
        v.dedup();
        v
    }
}

pub struct LedgerMemory {
    pub inner: SimpleGseMemory,
    pub led: Rc<RefCell<Ledger>>,
    /// buffers kept by the wrapper itself when it refuses a save (a memory that answers "occupied slot" keeps what
    /// it was given: the trait's error value can not carry the buffer back). A fourth place of the ledger.
    pub parked: Vec<Box<[u8]>>,
}

fn addr(b: &[u8]) -> usize {
    b.as_ptr() as usize
}

impl GseDecapMemory for LedgerMemory {
    fn new(max_frag_id: usize, max_pdu_size: usize, max_delay: usize, max_pdu_frag: usize) -> Self {
        LedgerMemory {
            parked: vec![],
            inner: SimpleGseMemory::new(max_frag_id, max_pdu_size, max_delay, max_pdu_frag),
            led: Rc::new(RefCell::new(Ledger::default())),
        }
    }

    fn provision_storage(&mut self, storage: Box<[u8]>) -> Result<(), DecapMemoryError> {
        let a = addr(&storage);
        let l = storage.len();
        if self.led.borrow_mut().should_fail(MemOp::Provision) {
            let mut g = self.led.borrow_mut();
            if g.keep_trace {
                g.trace.push((MemOp::Provision, false));
            }
            return Err(DecapMemoryError::StorageOverflow(storage));
        }
        let r = self.inner.provision_storage(storage);
        let mut g = self.led.borrow_mut();
        match &r {
            Ok(()) => g.note_in(a, l, None),
            Err(DecapMemoryError::StorageOverflow(b)) | Err(DecapMemoryError::BufferTooSmall(b)) => {
                if addr(b) != a || b.len() != l {
                    g.anomalies.push("provision_storage refused but handed back a different buffer".into());
                }
            }
            Err(_) => {
                g.anomalies.push("provision_storage failed without handing the buffer back".into());
            }
        }
        if g.keep_trace {
            g.trace.push((MemOp::Provision, r.is_ok()));
        }
        r
    }

    fn new_pdu(&mut self) -> Result<Box<[u8]>, DecapMemoryError> {
        if self.led.borrow_mut().should_fail(MemOp::NewPdu) {
            let mut g = self.led.borrow_mut();
            if g.keep_trace {
                g.trace.push((MemOp::NewPdu, false));
            }
            return Err(DecapMemoryError::StorageUnderflow);
        }
        let r = self.inner.new_pdu();
        let mut g = self.led.borrow_mut();
        if let Ok(b) = &r {
            g.note_out(addr(b), "new_pdu");
        }
        if g.keep_trace {
            g.trace.push((MemOp::NewPdu, r.is_ok()));
        }
        r
    }

    fn new_frag(&mut self, context: DecapContext) -> Result<MemoryContext, DecapMemoryError> {
        if self.led.borrow_mut().should_fail(MemOp::NewFrag) {
            let mut g = self.led.borrow_mut();
            if g.keep_trace {
                g.trace.push((MemOp::NewFrag, false));
            }
            return Err(DecapMemoryError::StorageUnderflow);
        }
        let r = self.inner.new_frag(context);
        let mut g = self.led.borrow_mut();
        if let Ok((_, b)) = &r {
            g.note_out(addr(b), "new_frag");
        }
        if g.keep_trace {
            g.trace.push((MemOp::NewFrag, r.is_ok()));
        }
        r
    }

    fn take_frag(&mut self, frag_id: u8) -> Result<MemoryContext, DecapMemoryError> {
        if self.led.borrow_mut().should_fail(MemOp::TakeFrag) {
            let mut g = self.led.borrow_mut();
            if g.keep_trace {
                g.trace.push((MemOp::TakeFrag, false));
            }
            return Err(DecapMemoryError::UndefinedId);
        }
        let mut r = self.inner.take_frag(frag_id);
        let mut g = self.led.borrow_mut();
        if let Ok((_, b)) = &r {
            g.note_out(addr(b), "take_frag");
        }
        if let Ok((ctx, b)) = &mut r {
            let mut hit: Option<CtxFault> = None;
            for f in g.ctxfaults.iter_mut() {
                if !f.fired {
                    if f.nth == 0 {
                        f.fired = true;
                        hit = Some(*f);
                    } else {
                        f.nth -= 1;
                    }
                    break;
                }
            }
            if let Some(f) = hit {
                g.ctx_fired += 1;
                match f.field % 5 {
                    0 => ctx.pdu_len = f.val as u16,
                    1 => ctx.total_len = f.val as u16,
                    2 => ctx.protocol_type = f.val as u16,
                    3 => ctx.from_label_reuse = !ctx.from_label_reuse,
                    _ => {
                        ctx.label = match f.val % 4 {
                            0 => Label::Broadcast,
                            1 => Label::ReUse,
                            2 => Label::SixBytesLabel([0; 6]),
                            _ => Label::ThreeBytesLabel([f.val as u8, (f.val >> 8) as u8, (f.val >> 16) as u8]),
                        }
                    }
                }
                if ctx.pdu_len as usize > b.len() {
                    g.ctx_beyond_storage += 1;
                }
            }
        }
        if g.keep_trace {
            g.trace.push((MemOp::TakeFrag, r.is_ok()));
        }
        r
    }

    fn save_frag(&mut self, context: MemoryContext) -> Result<(), DecapMemoryError> {
        let a = addr(&context.1);
        let l = context.1.len();
        let fid = context.0.frag_id;
        if self.led.borrow_mut().should_fail(MemOp::SaveFrag) {
            let mut g = self.led.borrow_mut();
            g.out.remove(&a);
            g.destroyed_by_injection += 1;
            self.parked.push(context.1);
            if g.keep_trace {
                g.trace.push((MemOp::SaveFrag, false));
            }
            return Err(DecapMemoryError::MemoryCorrupted);
        }
        let r = self.inner.save_frag(context);
        let mut g = self.led.borrow_mut();
        match &r {
            Ok(()) => g.note_in(a, l, Some(fid)),
            Err(_) => {
                // the bundled memory itself refused the save and dropped the buffer (its error value can not carry it).
                // Through decap this never happens on the unchanged tree (the slot was emptied by the same call); when
                // it does, a buffer that decap had taken is gone: it stays in `out` and the conservation check
                // reports it (C08).
                g.refused_saves_by_inner_memory += 1;
            }
        }
        if g.keep_trace {
            g.trace.push((MemOp::SaveFrag, r.is_ok()));
        }
        r
    }
}

// ---------------------------------------------------------------------------------------------
// Sender node

pub type Enc = Encapsulator<RecCrc>;

#[derive(Debug, PartialEq, Eq)]
pub enum TxRes {
    Complete(usize),
    Frag(usize, ContextFrag),
    Err(EncapError),
    Panic(String, String),
}

impl TxRes {
    pub fn class(&self) -> &'static str {
        match self {
            TxRes::Complete(_) => "complete",
            TxRes::Frag(..) => "frag",
            TxRes::Err(_) => "err",
            TxRes::Panic(..) => "panic",
        }
    }
    pub fn n(&self) -> Option<usize> {
        match self {
            TxRes::Complete(n) | TxRes::Frag(n, _) => Some(*n),
            _ => None,
        }
    }
}

pub fn canary(len: usize, salt: u8) -> Vec<u8> {
    (0..len).map(|i| (i as u8).wrapping_mul(31).wrapping_add(0x5B) ^ salt).collect()
}

pub fn make_exts(exts: &[(u16, Vec<u8>)]) -> Result<Vec<Extension>, String> {
    let mut v = vec![];
    for (id, d) in exts {
        match guarded(|| Extension::new(*id, d)) {
            Ok(Ok(e)) => v.push(e),
            Ok(Err(e)) => return Err(format!("{:?}", e)),
            Err((m, _)) => return Err(format!("panic: {}", m)),
        }
    }
    Ok(v)
}

fn conv(r: Result<Result<EncapStatus, EncapError>, (String, String)>) -> TxRes {
    match r {
        Ok(Ok(EncapStatus::CompletedPkt(n))) => TxRes::Complete(n as usize),
        Ok(Ok(EncapStatus::FragmentedPkt(n, c))) => TxRes::Frag(n as usize, c),
        Ok(Err(e)) => TxRes::Err(e),
        Err((m, l)) => TxRes::Panic(m, l),
    }
}

pub fn tx_encap(enc: &mut Enc, pdu: &[u8], fid: u8, ptype: u16, label: &Lab, buf: &mut [u8]) -> TxRes {
    let md = EncapMetadata::new(ptype, to_label(label));
    conv(guarded(|| enc.encap(pdu, fid, md, buf)))
}

pub fn tx_encap_ext(enc: &mut Enc, pdu: &[u8], fid: u8, ptype: u16, label: &Lab, buf: &mut [u8], exts: Vec<Extension>) -> TxRes {
    let md = EncapMetadata::new(ptype, to_label(label));
    conv(guarded(|| enc.encap_ext(pdu, fid, md, buf, exts)))
}

pub fn tx_encap_frag(enc: &Enc, pdu: &[u8], ctx: &ContextFrag, buf: &mut [u8]) -> TxRes {
    conv(guarded(|| enc.encap_frag(pdu, ctx, buf)))
}

#[derive(Debug, PartialEq, Eq)]
pub enum PrevRes {
    Ok { kind: Kind, pdu_len: usize, pkt_len: usize },
    Err(EncapError),
    Panic(String, String),
}

fn kind_of_preview(p: &EncapPreview) -> Kind {
    // PktType is not nameable from outside the crate; compare by value with decoded headers.
    let t = p.pkt_type();
    if t == read_gse_header(0xC000).unwrap().1 {
        Kind::Complete
    } else if t == read_gse_header(0x8000).unwrap().1 {
        Kind::First
    } else if t == read_gse_header(0x4000).unwrap().1 {
        Kind::End
    } else {
        Kind::Inter
    }
}

pub fn tx_preview(pdu: &[u8], ptype: u16, label: &Lab, buf: &[u8]) -> PrevRes {
    let md = EncapMetadata::new(ptype, to_label(label));
    match guarded(|| encap_preview(pdu, md, buf)) {
        Ok(Ok(p)) => PrevRes::Ok { kind: kind_of_preview(&p), pdu_len: p.pdu_len(), pkt_len: p.pkt_len() as usize },
        Ok(Err(e)) => PrevRes::Err(e),
        Err((m, l)) => PrevRes::Panic(m, l),
    }
}

pub fn tx_frag_preview(pdu: &[u8], ctx: &ContextFrag, buf: &[u8]) -> PrevRes {
    match guarded(|| encap_frag_preview(pdu, ctx, buf)) {
        Ok(Ok(p)) => PrevRes::Ok { kind: kind_of_preview(&p), pdu_len: p.pdu_len(), pkt_len: p.pkt_len() as usize },
        Ok(Err(e)) => PrevRes::Err(e),
        Err((m, l)) => PrevRes::Panic(m, l),
    }
}

// ---------------------------------------------------------------------------------------------
// Receiver node

pub type Dec = Decapsulator<LedgerMemory, RecCrc, TableManager>;

#[derive(Debug)]
pub enum RxRes {
    Ok(DecapStatus, usize),
    Err(DecapError, usize),
    Panic(String, String),
}

impl RxRes {
    pub fn class(&self) -> &'static str {
        match self {
            RxRes::Ok(DecapStatus::CompletedPkt(..), _) => "completed",
            RxRes::Ok(DecapStatus::FragmentedPkt(..), _) => "fragmented",
            RxRes::Ok(DecapStatus::Padding, _) => "padding",
            RxRes::Err(..) => "err",
            RxRes::Panic(..) => "panic",
        }
    }
    pub fn consumed(&self) -> Option<usize> {
        match self {
            RxRes::Ok(_, n) | RxRes::Err(_, n) => Some(*n),
            _ => None,
        }
    }
}

pub fn err_class(e: &DecapError) -> &'static str {
    match e {
        DecapError::ErrorSizeBuffer => "SizeBuffer",
        DecapError::ErrorTotalLength => "TotalLength",
        DecapError::ErrorGseLength => "GseLength",
        DecapError::ErrorSizePduBuffer => "SizePduBuffer",
        DecapError::ErrorProtocolType => "ProtocolType",
        DecapError::ErrorMemory(DecapMemoryError::StorageOverflow(_)) => "Mem.Overflow",
        DecapError::ErrorMemory(DecapMemoryError::StorageUnderflow) => "Mem.Underflow",
        DecapError::ErrorMemory(DecapMemoryError::UndefinedId) => "Mem.UndefinedId",
        DecapError::ErrorMemory(DecapMemoryError::BufferTooSmall(_)) => "Mem.BufferTooSmall",
        DecapError::ErrorMemory(DecapMemoryError::MemoryCorrupted) => "Mem.Corrupted",
        DecapError::ErrorCrc => "Crc",
        DecapError::ErrorInvalidLabel => "InvalidLabel",
        DecapError::ErrorNoLabelSaved => "NoLabelSaved",
        DecapError::ErrorLabelBroadcastSaved => "LabelBroadcastSaved",
        DecapError::ErrorLabelReUseSaved => "LabelReUseSaved",
        DecapError::ErrorUnkownMandatoryHeader => "UnknownMandatoryHeader",
    }
}

pub struct RxNode {
    pub dec: Dec,
    pub led: Rc<RefCell<Ledger>>,
    pub crc: Rc<RefCell<CrcLog>>,
    pub slots: usize,
    pub max_pdu: usize,
    /// buffers owned by the application (delivered PDUs and refused provisions), ready to return
    pub app: Vec<Box<[u8]>>,
}

impl RxNode {
    pub fn new(slots: usize, max_pdu: usize, table: ExtTable, keep_crc: bool) -> RxNode {
        let mem = LedgerMemory::new(slots.max(1), max_pdu, 0, 0);
        let led = mem.led.clone();
        let crc = RecCrc::new(keep_crc);
        let log = crc.log.clone();
        RxNode { dec: Decapsulator::new(mem, crc, TableManager { table }), led, crc: log, slots: slots.max(1), max_pdu, app: vec![] }
    }
    pub fn decap(&mut self, bytes: &[u8]) -> RxRes {
        let d = &mut self.dec;
        match guarded(|| d.decap(bytes)) {
            Ok(Ok((s, n))) => RxRes::Ok(s, n),
            Ok(Err((e, n))) => RxRes::Err(e, n),
            Err((m, l)) => RxRes::Panic(m, l),
        }
    }
    pub fn peek(&self, bytes: &[u8]) -> Result<Result<LabelorFragId, GetLabelorFragIdError>, (String, String)> {
        let d = &self.dec;
        guarded(|| d.get_label_or_frag_id(bytes))
    }
    /// provision a fresh buffer of `size`; returns true if accepted. A refused buffer is kept by the app.
    pub fn provision(&mut self, size: usize) -> Result<bool, (String, String)> {
        let b = vec![0u8; size.max(1)].into_boxed_slice();
        self.provision_box(b)
    }
    pub fn provision_box(&mut self, b: Box<[u8]>) -> Result<bool, (String, String)> {
        let d = &mut self.dec;
        match guarded(|| d.provision_storage(b)) {
            Ok(Ok(())) => Ok(true),
            Ok(Err(DecapMemoryError::StorageOverflow(b))) | Ok(Err(DecapMemoryError::BufferTooSmall(b))) => {
                self.app.push(b);
                Ok(false)
            }
            Ok(Err(_)) => Ok(false),
            Err(e) => Err(e),
        }
    }
    /// hand up to n application-held buffers back; returns how many were accepted
    pub fn give_back(&mut self, n: usize) -> usize {
        let mut acc = 0;
        for _ in 0..n {
            if let Some(b) = self.app.pop() {
                match self.provision_box(b) {
                    Ok(true) => acc += 1,
                    _ => break,
                }
            } else {
                break;
            }
        }
        acc
    }
    pub fn reset(&mut self) {
        self.dec.reset_last_label();
    }
}
