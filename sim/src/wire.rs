//! Independent GSE wire codec written from ETSI TS 102 606-1 / RFC 5163.
//! Does not import anything from the crate under test.
//!
//! Fixed header (16 bits): S | E | LT(2) | GSE_Length(12)
//!   S=1,E=1 complete : ptype(2) label(6/3/0) [ext chain] pdu
//!   S=1,E=0 first    : frag_id(1) total_len(2) ptype(2) label [ext chain] pdu-fragment
//!   S=0,E=0 inter    : frag_id(1) pdu-fragment          (S=0,E=0,LT=00 is padding)
//!   S=0,E=1 end      : frag_id(1) pdu-fragment crc32(4)
//! Extension chain: a type field < 0x0600 is an extension id; H-LEN = bits 10..8.
//!   H-LEN 1..5 : optional, data 0/2/4/6/8 bytes, followed by the next type field
//!   H-LEN 0    : mandatory; data length known to the receiver only; a *final* mandatory
//!                extension stands in for the protocol type (nothing follows but the PDU).

use std::ops::Range;

#[derive(Clone, Copy, PartialEq, Eq, Debug, PartialOrd, Ord)]
pub enum Kind {
    Complete,
    First,
    Inter,
    End,
}

impl Kind {
    pub fn name(self) -> &'static str {
        match self {
            Kind::Complete => "complete",
            Kind::First => "first",
            Kind::Inter => "inter",
            Kind::End => "end",
        }
    }
    pub fn se(self) -> u16 {
        match self {
            Kind::Complete => 0b11,
            Kind::First => 0b10,
            Kind::Inter => 0b00,
            Kind::End => 0b01,
        }
    }
}

/// Label-type codes on the wire
pub const LT_6: u8 = 0;
pub const LT_3: u8 = 1;
pub const LT_BCAST: u8 = 2;
pub const LT_REUSE: u8 = 3;

pub fn lt_len(lt: u8) -> usize {
    match lt {
        LT_6 => 6,
        LT_3 => 3,
        _ => 0,
    }
}

#[derive(Clone, Copy, PartialEq, Eq, Debug)]
pub enum MExt {
    Final(u8),
    NonFinal(u8),
    Unknown,
}

/// What a party knows about mandatory extension ids (< 0x100).
#[derive(Clone, Debug, Default)]
pub struct ExtTable {
    pub entries: Vec<(u16, MExt)>,
}

impl ExtTable {
    pub fn lookup(&self, id: u16) -> MExt {
        for (i, m) in &self.entries {
            if *i == id {
                return *m;
            }
        }
        MExt::Unknown
    }
}

pub fn opt_ext_len(id: u16) -> Option<usize> {
    match id >> 8 {
        1 => Some(0),
        2 => Some(2),
        3 => Some(4),
        4 => Some(6),
        5 => Some(8),
        _ => None,
    }
}

#[derive(Clone, PartialEq, Eq, Debug)]
pub enum Malformed {
    TooShortForHeader,
    Padding,
    Truncated,         // fewer bytes than gse_len + 2
    GseLenTooSmall,    // gse_len cannot hold the mandatory fields of its kind
    ExtTruncated,      // extension chain runs past the packet
    UnknownMandatory(u16),
}

#[derive(Clone, Debug, PartialEq, Eq)]
pub struct Parsed {
    pub kind: Kind,
    pub lt: u8,
    pub gse_len: usize,
    pub frag_id: Option<u8>,
    pub total_len: Option<u16>,
    /// the 2-byte type field as written (protocol type or first extension id)
    pub type_field: Option<u16>,
    pub label: Vec<u8>,
    pub exts: Vec<(u16, Vec<u8>)>,
    /// resolved protocol type (after the extension chain; a final mandatory id stands for it)
    pub ptype: Option<u16>,
    pub payload: Range<usize>,
    pub crc: Option<u32>,
}

impl Parsed {
    pub fn pkt_len(&self) -> usize {
        self.gse_len + 2
    }
}

pub fn header(bytes: &[u8]) -> Option<(Kind, u8, usize)> {
    if bytes.len() < 2 {
        return None;
    }
    let h = u16::from_be_bytes([bytes[0], bytes[1]]);
    let s = h >> 15 & 1;
    let e = h >> 14 & 1;
    let lt = (h >> 12 & 3) as u8;
    let gl = (h & 0x0FFF) as usize;
    let kind = match (s, e) {
        (1, 1) => Kind::Complete,
        (1, 0) => Kind::First,
        (0, 1) => Kind::End,
        _ => Kind::Inter,
    };
    Some((kind, lt, gl))
}

/// Parse the packet that starts at bytes[0]; bytes may extend beyond it.
pub fn parse(bytes: &[u8], table: &ExtTable) -> Result<Parsed, Malformed> {
    let (kind, lt, gse_len) = header(bytes).ok_or(Malformed::TooShortForHeader)?;
    if kind == Kind::Inter && lt == LT_6 {
        return Err(Malformed::Padding);
    }
    let end = gse_len + 2;
    if bytes.len() < end {
        return Err(Malformed::Truncated);
    }
    let pkt = &bytes[..end];
    let mut off = 2usize;
    let mut p = Parsed {
        kind,
        lt,
        gse_len,
        frag_id: None,
        total_len: None,
        type_field: None,
        label: vec![],
        exts: vec![],
        ptype: None,
        payload: 0..0,
        crc: None,
    };
    match kind {
        Kind::Inter => {
            if gse_len < 1 {
                return Err(Malformed::GseLenTooSmall);
            }
            p.frag_id = Some(pkt[2]);
            p.payload = 3..end;
            Ok(p)
        }
        Kind::End => {
            if gse_len < 5 {
                return Err(Malformed::GseLenTooSmall);
            }
            p.frag_id = Some(pkt[2]);
            p.payload = 3..end - 4;
            p.crc = Some(u32::from_be_bytes([pkt[end - 4], pkt[end - 3], pkt[end - 2], pkt[end - 1]]));
            Ok(p)
        }
        Kind::Complete | Kind::First => {
            let ll = lt_len(lt);
            let fixed = if kind == Kind::First { 3 } else { 0 } + 2 + ll;
            if gse_len < fixed {
                return Err(Malformed::GseLenTooSmall);
            }
            if kind == Kind::First {
                p.frag_id = Some(pkt[off]);
                p.total_len = Some(u16::from_be_bytes([pkt[off + 1], pkt[off + 2]]));
                off += 3;
            }
            let tf = u16::from_be_bytes([pkt[off], pkt[off + 1]]);
            off += 2;
            p.type_field = Some(tf);
            p.label = pkt[off..off + ll].to_vec();
            off += ll;
            // extension chain
            let mut t = tf;
            while t < 0x0600 {
                if t < 0x0100 {
                    match table.lookup(t) {
                        MExt::Unknown => return Err(Malformed::UnknownMandatory(t)),
                        MExt::Final(n) => {
                            let n = n as usize;
                            if off + n > end {
                                return Err(Malformed::ExtTruncated);
                            }
                            p.exts.push((t, pkt[off..off + n].to_vec()));
                            off += n;
                            break;
                        }
                        MExt::NonFinal(n) => {
                            let n = n as usize;
                            if off + n + 2 > end {
                                return Err(Malformed::ExtTruncated);
                            }
                            p.exts.push((t, pkt[off..off + n].to_vec()));
                            off += n;
                        }
                    }
                } else {
                    let n = opt_ext_len(t).unwrap();
                    if off + n + 2 > end {
                        return Err(Malformed::ExtTruncated);
                    }
                    p.exts.push((t, pkt[off..off + n].to_vec()));
                    off += n;
                }
                t = u16::from_be_bytes([pkt[off], pkt[off + 1]]);
                off += 2;
            }
            p.ptype = Some(t);
            p.payload = off..end;
            Ok(p)
        }
    }
}

/// Description of a packet to serialise. `ptype` is the true protocol type; when `exts` is
/// non-empty the type field carries exts[0].id; `final_mandatory` says the last extension stands
/// for the protocol type (so no trailing protocol type is written).
#[derive(Clone, Debug)]
pub struct Desc<'a> {
    pub kind: Kind,
    pub lt: u8,
    pub frag_id: u8,
    pub total_len: u16,
    pub ptype: u16,
    pub label: &'a [u8],
    pub exts: &'a [(u16, Vec<u8>)],
    pub final_mandatory: bool,
    pub payload: &'a [u8],
    pub crc: u32,
}

/// Serialise; gse_len is computed from the contents unless `gse_len_override` is given.
pub fn serialise(d: &Desc, gse_len_override: Option<u16>) -> Vec<u8> {
    let mut body: Vec<u8> = Vec::with_capacity(d.payload.len() + 32);
    match d.kind {
        Kind::Inter => {
            body.push(d.frag_id);
            body.extend_from_slice(d.payload);
        }
        Kind::End => {
            body.push(d.frag_id);
            body.extend_from_slice(d.payload);
            body.extend_from_slice(&d.crc.to_be_bytes());
        }
        Kind::Complete | Kind::First => {
            if d.kind == Kind::First {
                body.push(d.frag_id);
                body.extend_from_slice(&d.total_len.to_be_bytes());
            }
            if d.exts.is_empty() {
                body.extend_from_slice(&d.ptype.to_be_bytes());
                body.extend_from_slice(d.label);
            } else {
                body.extend_from_slice(&d.exts[0].0.to_be_bytes());
                body.extend_from_slice(d.label);
                for i in 0..d.exts.len() {
                    body.extend_from_slice(&d.exts[i].1);
                    if i + 1 < d.exts.len() {
                        body.extend_from_slice(&d.exts[i + 1].0.to_be_bytes());
                    }
                }
                if !d.final_mandatory {
                    body.extend_from_slice(&d.ptype.to_be_bytes());
                }
            }
            body.extend_from_slice(d.payload);
        }
    }
    let gl = gse_len_override.unwrap_or((body.len() & 0x0FFF) as u16);
    let h: u16 = (d.kind.se() << 14) | ((d.lt as u16 & 3) << 12) | (gl & 0x0FFF);
    let mut out = Vec::with_capacity(body.len() + 2);
    out.extend_from_slice(&h.to_be_bytes());
    out.extend_from_slice(&body);
    out
}

/// Label as the harness sees it (independent of the crate's enum).
#[derive(Clone, Copy, PartialEq, Eq, Debug, PartialOrd, Ord, Hash)]
pub enum Lab {
    L6([u8; 6]),
    L3([u8; 3]),
    Bcast,
    ReUse,
}

impl Lab {
    pub fn lt(&self) -> u8 {
        match self {
            Lab::L6(_) => LT_6,
            Lab::L3(_) => LT_3,
            Lab::Bcast => LT_BCAST,
            Lab::ReUse => LT_REUSE,
        }
    }
    pub fn bytes(&self) -> &[u8] {
        match self {
            Lab::L6(b) => b,
            Lab::L3(b) => b,
            _ => &[],
        }
    }
    pub fn len(&self) -> usize {
        self.bytes().len()
    }
    pub fn from_wire(lt: u8, b: &[u8]) -> Lab {
        match lt {
            LT_6 => Lab::L6(b.try_into().unwrap()),
            LT_3 => Lab::L3(b.try_into().unwrap()),
            LT_BCAST => Lab::Bcast,
            _ => Lab::ReUse,
        }
    }
    pub fn is_addr(&self) -> bool {
        matches!(self, Lab::L6(_) | Lab::L3(_))
    }
    pub fn is_zero6(&self) -> bool {
        matches!(self, Lab::L6([0, 0, 0, 0, 0, 0]))
    }
    /// encoding used in program files: [kind, bytes..]
    pub fn enc(&self) -> Vec<u8> {
        let mut v = vec![self.lt()];
        v.extend_from_slice(self.bytes());
        v
    }
    pub fn dec(v: &[u8]) -> Lab {
        if v.is_empty() {
            return Lab::Bcast;
        }
        match v[0] & 3 {
            0 => {
                let mut b = [0u8; 6];
                for (i, x) in v[1..].iter().take(6).enumerate() {
                    b[i] = *x;
                }
                Lab::L6(b)
            }
            1 => {
                let mut b = [0u8; 3];
                for (i, x) in v[1..].iter().take(3).enumerate() {
                    b[i] = *x;
                }
                Lab::L3(b)
            }
            2 => Lab::Bcast,
            _ => Lab::ReUse,
        }
    }
    pub fn short(&self) -> String {
        match self {
            Lab::L6(b) => format!("6:{}", hex(b)),
            Lab::L3(b) => format!("3:{}", hex(b)),
            Lab::Bcast => "B".into(),
            Lab::ReUse => "R".into(),
        }
    }
}

pub fn hex(b: &[u8]) -> String {
    let mut s = String::with_capacity(b.len() * 2);
    for x in b {
        s.push_str(&format!("{:02x}", x));
    }
    s
}

/// extension list encoding in program files: repeated [id_hi, id_lo, len, data..]
pub fn enc_exts(exts: &[(u16, Vec<u8>)]) -> Vec<u8> {
    let mut v = vec![];
    for (id, d) in exts {
        v.extend_from_slice(&id.to_be_bytes());
        v.push(d.len() as u8);
        v.extend_from_slice(d);
    }
    v
}
pub fn dec_exts(v: &[u8]) -> Vec<(u16, Vec<u8>)> {
    let mut out = vec![];
    let mut i = 0;
    while i + 3 <= v.len() {
        let id = u16::from_be_bytes([v[i], v[i + 1]]);
        let n = v[i + 2] as usize;
        i += 3;
        let n = n.min(v.len() - i);
        out.push((id, v[i..i + n].to_vec()));
        i += n;
    }
    out
}

/// table encoding: repeated [id_lo, kind(0 final,1 nonfinal,2 unknown), n]
pub fn enc_table(t: &ExtTable) -> Vec<u8> {
    let mut v = vec![];
    for (id, m) in &t.entries {
        v.push(*id as u8);
        match m {
            MExt::Final(n) => {
                v.push(0);
                v.push(*n)
            }
            MExt::NonFinal(n) => {
                v.push(1);
                v.push(*n)
            }
            MExt::Unknown => {
                v.push(2);
                v.push(0)
            }
        }
    }
    v
}
pub fn dec_table(v: &[u8]) -> ExtTable {
    let mut t = ExtTable::default();
    for c in v.chunks(3) {
        if c.len() < 3 {
            break;
        }
        let m = match c[1] {
            0 => MExt::Final(c[2]),
            1 => MExt::NonFinal(c[2]),
            _ => MExt::Unknown,
        };
        t.entries.push((c[0] as u16, m));
    }
    t
}
