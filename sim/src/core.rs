//! Shared types: violations, per-run statistics, the scenario interface.

use crate::program::Program;
use crate::rng::Rng;
use std::cell::RefCell;
use std::collections::{BTreeMap, BTreeSet};

#[derive(Clone, Copy, PartialEq, Eq, Debug)]
pub enum Tier {
    Quick,
    Thorough,
}

#[derive(Clone, Debug, PartialEq, Eq)]
pub struct Violation {
    pub prop: &'static str,
    /// which sentence of the property failed
    pub clause: &'static str,
    /// canonical, line-number-free classification of the failing case
    pub site: String,
    /// human detail (not part of the signature)
    pub detail: String,
    /// an equivalent, smaller concrete program proposed by the executor (enumerative ops expand to one case)
    pub reduced: Option<Box<crate::program::Program>>,
}

impl Violation {
    pub fn new(prop: &'static str, clause: &'static str, site: impl Into<String>, detail: impl Into<String>) -> Violation {
        Violation { prop, clause, site: site.into(), detail: detail.into(), reduced: None }
    }
    pub fn with_reduced(mut self, p: Program) -> Violation {
        self.reduced = Some(Box::new(p));
        self
    }
    pub fn sig(&self) -> String {
        format!("{}|{}|{}", self.prop, self.clause, self.site)
    }
}

/// Counters and coverage sets collected by one run (merged across runs by the batch runner).
#[derive(Default, Clone)]
pub struct Stats {
    pub c: BTreeMap<&'static str, u64>,
    /// named coverage sets of abstract ids (states, transitions, interleavings, ...)
    pub cover: BTreeMap<&'static str, BTreeSet<u64>>,
    /// whether this run counts as non-trivial by the scenario's rule
    pub nontrivial: bool,
    /// hash-chained event log of the run (determinism check)
    pub log: u64,
    /// violations of *other* properties seen while checking the target (not reported)
    pub other: BTreeMap<String, u64>,
}

impl Stats {
    #[inline]
    pub fn inc(&mut self, k: &'static str) {
        *self.c.entry(k).or_insert(0) += 1;
    }
    #[inline]
    pub fn add(&mut self, k: &'static str, n: u64) {
        *self.c.entry(k).or_insert(0) += n;
    }
    #[inline]
    pub fn cov(&mut self, set: &'static str, id: u64) {
        self.cover.entry(set).or_default().insert(id);
    }
    pub fn merge(&mut self, o: &Stats) {
        for (k, v) in &o.c {
            *self.c.entry(k).or_insert(0) += v;
        }
        for (k, s) in &o.cover {
            let e = self.cover.entry(k).or_default();
            for x in s {
                e.insert(*x);
            }
        }
        for (k, v) in &o.other {
            *self.other.entry(k.clone()).or_insert(0) += v;
        }
    }
}

/// A scenario = a generator (draws from the PRNG) + an executor (never does).
pub trait Scenario: Sync {
    fn name(&self) -> &'static str;
    /// numeric tag mixed into run seeds
    fn tag(&self) -> u64;
    /// properties whose oracles/monitors this scenario can evaluate
    fn serves(&self) -> &'static [&'static str];
    /// number of runs for (target property, tier); 0 = scenario not used for that property
    fn budget(&self, target: &str, tier: Tier) -> u64;
    /// generate run `idx`. Enumerative scenarios may ignore the rng for some indices.
    fn generate(&self, target: &str, idx: u64, rng: &mut Rng, tier: Tier) -> Program;
    /// execute; report the first violation of `target` (others are counted in stats.other)
    fn execute(&self, p: &Program, target: &str, st: &mut Stats) -> Option<Violation>;
    fn rule(&self) -> &'static str;
    /// rare conditions the workload is meant to reach for this target (reported even when at zero)
    fn expected_probes(&self, _target: &str) -> &'static [&'static str] {
        &[]
    }
    fn components_real(&self) -> &'static [&'static str];
    fn components_stub(&self) -> &'static [&'static str];
}

// ---------------------------------------------------------------------------------------------
// panic capture

thread_local! {
    static LAST_PANIC: RefCell<Option<(String, String)>> = RefCell::new(None);
    static IN_GUARD: std::cell::Cell<u32> = std::cell::Cell::new(0);
}

pub fn install_panic_hook() {
    std::panic::set_hook(Box::new(|info| {
        let msg = if let Some(s) = info.payload().downcast_ref::<&str>() {
            s.to_string()
        } else if let Some(s) = info.payload().downcast_ref::<String>() {
            s.clone()
        } else {
            "<non-string panic>".to_string()
        };
        let loc = info.location().map(|l| format!("{}:{}", l.file(), l.line())).unwrap_or_default();
        if IN_GUARD.with(|g| g.get()) == 0 {
            // a panic in harness code is a harness error, never a violation
            eprintln!("HARNESS-ERROR harness panic: {} at {}", msg, loc);
            std::process::exit(2);
        }
        LAST_PANIC.with(|p| *p.borrow_mut() = Some((msg, loc)));
    }));
}

pub fn take_panic() -> (String, String) {
    LAST_PANIC.with(|p| p.borrow_mut().take()).unwrap_or_default()
}

/// Classify a panic location into a line-free site: file stem + coarse message class.
pub fn panic_site(msg: &str, loc: &str) -> String {
    let file = loc.rsplit('/').nth(1).map(|d| d.to_string()).unwrap_or_default();
    let stem = loc.rsplit('/').next().unwrap_or("").split(':').next().unwrap_or("");
    let class = if msg.contains("out of range") || msg.contains("out of bounds") || msg.contains("index") {
        "bounds"
    } else if msg.contains("overflow") {
        "arith_overflow"
    } else if msg.contains("unwrap") {
        "unwrap"
    } else if msg.contains("not yet implemented") || msg.contains("not implemented") {
        "todo"
    } else if msg.contains("unreachable") {
        "unreachable"
    } else if msg.contains("copy_from_slice") || msg.contains("slice length") || msg.contains("length") {
        "slice_len"
    } else {
        "other"
    };
    format!("{}/{}:{}", file, stem, class)
}

/// Run `f` catching panics; Err carries (message, location).
pub fn guarded<R>(f: impl FnOnce() -> R) -> Result<R, (String, String)> {
    IN_GUARD.with(|g| g.set(g.get() + 1));
    let r = std::panic::catch_unwind(std::panic::AssertUnwindSafe(f));
    IN_GUARD.with(|g| g.set(g.get() - 1));
    match r {
        Ok(r) => Ok(r),
        Err(_) => Err(take_panic()),
    }
}
