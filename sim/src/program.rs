//! Programs: explicit, concrete op lists. A replay file *is* a program.
//! Text format: header lines `# key=value`, then one op per line: `name k=123 k2=xDEADBEEF`.

use crate::rng::H64;
use std::collections::BTreeMap;
use std::sync::Mutex;

#[derive(Clone, Debug, PartialEq, Eq)]
pub enum Val {
    U(u64),
    H(Vec<u8>),
}

#[derive(Clone, Debug, PartialEq, Eq)]
pub struct Op {
    pub name: &'static str,
    pub args: Vec<(&'static str, Val)>,
}

impl Op {
    pub fn new(name: &'static str) -> Op {
        Op { name, args: Vec::new() }
    }
    pub fn u(mut self, k: &'static str, v: u64) -> Op {
        self.args.push((k, Val::U(v)));
        self
    }
    pub fn h(mut self, k: &'static str, v: Vec<u8>) -> Op {
        self.args.push((k, Val::H(v)));
        self
    }
    pub fn get_u(&self, k: &str) -> u64 {
        for (kk, v) in &self.args {
            if *kk == k {
                if let Val::U(x) = v {
                    return *x;
                }
            }
        }
        0
    }
    pub fn has(&self, k: &str) -> bool {
        self.args.iter().any(|(kk, _)| *kk == k)
    }
    pub fn get_h(&self, k: &str) -> &[u8] {
        for (kk, v) in &self.args {
            if *kk == k {
                if let Val::H(x) = v {
                    return x;
                }
            }
        }
        &[]
    }
    pub fn set_u(&mut self, k: &str, nv: u64) {
        for (kk, v) in self.args.iter_mut() {
            if *kk == k {
                *v = Val::U(nv);
            }
        }
    }
}

#[derive(Clone, Debug, PartialEq, Eq)]
pub struct Program {
    pub scenario: &'static str,
    /// scenario configuration (small integers / byte strings), part of the program
    pub cfg: Op,
    pub ops: Vec<Op>,
}

impl Program {
    pub fn hash(&self) -> u64 {
        let mut h = H64::new();
        h.s(self.scenario);
        hash_op(&mut h, &self.cfg);
        for o in &self.ops {
            hash_op(&mut h, o);
        }
        h.0
    }
    pub fn to_text(&self, header: &[(String, String)]) -> String {
        let mut s = String::new();
        s.push_str(&format!("# scenario={}\n", self.scenario));
        for (k, v) in header {
            let v1: String = v.chars().map(|c| if c == '\n' { ' ' } else { c }).collect();
            s.push_str(&format!("# {}={}\n", k, v1));
        }
        s.push_str(&op_text(&self.cfg));
        s.push('\n');
        for o in &self.ops {
            s.push_str(&op_text(o));
            s.push('\n');
        }
        s
    }
    pub fn summary(&self, max_ops: usize) -> String {
        let mut s = op_text_short(&self.cfg);
        for o in self.ops.iter().take(max_ops) {
            s.push_str(" ; ");
            s.push_str(&op_text_short(o));
        }
        if self.ops.len() > max_ops {
            s.push_str(&format!(" ; ... ({} ops)", self.ops.len()));
        }
        s
    }
}

fn hash_op(h: &mut H64, o: &Op) {
    h.s(o.name);
    for (k, v) in &o.args {
        h.s(k);
        match v {
            Val::U(x) => h.u(*x),
            Val::H(b) => h.b(b),
        }
    }
}

pub fn op_text(o: &Op) -> String {
    let mut s = String::from(o.name);
    for (k, v) in &o.args {
        s.push(' ');
        s.push_str(k);
        s.push('=');
        match v {
            Val::U(x) => s.push_str(&x.to_string()),
            Val::H(b) => {
                s.push('x');
                s.push_str(&crate::wire::hex(b));
            }
        }
    }
    s
}

pub fn op_text_short(o: &Op) -> String {
    let mut s = String::from(o.name);
    for (k, v) in &o.args {
        s.push(' ');
        s.push_str(k);
        s.push('=');
        match v {
            Val::U(x) => s.push_str(&x.to_string()),
            Val::H(b) => {
                s.push('x');
                if b.len() <= 24 {
                    s.push_str(&crate::wire::hex(b));
                } else {
                    s.push_str(&crate::wire::hex(&b[..20]));
                    s.push_str(&format!("..({}B)", b.len()));
                }
            }
        }
    }
    s
}

static INTERN: Mutex<BTreeMap<String, &'static str>> = Mutex::new(BTreeMap::new());

pub fn intern(s: &str) -> &'static str {
    let mut m = INTERN.lock().unwrap();
    if let Some(x) = m.get(s) {
        return x;
    }
    let l: &'static str = Box::leak(s.to_string().into_boxed_str());
    m.insert(s.to_string(), l);
    l
}

fn unhex(s: &str) -> Result<Vec<u8>, String> {
    if s.len() % 2 != 0 {
        return Err(format!("odd hex length {}", s.len()));
    }
    let b = s.as_bytes();
    let mut v = Vec::with_capacity(b.len() / 2);
    let nib = |c: u8| -> Result<u8, String> {
        match c {
            b'0'..=b'9' => Ok(c - b'0'),
            b'a'..=b'f' => Ok(c - b'a' + 10),
            b'A'..=b'F' => Ok(c - b'A' + 10),
            _ => Err(format!("bad hex char {}", c as char)),
        }
    };
    for i in (0..b.len()).step_by(2) {
        v.push(nib(b[i])? << 4 | nib(b[i + 1])?);
    }
    Ok(v)
}

fn parse_op(line: &str) -> Result<Op, String> {
    let mut it = line.split_whitespace();
    let name = it.next().ok_or("empty op line")?;
    let mut op = Op::new(intern(name));
    for kv in it {
        let (k, v) = kv.split_once('=').ok_or(format!("bad arg {}", kv))?;
        let k = intern(k);
        if let Some(hx) = v.strip_prefix('x') {
            op.args.push((k, Val::H(unhex(hx)?)));
        } else {
            op.args.push((k, Val::U(v.parse::<u64>().map_err(|e| format!("{}: {}", kv, e))?)));
        }
    }
    Ok(op)
}

pub struct ReplayFile {
    pub header: BTreeMap<String, String>,
    pub program: Program,
}

pub fn parse_text(text: &str) -> Result<ReplayFile, String> {
    let mut header = BTreeMap::new();
    let mut ops = vec![];
    for line in text.lines() {
        let line = line.trim();
        if line.is_empty() {
            continue;
        }
        if let Some(rest) = line.strip_prefix('#') {
            if let Some((k, v)) = rest.trim().split_once('=') {
                header.insert(k.trim().to_string(), v.to_string());
            }
            continue;
        }
        ops.push(parse_op(line)?);
    }
    if ops.is_empty() {
        return Err("no cfg line".into());
    }
    let cfg = ops.remove(0);
    let scenario = intern(header.get("scenario").ok_or("missing scenario header")?);
    Ok(ReplayFile { header, program: Program { scenario, cfg, ops } })
}
