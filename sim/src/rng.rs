//! One PRNG decides everything: splitmix64 for seed mixing, xoshiro256** for streams.
//! Only generators draw from it; executors, oracles and logging never do.

#[inline]
pub fn splitmix64(x: &mut u64) -> u64 {
    *x = x.wrapping_add(0x9E37_79B9_7F4A_7C15);
    let mut z = *x;
    z = (z ^ (z >> 30)).wrapping_mul(0xBF58_476D_1CE4_E5B9);
    z = (z ^ (z >> 27)).wrapping_mul(0x94D0_49BB_1331_11EB);
    z ^ (z >> 31)
}

/// mix(base seed, scenario tag, run index) -> run seed
pub fn mix(base: u64, tag: u64, idx: u64) -> u64 {
    let mut s = base ^ 0xD6E8_FEB8_6659_FD93;
    let a = splitmix64(&mut s);
    let mut t = a ^ tag.wrapping_mul(0xA24B_AED4_963E_E407);
    let b = splitmix64(&mut t);
    let mut u = b ^ idx.wrapping_mul(0x9FB2_1C65_1E98_DF25);
    splitmix64(&mut u)
}

#[derive(Clone)]
pub struct Rng {
    s: [u64; 4],
}

impl Rng {
    pub fn new(seed: u64) -> Rng {
        let mut x = seed;
        let s = [
            splitmix64(&mut x),
            splitmix64(&mut x),
            splitmix64(&mut x),
            splitmix64(&mut x),
        ];
        Rng { s }
    }
    #[inline]
    pub fn next(&mut self) -> u64 {
        let r = self.s[1].wrapping_mul(5).rotate_left(7).wrapping_mul(9);
        let t = self.s[1] << 17;
        self.s[2] ^= self.s[0];
        self.s[3] ^= self.s[1];
        self.s[1] ^= self.s[2];
        self.s[0] ^= self.s[3];
        self.s[2] ^= t;
        self.s[3] = self.s[3].rotate_left(45);
        r
    }
    /// uniform in 0..n (n >= 1)
    #[inline]
    pub fn below(&mut self, n: u64) -> u64 {
        debug_assert!(n > 0);
        // multiply-shift; bias negligible for our n
        ((self.next() as u128 * n as u128) >> 64) as u64
    }
    /// uniform in lo..=hi
    #[inline]
    pub fn range(&mut self, lo: u64, hi: u64) -> u64 {
        debug_assert!(hi >= lo);
        lo + self.below(hi - lo + 1)
    }
    #[inline]
    pub fn usize_in(&mut self, lo: usize, hi: usize) -> usize {
        self.range(lo as u64, hi as u64) as usize
    }
    /// true with probability num/den
    #[inline]
    pub fn chance(&mut self, num: u64, den: u64) -> bool {
        self.below(den) < num
    }
    #[inline]
    pub fn pick<'a, T>(&mut self, xs: &'a [T]) -> &'a T {
        &xs[self.below(xs.len() as u64) as usize]
    }
    pub fn bytes(&mut self, n: usize) -> Vec<u8> {
        let mut v = Vec::with_capacity(n);
        while v.len() < n {
            let w = self.next().to_le_bytes();
            let k = (n - v.len()).min(8);
            v.extend_from_slice(&w[..k]);
        }
        v
    }
    /// random bytes of random length lo..=hi
    pub fn rbytes(&mut self, lo: usize, hi: usize) -> Vec<u8> {
        let n = self.usize_in(lo, hi);
        self.bytes(n)
    }
    /// weighted choice: returns index into weights
    pub fn weighted(&mut self, weights: &[u32]) -> usize {
        let total: u64 = weights.iter().map(|w| *w as u64).sum();
        let mut r = self.below(total.max(1));
        for (i, w) in weights.iter().enumerate() {
            if r < *w as u64 {
                return i;
            }
            r -= *w as u64;
        }
        weights.len() - 1
    }
}

/// Deterministic PDU content from (len, seed): cheap, position dependent, seed dependent,
/// never all-zero for len>0 so that payload bytes differ from padding.
pub fn pdu_bytes(len: usize, seed: u64) -> Vec<u8> {
    let mut v = Vec::with_capacity(len);
    let mut x = seed.wrapping_mul(0x9E37_79B9_7F4A_7C15) ^ 0x5851_F42D_4C95_7F2D;
    while v.len() < len {
        let w = splitmix64(&mut x).to_le_bytes();
        let k = (len - v.len()).min(8);
        v.extend_from_slice(&w[..k]);
    }
    v
}

/// 64-bit FNV-1a style hasher used for event logs and program hashes (never addresses).
#[derive(Clone, Copy)]
pub struct H64(pub u64);
impl H64 {
    pub fn new() -> H64 {
        H64(0xcbf2_9ce4_8422_2325)
    }
    #[inline]
    pub fn u(&mut self, x: u64) {
        let mut h = self.0 ^ x;
        h = h.wrapping_mul(0x0000_0100_0000_01B3);
        h ^= h >> 29;
        h = h.wrapping_mul(0xBF58_476D_1CE4_E5B9);
        h ^= h >> 32;
        self.0 = h;
    }
    pub fn b(&mut self, bs: &[u8]) {
        self.u(bs.len() as u64);
        for c in bs.chunks(8) {
            let mut w = [0u8; 8];
            w[..c.len()].copy_from_slice(c);
            self.u(u64::from_le_bytes(w));
        }
    }
    pub fn s(&mut self, s: &str) {
        self.b(s.as_bytes())
    }
}
