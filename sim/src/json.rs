//! Minimal JSON value, writer and parser (no external crates).

use std::collections::BTreeMap;

#[derive(Clone, Debug, PartialEq)]
pub enum J {
    Null,
    Bool(bool),
    Int(i128),
    Num(f64),
    Str(String),
    Arr(Vec<J>),
    Obj(Vec<(String, J)>),
}

impl J {
    pub fn obj() -> J {
        J::Obj(vec![])
    }
    pub fn set(mut self, k: &str, v: J) -> J {
        if let J::Obj(ref mut m) = self {
            m.push((k.to_string(), v));
        }
        self
    }
    pub fn put(&mut self, k: &str, v: J) {
        if let J::Obj(ref mut m) = self {
            m.push((k.to_string(), v));
        }
    }
    pub fn s(x: impl Into<String>) -> J {
        J::Str(x.into())
    }
    pub fn i(x: impl Into<i128>) -> J {
        J::Int(x.into())
    }
    pub fn from_counts<K: ToString>(m: &BTreeMap<K, u64>) -> J {
        J::Obj(m.iter().map(|(k, v)| (k.to_string(), J::Int(*v as i128))).collect())
    }
    pub fn get(&self, k: &str) -> Option<&J> {
        if let J::Obj(m) = self {
            for (kk, v) in m {
                if kk == k {
                    return Some(v);
                }
            }
        }
        None
    }
    pub fn as_str(&self) -> Option<&str> {
        if let J::Str(s) = self {
            Some(s)
        } else {
            None
        }
    }
    pub fn as_arr(&self) -> Option<&Vec<J>> {
        if let J::Arr(a) = self {
            Some(a)
        } else {
            None
        }
    }
    pub fn write(&self, out: &mut String, ind: usize) {
        match self {
            J::Null => out.push_str("null"),
            J::Bool(b) => out.push_str(if *b { "true" } else { "false" }),
            J::Int(i) => out.push_str(&i.to_string()),
            J::Num(f) => {
                if f.is_finite() {
                    out.push_str(&format!("{:.3}", f))
                } else {
                    out.push_str("0")
                }
            }
            J::Str(s) => write_str(out, s),
            J::Arr(a) => {
                if a.is_empty() {
                    out.push_str("[]");
                    return;
                }
                out.push_str("[\n");
                for (i, v) in a.iter().enumerate() {
                    out.push_str(&" ".repeat(ind + 1));
                    v.write(out, ind + 1);
                    if i + 1 < a.len() {
                        out.push(',');
                    }
                    out.push('\n');
                }
                out.push_str(&" ".repeat(ind));
                out.push(']');
            }
            J::Obj(m) => {
                if m.is_empty() {
                    out.push_str("{}");
                    return;
                }
                out.push_str("{\n");
                for (i, (k, v)) in m.iter().enumerate() {
                    out.push_str(&" ".repeat(ind + 1));
                    write_str(out, k);
                    out.push_str(": ");
                    v.write(out, ind + 1);
                    if i + 1 < m.len() {
                        out.push(',');
                    }
                    out.push('\n');
                }
                out.push_str(&" ".repeat(ind));
                out.push('}');
            }
        }
    }
    pub fn to_string_pretty(&self) -> String {
        let mut s = String::new();
        self.write(&mut s, 0);
        s.push('\n');
        s
    }
}

fn write_str(out: &mut String, s: &str) {
    out.push('"');
    for c in s.chars() {
        match c {
            '"' => out.push_str("\\\""),
            '\\' => out.push_str("\\\\"),
            '\n' => out.push_str("\\n"),
            '\r' => out.push_str("\\r"),
            '\t' => out.push_str("\\t"),
            c if (c as u32) < 0x20 => out.push_str(&format!("\\u{:04x}", c as u32)),
            c => out.push(c),
        }
    }
    out.push('"');
}

pub fn parse(text: &str) -> Result<J, String> {
    let b = text.as_bytes();
    let mut p = P { b, i: 0 };
    p.ws();
    let v = p.val()?;
    p.ws();
    if p.i != b.len() {
        return Err(format!("trailing data at {}", p.i));
    }
    Ok(v)
}

struct P<'a> {
    b: &'a [u8],
    i: usize,
}

impl<'a> P<'a> {
    fn ws(&mut self) {
        while self.i < self.b.len() && (self.b[self.i] as char).is_whitespace() {
            self.i += 1;
        }
    }
    fn val(&mut self) -> Result<J, String> {
        self.ws();
        if self.i >= self.b.len() {
            return Err("eof".into());
        }
        match self.b[self.i] {
            b'{' => {
                self.i += 1;
                let mut m = vec![];
                self.ws();
                if self.b.get(self.i) == Some(&b'}') {
                    self.i += 1;
                    return Ok(J::Obj(m));
                }
                loop {
                    self.ws();
                    let k = match self.val()? {
                        J::Str(s) => s,
                        _ => return Err("key not string".into()),
                    };
                    self.ws();
                    if self.b.get(self.i) != Some(&b':') {
                        return Err(format!("expected : at {}", self.i));
                    }
                    self.i += 1;
                    let v = self.val()?;
                    m.push((k, v));
                    self.ws();
                    match self.b.get(self.i) {
                        Some(b',') => self.i += 1,
                        Some(b'}') => {
                            self.i += 1;
                            return Ok(J::Obj(m));
                        }
                        _ => return Err(format!("expected , or }} at {}", self.i)),
                    }
                }
            }
            b'[' => {
                self.i += 1;
                let mut a = vec![];
                self.ws();
                if self.b.get(self.i) == Some(&b']') {
                    self.i += 1;
                    return Ok(J::Arr(a));
                }
                loop {
                    a.push(self.val()?);
                    self.ws();
                    match self.b.get(self.i) {
                        Some(b',') => self.i += 1,
                        Some(b']') => {
                            self.i += 1;
                            return Ok(J::Arr(a));
                        }
                        _ => return Err(format!("expected , or ] at {}", self.i)),
                    }
                }
            }
            b'"' => {
                self.i += 1;
                let mut s = String::new();
                while self.i < self.b.len() {
                    let c = self.b[self.i];
                    self.i += 1;
                    match c {
                        b'"' => return Ok(J::Str(s)),
                        b'\\' => {
                            let e = *self.b.get(self.i).ok_or("eof in escape")?;
                            self.i += 1;
                            match e {
                                b'n' => s.push('\n'),
                                b't' => s.push('\t'),
                                b'r' => s.push('\r'),
                                b'u' => {
                                    let h = std::str::from_utf8(&self.b[self.i..self.i + 4]).map_err(|e| e.to_string())?;
                                    let cp = u32::from_str_radix(h, 16).map_err(|e| e.to_string())?;
                                    s.push(char::from_u32(cp).unwrap_or('?'));
                                    self.i += 4;
                                }
                                x => s.push(x as char),
                            }
                        }
                        _ => {
                            // copy raw utf-8 byte run
                            let start = self.i - 1;
                            while self.i < self.b.len() && self.b[self.i] != b'"' && self.b[self.i] != b'\\' {
                                self.i += 1;
                            }
                            s.push_str(std::str::from_utf8(&self.b[start..self.i]).map_err(|e| e.to_string())?);
                        }
                    }
                }
                Err("unterminated string".into())
            }
            b't' => {
                self.i += 4;
                Ok(J::Bool(true))
            }
            b'f' => {
                self.i += 5;
                Ok(J::Bool(false))
            }
            b'n' => {
                self.i += 4;
                Ok(J::Null)
            }
            _ => {
                let st = self.i;
                while self.i < self.b.len() && matches!(self.b[self.i], b'-' | b'+' | b'.' | b'e' | b'E' | b'0'..=b'9') {
                    self.i += 1;
                }
                let t = std::str::from_utf8(&self.b[st..self.i]).unwrap();
                if let Ok(i) = t.parse::<i128>() {
                    Ok(J::Int(i))
                } else {
                    t.parse::<f64>().map(J::Num).map_err(|e| format!("{} at {}", e, st))
                }
            }
        }
    }
}
