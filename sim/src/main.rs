mod core;
mod crcref;
mod json;
mod mon;
mod nodes;
mod program;
mod rng;
mod runner;
mod scen;
mod selftest;
mod wire;

use crate::core::{Scenario, Tier};
use runner::PropInfo;

fn scenarios() -> Vec<Box<dyn Scenario>> {
    vec![Box::new(scen::flow::Flow), Box::new(scen::rxsim::RxSim), Box::new(scen::txsim::TxSim), Box::new(scen::memsim::MemSim)]
}

const COMMON_ASSUMPTIONS: &[&str] = &[
    "memories have >= 1 slot and storage buffers have length >= 1",
    "harness profile: release + overflow-checks + debug-assertions, panic=unwind; library calls run under catch_unwind",
    "error identity is never asserted unless the property names it; non-delivery is acceptable to safety oracles",
    "seeded search samples schedules and faults: a clean batch is evidence, not proof",
];

fn props() -> Vec<PropInfo> {
    let ex = "exploration";
    let fe = "fault_enumeration";
    vec![
        PropInfo { id: "C01", level: ex, assumptions: COMMON_ASSUMPTIONS },
        PropInfo { id: "C02", level: ex, assumptions: COMMON_ASSUMPTIONS },
        PropInfo { id: "C03", level: fe, assumptions: COMMON_ASSUMPTIONS },
        PropInfo { id: "C04", level: ex, assumptions: COMMON_ASSUMPTIONS },
        PropInfo { id: "C05", level: fe, assumptions: COMMON_ASSUMPTIONS },
        PropInfo { id: "C06", level: ex, assumptions: COMMON_ASSUMPTIONS },
        PropInfo { id: "C07", level: ex, assumptions: COMMON_ASSUMPTIONS },
        PropInfo { id: "C08", level: fe, assumptions: COMMON_ASSUMPTIONS },
        PropInfo { id: "C09", level: ex, assumptions: COMMON_ASSUMPTIONS },
        PropInfo { id: "C10", level: ex, assumptions: COMMON_ASSUMPTIONS },
        PropInfo { id: "C11", level: ex, assumptions: COMMON_ASSUMPTIONS },
        PropInfo { id: "C12", level: ex, assumptions: COMMON_ASSUMPTIONS },
        PropInfo { id: "C13", level: ex, assumptions: COMMON_ASSUMPTIONS },
        PropInfo { id: "C15", level: ex, assumptions: COMMON_ASSUMPTIONS },
        PropInfo { id: "C16", level: ex, assumptions: COMMON_ASSUMPTIONS },
        PropInfo { id: "C17", level: ex, assumptions: COMMON_ASSUMPTIONS },
        PropInfo { id: "C18", level: ex, assumptions: COMMON_ASSUMPTIONS },
        PropInfo { id: "C19", level: ex, assumptions: COMMON_ASSUMPTIONS },
    ]
}

fn usage() -> i32 {
    eprintln!("usage: gsesim check <ID> quick|thorough [--jobs N] [--scale F] | replay <file> [--quiet] | gen <ID> <scenario> <run> | selftest determinism");
    2
}

fn main() {
    crate::core::install_panic_hook();
    let args: Vec<String> = std::env::args().collect();
    let all = scenarios();
    let verif_dir = std::env::var("VERIF_DIR").unwrap_or_else(|_| "/verif".to_string());
    let seed = match std::env::var("VERIF_SEED") {
        Ok(s) if !s.trim().is_empty() => match s.trim().parse::<u64>() {
            Ok(x) => x,
            Err(_) => {
                // accept any string: hash it
                let mut h = rng::H64::new();
                h.s(&s);
                h.0 >> 1
            }
        },
        _ => runner::DEFAULT_SEED,
    };
    let mut jobs = std::thread::available_parallelism().map(|n| n.get()).unwrap_or(4).min(16);
    let mut scale = 1.0f64;
    let mut quiet = false;
    let mut pos: Vec<String> = vec![];
    let mut i = 1;
    while i < args.len() {
        match args[i].as_str() {
            "--jobs" => {
                jobs = args.get(i + 1).and_then(|s| s.parse().ok()).unwrap_or(jobs);
                i += 1;
            }
            "--scale" => {
                scale = args.get(i + 1).and_then(|s| s.parse().ok()).unwrap_or(1.0);
                i += 1;
            }
            "--quiet" => quiet = true,
            x => pos.push(x.to_string()),
        }
        i += 1;
    }
    let code = match pos.get(0).map(|s| s.as_str()) {
        Some("check") => {
            let id = match pos.get(1) {
                Some(x) => x.clone(),
                None => std::process::exit(usage()),
            };
            let tier = match std::env::var("VERIF_TIER").ok().as_deref().or(pos.get(2).map(|s| s.as_str())) {
                Some("thorough") => Tier::Thorough,
                _ => match pos.get(2).map(|s| s.as_str()) {
                    Some("thorough") => Tier::Thorough,
                    _ => Tier::Quick,
                },
            };
            let tier = match pos.get(2).map(|s| s.as_str()) {
                Some("quick") => Tier::Quick,
                Some("thorough") => Tier::Thorough,
                _ => tier,
            };
            match props().into_iter().find(|p| p.id == id) {
                Some(info) => runner::run_check(&all, &info, tier, seed, jobs, &verif_dir, scale),
                None => {
                    eprintln!("HARNESS-ERROR unknown or unclaimed property {}", id);
                    2
                }
            }
        }
        Some("replay") => match pos.get(1) {
            Some(p) => runner::replay_file(&all, p, quiet),
            None => usage(),
        },
        Some("selftest") => match pos.get(1).map(|s| s.as_str()) {
            Some("wrappers") => selftest::wrappers_transparent(&all, seed, pos.get(2).and_then(|s| s.parse().ok()).unwrap_or(3000)),
            _ => usage(),
        },
        Some("gen") => {
            // print the program of one run (debugging aid)
            let id = program::intern(pos.get(1).map(|s| s.as_str()).unwrap_or("C01"));
            let scn = pos.get(2).map(|s| s.as_str()).unwrap_or("flow");
            let run: u64 = pos.get(3).and_then(|s| s.parse().ok()).unwrap_or(0);
            match runner::find_scenario(&all, scn) {
                Some(sc) => {
                    let mut r = rng::Rng::new(rng::mix(seed, sc.tag(), run));
                    let p = sc.generate(id, run, &mut r, Tier::Quick);
                    print!("{}", p.to_text(&[("property".into(), id.to_string()), ("seed".into(), seed.to_string()), ("run".into(), run.to_string())]));
                    0
                }
                None => usage(),
            }
        }
        _ => usage(),
    };
    std::process::exit(code);
}
