//! `rxsim`: the receiver alone, fed by the simulated link (bytes of any origin), with storage
//! faults at the GseDecapMemory seam. Serves C03 C04(b) C05 C08 C16.
//!
//! cfg: slots maxpdu(=min accepted size) bufsize nbuf table nbhd(0/1) variant
//! ops
//!   feed hex [f=kind]      decap on exactly these bytes (peek first)
//!   walk hex               frame walker over these bytes (decap, advance by consumed)
//!   prov size              provision a fresh storage buffer
//!   ret n                  application returns n delivered buffers
//!   reset                  reset_last_label
//!   memfault op nth        arm a failure of the nth upcoming call of a trait operation
//!   probe kind fid len seed lab nfrag      (C16) faults stop; reset, provision one buffer, valid transfer
//!   sweep kind a n t       (C05) enumerative noise: see `sweep_input`
//! With cfg nbhd=1 the executor enumerates the complete single-fault neighbourhood of the program's
//! feed sequence (variant=k+1 selects one member: that is what replay files carry).

use crate::core::{panic_site, Scenario, Stats, Tier, Violation};
use crate::nodes::*;
use crate::program::{Op, Program, Val};
use crate::rng::{pdu_bytes, Rng, H64};
use crate::wire::{self, dec_table, enc_table, Desc, ExtTable, Kind, Lab, Malformed, MExt, Parsed, LT_3, LT_6, LT_BCAST, LT_REUSE};
use dvb_gse_rust::gse_decap::{DecapError, DecapMemoryError, DecapStatus, GseDecapMemory};
use std::collections::BTreeMap;

pub struct RxSim;

// ---------------------------------------------------------------------------------------------
// reference reassembly oracle (C03), evaluated on the bytes actually received

#[derive(Clone, Debug)]
struct Train {
    total_len: u16,
    ptype: u16,
    lt: u8,
    written_label: Vec<u8>,
    exts: Vec<(u16, Vec<u8>)>,
    data: Vec<u8>,
    /// label the receiver reported when it accepted the first fragment (None if it rejected it)
    reported_label: Option<Lab>,
    nfrag: u32,
}

#[derive(Default)]
struct RefRx {
    /// train since the latest *received* well-formed first fragment, per frag id
    recv: BTreeMap<u8, Train>,
    /// train since the latest first fragment the receiver *accepted*, per frag id
    acc: BTreeMap<u8, Train>,
}

// ---------------------------------------------------------------------------------------------

fn ext_list(md: &dvb_gse_rust::gse_decap::DecapMetadata) -> Vec<(u16, Vec<u8>)> {
    use dvb_gse_rust::header_extension::ExtensionData as D;
    md.extensions()
        .iter()
        .map(|e| {
            let d: Vec<u8> = match e.data() {
                D::Data2(x) => x.to_vec(),
                D::Data4(x) => x.to_vec(),
                D::Data6(x) => x.to_vec(),
                D::Data8(x) => x.to_vec(),
                D::NoData => vec![],
                D::MandatoryData(x) => x.clone(),
            };
            (e.id(), d)
        })
        .collect()
}

pub fn fault_name(k: u64) -> &'static str {
    match k {
        1 => "fault.drop",
        2 => "fault.dup",
        3 => "fault.swap",
        4 => "fault.flip",
        5 => "fault.burst",
        6 => "fault.truncate",
        7 => "fault.set_field",
        8 => "fault.splice",
        9 => "fault.junk",
        10 => "fault.crafted",
        11 => "fault.mutated_valid",
        12 => "fault.move",
        _ => "fault.other",
    }
}

struct World<'a> {
    target: &'a str,
    rx: RxNode,
    refrx: RefRx,
    table: ExtTable,
    /// C04(b): allowed resolution set (None = empty)
    allowed: Option<Lab>,
    bufsize: usize,
    log: H64,
    decaps: u64,
    completed: u32,
    faults_in_train: u32,
    rejected_after_take: u32,
    viol: Option<Violation>,
    /// fault-aware clauses of C03 ("Hence ..."): frag ids of trains that suffered a fault the property says is
    /// always detected (no completion allowed), with the site describing the fault
    no_delivery: BTreeMap<u8, (&'static str, String)>,
    /// ops executed so far (for reduced programs)
    prefix: Vec<Op>,
    /// whether the latest decap may have changed label memory or contexts (anything but "unknown frag id")
    last_class_changed_state: bool,
    cfg: Op,
}

fn is_listed_rejection(e: &str) -> bool {
    matches!(e, "Crc" | "TotalLength" | "SizePduBuffer" | "Mem.UndefinedId" | "Mem.Underflow" | "UnknownMandatoryHeader" | "NoLabelSaved" | "LabelBroadcastSaved" | "LabelReUseSaved" | "InvalidLabel" | "GseLength" | "SizeBuffer" | "Mem.Overflow")
}

/// Classify a faulted packet against its original: a burst of <= 32 bits confined to the CRC-protected bytes
/// of a fragment, or the truncation of a payload-carrying fragment. Returns (clause, site, frag id) when the
/// property says "always detected".
///
/// CRC-protected bytes: in a fragment without extensions everything from byte 3 on (total length, protocol type,
/// label, payload, trailer). In a first fragment that carries header extensions the extension ids and data are
/// not covered: the protected bytes are the total length [3,5), the label [7,7+L) and, from the protocol type
/// that ends the chain on, the rest of the packet; a burst is "confined" when its whole span lies in one of
/// these wire-contiguous regions.
fn always_detected_fault(orig: &[u8], got: &[u8], table: &ExtTable) -> Option<(&'static str, String, u8)> {
    let (k, _, gl) = wire::header(orig)?;
    if k == Kind::Complete || orig.len() != gl + 2 || orig.len() < 4 {
        return None;
    }
    let fid = orig[2];
    if got.len() < orig.len() {
        // truncation of a payload-carrying fragment
        if orig[..got.len()] == got[..] {
            let carries = match k {
                Kind::Inter => gl > 1,
                Kind::End => gl > 5,
                _ => true,
            };
            if carries {
                return Some(("C03.truncation_not_detected", k.name().to_string(), fid));
            }
        }
        return None;
    }
    if got.len() != orig.len() {
        return None;
    }
    let mut first: Option<usize> = None;
    let mut last = 0usize;
    for i in 0..orig.len() * 8 {
        if (orig[i / 8] ^ got[i / 8]) & (0x80 >> (i % 8)) != 0 {
            if first.is_none() {
                first = Some(i);
            }
            last = i;
        }
    }
    let first = first?;
    if last - first + 1 > 32 || first / 8 < 3 {
        return None;
    }
    let ll = wire::lt_len((orig[0] >> 4) & 3);
    if k == Kind::First && orig.len() >= 7 && u16::from_be_bytes([orig[5], orig[6]]) < 0x600 {
        // first fragment with header extensions
        let p = wire::parse(orig, table).ok()?;
        let last_is_final = p.exts.last().map(|e| e.0 < 0x100 && matches!(table.lookup(e.0), MExt::Final(_))).unwrap_or(false);
        if p.exts.is_empty() || p.payload.start < 2 {
            return None;
        }
        if last_is_final {
            // a final mandatory extension stands for the protocol type: its id (and data) sit before the payload and
            // are not classified; total length, label and payload are CRC input as in any other first fragment, and a
            // burst confined to one of them leaves the parse of the chain as it was
            let (fb, lb) = (first / 8, last / 8);
            let region = |b: usize| -> u8 {
                if (3..5).contains(&b) {
                    1
                } else if b >= 7 && b < 7 + ll {
                    2
                } else if b >= p.payload.start {
                    3
                } else {
                    0
                }
            };
            if region(fb) == 0 || region(fb) != region(lb) {
                return None;
            }
            let site = match region(fb) {
                1 => "first_ext_final:total_len",
                2 => "first_ext_final:label",
                _ => "first_ext_final:payload",
            };
            return Some(("C03.burst_in_protected_bytes_not_detected", site.to_string(), fid));
        }
        let ptoff = p.payload.start - 2;
        let (fb, lb) = (first / 8, last / 8);
        let region = |b: usize| -> u8 {
            if (3..5).contains(&b) {
                1
            } else if b >= 7 && b < 7 + ll {
                2
            } else if b >= ptoff {
                3
            } else {
                0
            }
        };
        if region(fb) == 0 || region(fb) != region(lb) {
            return None;
        }
        let site = match region(fb) {
            1 => "first_ext:total_len".to_string(),
            2 => "first_ext:label".to_string(),
            _ => {
                if fb < ptoff + 2 && lb >= ptoff + 2 && ll > 0 {
                    // contiguous on the wire, but the label sits between protocol type and PDU in the CRC input
                    "first_ext:ptype:spans_into_payload_with_label_between_in_crc_order".to_string()
                } else if fb < ptoff + 2 {
                    "first_ext:ptype".to_string()
                } else {
                    "first_ext:payload".to_string()
                }
            }
        };
        // the burst must not move the end of the chain (a protocol type below 0x600 continues the chain)
        if u16::from_be_bytes([got[ptoff], got[ptoff + 1]]) < 0x600 {
            return Some(("C03.burst_in_protected_bytes_not_detected", format!("{}:type_field_becomes_extension_id", site), fid));
        }
        return Some(("C03.burst_in_protected_bytes_not_detected", site, fid));
    }
    // which field does the burst start in
    let field = match k {
        Kind::First => {
            let b = first / 8;
            if b < 5 {
                "total_len"
            } else if b < 7 {
                "ptype"
            } else if b < 7 + ll {
                "label"
            } else {
                "payload"
            }
        }
        Kind::End if first / 8 >= orig.len() - 4 => "crc",
        _ => "payload",
    };
    // did the burst turn the type field of a first fragment into an extension id (the parse shifts)?
    let reinterpret = k == Kind::First && orig.len() >= 7 && u16::from_be_bytes([orig[5], orig[6]]) >= 0x600 && u16::from_be_bytes([got[5], got[6]]) < 0x600;
    Some(("C03.burst_in_protected_bytes_not_detected", format!("{}:{}{}", k.name(), field, if reinterpret { ":type_field_becomes_extension_id" } else { "" }), fid))
}

impl<'a> World<'a> {
    fn report(&mut self, st: &mut Stats, v: Violation) -> bool {
        if v.prop == self.target {
            if self.viol.is_none() {
                self.viol = Some(v);
            }
            true
        } else {
            *st.other.entry(format!("{}|{}", v.prop, v.clause)).or_insert(0) += 1;
            false
        }
    }

    fn reduced_with(&self, extra: Op) -> Program {
        let mut cfg = self.cfg.clone();
        cfg.set_u("nbhd", 0);
        cfg.set_u("variant", 0);
        let mut ops = self.prefix.clone();
        ops.push(extra);
        Program { scenario: "rxsim", cfg, ops }
    }

    /// conservation check after any call (C08): nothing taken out of the memory may be missing
    fn check_ledger(&mut self, st: &mut Stats, ctx: &str, errclass: &str) -> bool {
        let (anoms, lost): (Vec<String>, Vec<u32>) = {
            let g = self.rx.led.borrow();
            let mut held: Vec<usize> = self.rx.app.iter().map(|b| b.as_ptr() as usize).collect();
            held.sort();
            let lost: Vec<u32> = g.out.keys().filter(|a| held.binary_search(a).is_err()).map(|a| *g.ord.get(a).unwrap_or(&9999)).collect();
            (g.anomalies.clone(), lost)
        };
        if !anoms.is_empty() {
            self.rx.led.borrow_mut().anomalies.clear();
            let v = Violation::new("C08", "C08.ledger_anomaly", format!("{}:{}", ctx, errclass), anoms.join("; "));
            if self.report(st, v) {
                return true;
            }
        }
        if !lost.is_empty() {
            // forget them so that one leak is reported once
            {
                let mut g = self.rx.led.borrow_mut();
                let held: Vec<usize> = self.rx.app.iter().map(|b| b.as_ptr() as usize).collect();
                let gone: Vec<usize> = g.out.keys().filter(|a| !held.contains(a)).copied().collect();
                for a in gone {
                    g.out.remove(&a);
                }
            }
            let v = Violation::new("C08", "C08.buffer_leaked_by_decap", format!("{}:{}", ctx, errclass), format!("buffer(s) #{:?} taken from the memory during the call are neither back in the memory nor in the caller's hands ({} -> {})", lost, ctx, errclass));
            if self.report(st, v) {
                return true;
            }
        }
        false
    }

    /// audit through the trait: drain the inner memory and compare with the ledger (C08)
    fn audit(&mut self, st: &mut Stats, when: &str) -> bool {
        let (ids, n_inside) = {
            let g = self.rx.led.borrow();
            (g.attached_ids(), g.n_inside())
        };
        // disarm faults during the audit, work on the inner memory directly (no ledger noise)
        let mem = &mut self.rx.dec.memory.inner;
        let mut taken_frags = vec![];
        for id in &ids {
            match crate::core::guarded(|| mem.take_frag(*id)) {
                Ok(Ok(c)) => taken_frags.push(c),
                _ => {}
            }
        }
        let mut free = vec![];
        loop {
            match crate::core::guarded(|| mem.new_pdu()) {
                Ok(Ok(b)) => free.push(b),
                _ => break,
            }
            if free.len() > 64 {
                break;
            }
        }
        let found = taken_frags.len() + free.len();
        let n_att = taken_frags.len();
        // put everything back in the original order
        while let Some(b) = free.pop() {
            let _ = mem.provision_storage(b);
        }
        for c in taken_frags.into_iter().rev() {
            let _ = mem.save_frag(c);
        }
        st.inc("audits");
        if found != n_inside {
            let v = Violation::new(
                "C08",
                "C08.audit_mismatch",
                format!("{}:{}", when, if found < n_inside { "missing" } else { "extra" }),
                format!("ledger believes {} buffers inside the memory ({} attached under ids {:?}); draining through the trait found {} ({} attached)", n_inside, ids.len(), ids, found, n_att),
            );
            // resynchronise the ledger to what is really there so that one loss is reported once
            if self.report(st, v) {
                return true;
            }
        }
        false
    }

    /// feed one buffer to decap (with peek), run all oracles. Returns true if the run must stop.
    fn feed(&mut self, st: &mut Stats, bytes: &[u8], fkind: u64, op_for_reduce: Option<Op>) -> (bool, usize) {
        self.decaps += 1;
        st.inc("packets");
        st.add("lib_calls", 2);
        let parsed = wire::parse(bytes, &self.table);
        let hdr = wire::header(bytes);
        // -------- peek totality (C05)
        if let Err((m, l)) = self.rx.peek(bytes) {
            let mut v = Violation::new("C05", "C05.peek_panic", panic_site(&m, &l), format!("get_label_or_frag_id panicked on {} bytes {}: {} at {}", bytes.len(), wire::hex(&bytes[..bytes.len().min(24)]), m, l));
            if let Some(o) = &op_for_reduce {
                v = v.with_reduced(self.reduced_with(o.clone()));
            }
            if self.report(st, v) {
                return (true, 0);
            }
        }
        let open_before: Vec<u8> = self.rx.led.borrow().attached_ids();
        let r = self.rx.decap(bytes);
        let class = r.class();
        let errc: String = match &r {
            RxRes::Err(e, _) => err_class(e).to_string(),
            RxRes::Panic(m, l) => panic_site(m, l),
            _ => String::new(),
        };
        self.log.s(class);
        self.log.s(&errc);
        self.log.u(r.consumed().unwrap_or(0) as u64);
        self.last_class_changed_state = errc != "Mem.UndefinedId";
        // reach: a first fragment refused while a reassembly of the same frag id was pending (each such exit of
        // decap_first has to give back what that reassembly held)
        if let (Some((Kind::First, _, _)), true, true) = (hdr, bytes.len() > 2, matches!(r, RxRes::Err(..))) {
            if open_before.contains(&bytes[2]) {
                st.inc(match errc.as_str() {
                    "InvalidLabel" => "probe.first_refused_with_pending.zero_label",
                    "UnknownMandatoryHeader" => "probe.first_refused_with_pending.unknown_mandatory",
                    "TotalLength" => "probe.first_refused_with_pending.total_length",
                    "NoLabelSaved" => "probe.first_refused_with_pending.no_label_saved",
                    "SizePduBuffer" => "probe.first_refused_with_pending.size_pdu_buffer",
                    "GseLength" => "probe.first_refused_with_pending.gse_length",
                    "SizeBuffer" => "probe.first_refused_with_pending.size_buffer",
                    _ => "probe.first_refused_with_pending.other",
                });
            }
        }
        if let Some((k, lt, _)) = hdr {
            let mut th = H64::new();
            th.s(k.name());
            th.u(lt as u64);
            th.s(class);
            th.s(&errc);
            st.cov("transition", th.0);
        }
        if fkind != 0 {
            if let Ok(p) = &parsed {
                if let Some(f) = p.frag_id {
                    if open_before.contains(&f) || p.kind == Kind::First {
                        st.inc(fault_name(fkind));
                        self.faults_in_train += 1;
                    } else {
                        st.inc("nofire.fault_outside_open_train");
                    }
                } else {
                    st.inc(fault_name(fkind));
                }
            } else {
                st.inc(fault_name(fkind));
                if !open_before.is_empty() {
                    self.faults_in_train += 1;
                }
            }
        }
        // -------- C05: no panic, consumed bounds
        let kind_site = match (&parsed, hdr) {
            (Ok(p), _) => format!("{}:lt{}", p.kind.name(), p.lt),
            (Err(m), Some((k, lt, _))) => format!("{}:lt{}:{}", k.name(), lt, match m {
                Malformed::Truncated => "truncated",
                Malformed::GseLenTooSmall => "gse_len_too_small",
                Malformed::ExtTruncated => "ext_truncated",
                Malformed::UnknownMandatory(_) => "unknown_mandatory",
                Malformed::Padding => "padding",
                Malformed::TooShortForHeader => "short",
            }),
            _ => "short".to_string(),
        };
        if let RxRes::Panic(m, l) = &r {
            let state = format!("{}open", open_before.len().min(2));
            let mut v = Violation::new("C05", "C05.panic", format!("decap:{}:{}", panic_site(m, l), kind_site), format!("decap panicked on {} bytes {} ({} contexts open {}): {} at {}", bytes.len(), wire::hex(&bytes[..bytes.len().min(24)]), open_before.len(), state, m, l));
            if let Some(o) = &op_for_reduce {
                v = v.with_reduced(self.reduced_with(o.clone()));
            }
            let stop = self.report(st, v);
            // C16 continues with the same decapsulator after a caught panic; everyone else abandons the run
            if stop || self.target != "C16" {
                st.inc("aborted_by_panic");
                return (true, 0);
            }
            // a panic may have dropped buffers mid-call: not a conservation matter for C16
            return (false, bytes.len().max(1));
        }
        let consumed = r.consumed().unwrap();
        if consumed > bytes.len() || (!bytes.is_empty() && consumed < 2.min(bytes.len())) {
            let mut v = Violation::new("C05", if consumed > bytes.len() { "C05.consumed_gt_buffer" } else { "C05.consumed_lt_2" }, format!("{}:{}:{}", kind_site, class, errc), format!("buffer of {} bytes, consumed {} ({} {})", bytes.len(), consumed, class, errc));
            if let Some(o) = &op_for_reduce {
                v = v.with_reduced(self.reduced_with(o.clone()));
            }
            if self.report(st, v) {
                return (true, consumed);
            }
        }
        // -------- C04(b): allowed resolution set
        {
            // what did the receiver resolve?
            let resolved: Option<Lab> = match &r {
                RxRes::Ok(DecapStatus::CompletedPkt(_, md), _) | RxRes::Ok(DecapStatus::FragmentedPkt(md), _) => Some(from_label(&md.label())),
                _ => None,
            };
            if let (Ok(p), Some(res)) = (&parsed, resolved) {
                if (p.kind == Kind::Complete || p.kind == Kind::First) && p.lt == LT_REUSE {
                    st.inc("probe.reuse_resolved");
                    if Some(res) != self.allowed {
                        let v = Violation::new("C04", "C04.resolved_outside_allowed_set", format!("{}:{}", p.kind.name(), if self.allowed.is_none() { "nothing_allowed" } else { "other_label" }), format!("re-use label resolved to {}, nearest preceding start/complete packet of the frame carries {:?}", res.short(), self.allowed.map(|l| l.short())));
                        if self.report(st, v) {
                            return (true, consumed);
                        }
                    }
                }
            }
            // update the allowed set from the wire, whether or not the receiver accepted the packet
            match &parsed {
                Ok(p) if p.kind == Kind::Complete || p.kind == Kind::First => match p.lt {
                    LT_6 | LT_3 => {
                        let l = Lab::from_wire(p.lt, &p.label);
                        // a zero 6-byte label is never a label (padding pattern): nothing may resolve to it
                        self.allowed = if l.is_zero6() { None } else { Some(l) };
                    }
                    // the nearest preceding start/complete packet now carries the broadcast label: a re-use label may
                    // resolve to it (or be refused)
                    LT_BCAST => self.allowed = Some(Lab::Bcast),
                    _ => {}
                },
                Ok(_) => {}
                Err(Malformed::UnknownMandatory(_)) | Err(Malformed::ExtTruncated) => {
                    // label field precedes the extensions: well-formed start packet whose label we can read
                    if let Some((k, lt, gl)) = hdr {
                        let off = if k == Kind::First { 7 } else { 4 };
                        let ll = wire::lt_len(lt);
                        if (k == Kind::First || k == Kind::Complete) && gl + 2 <= bytes.len() && off + ll <= gl + 2 {
                            match lt {
                                LT_6 | LT_3 => {
                                    let l = Lab::from_wire(lt, &bytes[off..off + ll]);
                                    self.allowed = if l.is_zero6() { None } else { Some(l) };
                                }
                                // the nearest preceding start/complete packet now carries the broadcast label: a re-use label may
                    // resolve to it (or be refused)
                    LT_BCAST => self.allowed = Some(Lab::Bcast),
                                _ => {}
                            }
                        }
                    }
                }
                // padding is neither a start nor a complete packet: the nearest preceding one is still the same. (A
                // frame ends where the application resets the label memory - the `reset` op -, not where padding is
                // seen: a receiver that keeps its label across padding resolves exactly as the statement says.)
                Err(Malformed::Padding) => {}
                // anything the harness parser cannot classify leaves the set unchanged... but the receiver
                // may legitimately have cleared its memory; a later resolution is then impossible, never wrong.
                Err(_) => {}
            }
        }
        // -------- C03: reassembly oracle
        // a first fragment that is delimited and identifies its frag id but whose extension chain can not be read
        // (unknown mandatory id, chain running past the packet) is still the most recent first fragment of that id:
        // nothing can be verified against it, so no completion is justified until another first fragment arrives
        if let (Err(Malformed::UnknownMandatory(_)), Some((Kind::First, _, gl))) | (Err(Malformed::ExtTruncated), Some((Kind::First, _, gl))) = (&parsed, hdr) {
            if bytes.len() >= gl + 2 && gl >= 3 {
                st.inc("probe.unreadable_first_fragment_supersedes");
                self.refrx.recv.remove(&bytes[2]);
                self.refrx.acc.remove(&bytes[2]);
            }
        }
        if let Ok(p) = &parsed {
            let accepted_frag = matches!(&r, RxRes::Ok(DecapStatus::FragmentedPkt(_), _));
            match p.kind {
                Kind::First => {
                    let fid = p.frag_id.unwrap();
                    let rep = match &r {
                        RxRes::Ok(DecapStatus::FragmentedPkt(md), _) => Some(from_label(&md.label())),
                        _ => None,
                    };
                    let t = Train { total_len: p.total_len.unwrap(), ptype: p.ptype.unwrap(), lt: p.lt, written_label: p.label.clone(), exts: p.exts.clone(), data: bytes[p.payload.clone()].to_vec(), reported_label: rep, nfrag: 1 };
                    if accepted_frag {
                        self.refrx.acc.insert(fid, t.clone());
                    }
                    self.refrx.recv.insert(fid, t);
                }
                Kind::Inter | Kind::End => {
                    let fid = p.frag_id.unwrap();
                    let pl = &bytes[p.payload.clone()];
                    for m in [&mut self.refrx.recv, &mut self.refrx.acc] {
                        if let Some(t) = m.get_mut(&fid) {
                            if t.data.len() < 200_000 {
                                t.data.extend_from_slice(pl);
                            }
                            t.nfrag += 1;
                        }
                    }
                }
                Kind::Complete => {}
            }
        }
        if let RxRes::Ok(DecapStatus::CompletedPkt(b, md), _) = &r {
            self.completed += 1;
            let is_end = matches!(&parsed, Ok(p) if p.kind == Kind::End);
            let is_complete = matches!(&parsed, Ok(p) if p.kind == Kind::Complete);
            if is_end {
                st.inc("probe.reassembly_completed");
                let p = parsed.as_ref().unwrap();
                let fid = p.frag_id.unwrap();
                if let Some((clause, site)) = self.no_delivery.get(&fid).cloned() {
                    let v = Violation::new("C03", clause, site.clone(), format!("a PDU of {} bytes (protocol type {:#06x}) was delivered on frag id {} although its train suffered a fault the property calls always detected ({})", md.pdu_len(), md.protocol_type(), fid, site));
                    if self.report(st, v) {
                        return (true, consumed);
                    }
                }
                let trailer = p.crc.unwrap();
                let cr = crcref();
                let mut ok = false;
                let mut why = String::from("no first fragment of this frag id was received");
                // "the most recent first fragment of that fragment id": the latest one *received*, whether or not the
                // receiver accepted it (a rejected first fragment supersedes the older reassembly too; an earlier
                // revision accepted the latest *accepted* one as well, see DESIGN 8.3 finding 17)
                let cands: Vec<Train> = [self.refrx.recv.get(&fid)].into_iter().flatten().cloned().collect();
                for t in &cands {
                    let len_ok = t.data.len() + 2 + t.written_label.len() == t.total_len as usize;
                    let crc = cr.gse(t.total_len, t.ptype, &t.written_label, &t.data);
                    let crc_ok = crc == trailer;
                    let bytes_ok = md.pdu_len() == t.data.len() && b.len() >= t.data.len() && b[..t.data.len()] == t.data[..];
                    let lab_ok = match t.lt {
                        LT_6 | LT_3 => from_label(&md.label()) == Lab::from_wire(t.lt, &t.written_label),
                        LT_BCAST => from_label(&md.label()) == Lab::Bcast,
                        _ => t.reported_label.map(|l| l == from_label(&md.label())).unwrap_or(true),
                    };
                    let md_ok = md.protocol_type() == t.ptype && ext_list(md) == t.exts && lab_ok;
                    if len_ok && crc_ok && bytes_ok && md_ok {
                        ok = true;
                        break;
                    }
                    why = format!(
                        "train of {} fragments: length {} (announced total {} => {}), crc {} (trailer {:08x}, reference {:08x}), bytes {}, metadata {}",
                        t.nfrag,
                        if len_ok { "ok" } else { "MISMATCH" },
                        t.total_len,
                        t.total_len as i64 - 2 - t.written_label.len() as i64,
                        if crc_ok { "ok" } else { "MISMATCH" },
                        trailer,
                        crc,
                        if bytes_ok { "ok" } else { "MISMATCH" },
                        if md_ok { "ok" } else { "MISMATCH" }
                    );
                }
                if !ok {
                    let site = if cands.is_empty() { "no_candidate_train".to_string() } else if why.contains("length MISMATCH") { "length".into() } else if why.contains("crc MISMATCH") { "crc".into() } else if why.contains("bytes MISMATCH") { "bytes".into() } else { "metadata".into() };
                    let v = Violation::new("C03", "C03.delivered_unverified_pdu", site, format!("completed PDU of {} bytes at an end fragment (frag id {}): {}", md.pdu_len(), fid, why));
                    if self.report(st, v) {
                        return (true, consumed);
                    }
                }
                self.refrx.recv.remove(&fid);
                self.refrx.acc.remove(&fid);
            } else if !is_complete {
                let v = Violation::new("C03", "C03.completion_at_non_end_packet", kind_site.clone(), format!("completed PDU reported for a packet the harness parser classifies as {:?}", parsed.as_ref().map(|p| p.kind)));
                if self.report(st, v) {
                    return (true, consumed);
                }
            }
        }
        // -------- take result into the application's hands, C08 ledger
        let took_something = self.rx.led.borrow().out.len() > 0;
        if let RxRes::Ok(DecapStatus::CompletedPkt(b, md), _) = &r {
            let known = self.rx.led.borrow().out.contains_key(&(b.as_ptr() as usize));
            if !known {
                // a PDU delivered in a buffer the memory never handed out (for instance a zero-length box for an empty
                // PDU): C08 speaks about the buffers that were provisioned, and each of those is still in exactly one
                // place; counted, not reported (an earlier revision reported it, see DESIGN 8.4 item 15)
                st.inc("delivered_in_a_buffer_not_from_the_memory");
                let _ = md;
            }
        }
        match r {
            RxRes::Ok(DecapStatus::CompletedPkt(b, _), _) => self.rx.app.push(b),
            RxRes::Err(DecapError::ErrorMemory(DecapMemoryError::StorageOverflow(b)), _) | RxRes::Err(DecapError::ErrorMemory(DecapMemoryError::BufferTooSmall(b)), _) => self.rx.app.push(b),
            _ => {}
        }
        if class == "err" && took_something {
            self.rejected_after_take += 1;
        }
        if class == "err" {
            st.inc(match errc.as_str() {
                "Crc" => "probe.rej_crc",
                "TotalLength" => "probe.rej_total_length",
                "SizePduBuffer" => "probe.rej_oversize",
                "Mem.UndefinedId" => "probe.rej_undefined_id",
                "Mem.Underflow" => "probe.rej_underflow",
                "Mem.Overflow" => "probe.rej_giveback_overflow",
                "UnknownMandatoryHeader" => "probe.rej_unknown_mandatory",
                "NoLabelSaved" => "probe.rej_no_label_saved",
                "InvalidLabel" => "probe.rej_zero_label",
                "GseLength" => "probe.rej_gse_length",
                "SizeBuffer" => "probe.rej_size_buffer",
                _ => "probe.rej_other",
            });
        }
        let _ = is_listed_rejection;
        if self.check_ledger(st, &format!("decap:{}", kind_site), if class == "err" { &errc } else { class }) {
            return (true, consumed);
        }
        (false, consumed)
    }
}

/// the k-th input of an enumerative sweep (C05). Returns None when k is out of range.
///  kind 0: all byte strings of length 0..=2   (k < 1+256+65536)
///  kind 1: all byte strings of length 3       (k < 2^24)
///  kind 2: header h = a+(k / ntr), tail pattern t, truncation index k % ntr
pub fn sweep_input(kind: u64, k: u64, t: u64, open_fid: u8) -> Option<Vec<u8>> {
    match kind {
        0 => {
            if k == 0 {
                Some(vec![])
            } else if k < 257 {
                Some(vec![(k - 1) as u8])
            } else if k < 257 + 65536 {
                let w = (k - 257) as u16;
                Some(w.to_be_bytes().to_vec())
            } else {
                None
            }
        }
        1 => {
            if k < (1 << 24) {
                Some(vec![(k >> 16) as u8, (k >> 8) as u8, k as u8])
            } else {
                None
            }
        }
        3 => {
            // every header x pseudo-random bodies of exactly the announced length (+0/+1/+5 trailing bytes);
            // t = body variant. The first bytes are biased to field values that steer the parser.
            let h = k as u32;
            if h > 0xFFFF {
                return None;
            }
            let gl = (h & 0x0FFF) as usize;
            let extra = [0usize, 1, 5][(t % 3) as usize];
            let mut x = (h as u64) << 20 ^ t.wrapping_mul(0x9E37_79B9_7F4A_7C15);
            let mut v = Vec::with_capacity(gl + 2 + extra);
            v.extend_from_slice(&(h as u16).to_be_bytes());
            let head = gl.min(48);
            while v.len() < 2 + head {
                let w = crate::rng::splitmix64(&mut x);
                // bias: small values, ext-id-like pairs, open frag id
                let b = match w & 7 {
                    0 => 0u8,
                    1 => open_fid,
                    2 => (w >> 8) as u8 & 0x07,
                    3 => 0xFF,
                    _ => (w >> 16) as u8,
                };
                v.push(b);
            }
            let fill = (crate::rng::splitmix64(&mut x) >> 24) as u8;
            v.resize(2 + gl + extra, fill);
            Some(v)
        }
        _ => {
            const NTR: u64 = 32;
            let h = (k / NTR) as u32;
            if h > 0xFFFF {
                return None;
            }
            let tr = k % NTR;
            let gl = (h & 0x0FFF) as usize;
            // adversarial tails
            let mut body: Vec<u8> = match t % 8 {
                0 => vec![0u8; 40],
                1 => vec![0xFFu8; 40],
                2 => {
                    // frag id of an open context, then total length 0 / ext ids
                    let mut v = vec![open_fid, 0x00, 0x00, 0x01, 0x23, 0, 0, 0, 0, 0, 0];
                    v.extend_from_slice(&[0x02, 0x45, 1, 2, 0x05, 0xFF, 1, 2, 3, 4, 5, 6, 7, 8, 0x08, 0x00]);
                    v.resize(40, 0xA5);
                    v
                }
                3 => {
                    // unknown/aliasing frag id, total length 65535, mandatory ext id 0x0042
                    let mut v = vec![open_fid.wrapping_add(4), 0xFF, 0xFF, 0x00, 0x42, 9, 9, 9, 9, 9, 9];
                    v.resize(40, 0x00);
                    v
                }
                4 => {
                    // ext chain classes right at the type field of a complete packet
                    let mut v = vec![0x03, 0x11, 0x00, 0x00, 0x00, 0x00, 0x00, 0x00, 0x04, 0x22];
                    v.resize(40, 0x11);
                    v
                }
                5 => {
                    // total length 1, zero label
                    let mut v = vec![open_fid, 0x00, 0x01, 0x08, 0x00, 0, 0, 0, 0, 0, 0, 1, 2, 3];
                    v.resize(40, 0x00);
                    v
                }
                6 => {
                    // known mandatory ids (table of the scenario uses 0x01 nonfinal(4), 0x81 final(2))
                    let mut v = vec![0x00, 0x01, 1, 2, 3, 4, 5, 6, 0x00, 0x81, 7, 7];
                    v.resize(40, 0x33);
                    v
                }
                _ => {
                    let mut v = vec![open_fid, 0x00, 0x20, 0x00, 0x81, 1, 2, 3];
                    v.resize(40, 0x5A);
                    v
                }
            };
            // truncation lengths: 2..=25 bytes total, then gse_len+2-1, +0, +1 and a long one
            let want = match tr {
                0..=23 => 2 + tr as usize,
                24 => (gl + 2).saturating_sub(1).max(2),
                25 => gl + 2,
                26 => gl + 3,
                27 => gl + 2 + 17,
                28 => 26 + (gl % 7),
                29 => 33,
                30 => 41,
                _ => (gl + 2) / 2 + 2,
            };
            let want = want.min(4200);
            let fill = *body.last().unwrap();
            if body.len() < want {
                body.resize(want, fill);
            }
            let mut v = Vec::with_capacity(want);
            v.extend_from_slice(&(h as u16).to_be_bytes());
            v.extend_from_slice(&body[..want - 2]);
            Some(v)
        }
    }
}

/// single-fault neighbourhood of a packet sequence (C03): number of members and the k-th member
mod nbhd {
    use super::*;
    pub const WIDTHS: [usize; 5] = [2, 8, 16, 31, 32];
    pub fn pattern(width: usize, j: usize) -> u32 {
        let full: u64 = if width >= 32 { 0xFFFF_FFFF } else { (1u64 << width) - 1 };
        let p: u64 = match j {
            0 => full,                                   // all bits of the burst
            1 => (1u64 << (width - 1)) | 1,              // both ends only
            _ => 0xA5A5_A5A5u64 & full | (1u64 << (width - 1)) | 1, // ends + alternating inside
        };
        p as u32
    }
    /// field replacement values
    pub const FIELD_VALUES: [u32; 11] = [0, 1, 2, 0x7F, 0xFF, 0x100, 0x0FFF, 0x7FFF, 0xFFFF, 0xFFFF_FFFF, 0x8000_0000];

    pub fn count(pkts: &[Vec<u8>]) -> usize {
        let bits: usize = pkts.iter().map(|p| p.len() * 8).sum();
        let bytes: usize = pkts.iter().map(|p| p.len()).sum();
        bits                       // single bit flips
            + bits * WIDTHS.len() * 3  // bursts
            + bytes                    // truncation at every byte
            + pkts.len() * 3           // drop, dup, swap with next
            + pkts.len() * 3 * FIELD_VALUES.len() // frag id / total length / crc
    }

    pub fn xor_burst(p: &mut [u8], start_bit: usize, width: usize, pat: u32) -> bool {
        // pattern bit i (from MSB of the burst) applied at start_bit+i; bits beyond the packet are dropped
        let mut any = false;
        for i in 0..width {
            if pat >> (width - 1 - i) & 1 == 1 {
                let b = start_bit + i;
                if b / 8 < p.len() {
                    p[b / 8] ^= 0x80 >> (b % 8);
                    any = true;
                }
            }
        }
        any
    }

    /// returns (mutated sequence, fault kind code, description)
    pub fn member(pkts: &[Vec<u8>], mut k: usize) -> Option<(Vec<Vec<u8>>, u64, String)> {
        let mut out: Vec<Vec<u8>> = pkts.to_vec();
        let bits: usize = pkts.iter().map(|p| p.len() * 8).sum();
        let locate = |mut b: usize| -> (usize, usize) {
            for (i, p) in pkts.iter().enumerate() {
                if b < p.len() * 8 {
                    return (i, b);
                }
                b -= p.len() * 8;
            }
            (0, 0)
        };
        if k < bits {
            let (i, b) = locate(k);
            out[i][b / 8] ^= 0x80 >> (b % 8);
            return Some((out, 4, format!("flip pkt {} bit {}", i, b)));
        }
        k -= bits;
        let nb = bits * WIDTHS.len() * 3;
        if k < nb {
            let bit = k / (WIDTHS.len() * 3);
            let w = WIDTHS[(k / 3) % WIDTHS.len()];
            let j = k % 3;
            let (i, b) = locate(bit);
            xor_burst(&mut out[i], b, w, pattern(w, j));
            return Some((out, 5, format!("burst pkt {} bit {} width {} pattern {}", i, b, w, j)));
        }
        k -= nb;
        let bytes: usize = pkts.iter().map(|p| p.len()).sum();
        if k < bytes {
            let mut kk = k;
            for (i, p) in pkts.iter().enumerate() {
                if kk < p.len() {
                    out[i].truncate(kk);
                    return Some((out, 6, format!("truncate pkt {} at {}", i, kk)));
                }
                kk -= p.len();
            }
        }
        k -= bytes;
        if k < pkts.len() * 3 {
            let i = k / 3;
            match k % 3 {
                0 => {
                    out.remove(i);
                    return Some((out, 1, format!("drop pkt {}", i)));
                }
                1 => {
                    let d = out[i].clone();
                    out.insert(i + 1, d);
                    return Some((out, 2, format!("dup pkt {}", i)));
                }
                _ => {
                    if i + 1 < out.len() {
                        out.swap(i, i + 1);
                    }
                    return Some((out, 3, format!("swap pkt {} with next", i)));
                }
            }
        }
        k -= pkts.len() * 3;
        let nf = pkts.len() * 3 * FIELD_VALUES.len();
        if k < nf {
            let i = k / (3 * FIELD_VALUES.len());
            let field = (k / FIELD_VALUES.len()) % 3;
            let val = FIELD_VALUES[k % FIELD_VALUES.len()];
            let p = &mut out[i];
            let kind = wire::header(p).map(|h| h.0);
            match (field, kind) {
                (0, Some(_)) if p.len() > 2 => p[2] = val as u8, // frag id (for complete packets: first type byte)
                (1, Some(Kind::First)) if p.len() >= 5 => {
                    p[3] = (val >> 8) as u8;
                    p[4] = val as u8;
                }
                (2, Some(Kind::End)) if p.len() >= 7 => {
                    let n = p.len();
                    p[n - 4..].copy_from_slice(&val.to_be_bytes());
                }
                _ => {}
            }
            return Some((out, 7, format!("set field {} of pkt {} to {:#x}", ["frag_id", "total_len", "crc"][field], i, val)));
        }
        None
    }

    /// "replacement of frag id, total length or CRC fields by any value": every frag id on every packet, every
    /// total length on every first fragment, and on every end fragment the CRC with each single bit flipped, with
    /// every value of its low half and with every value of its high half.
    pub fn count_fields(pkts: &[Vec<u8>]) -> usize {
        pkts.iter().map(|p| per_packet_fields(p)).sum()
    }
    fn per_packet_fields(p: &[u8]) -> usize {
        match wire::header(p).map(|h| h.0) {
            Some(Kind::First) => 256 + 65536,
            Some(Kind::End) => 256 + 32 + 65536 + 65536,
            Some(_) => 256,
            None => 0,
        }
    }
    pub fn member_fields(pkts: &[Vec<u8>], mut k: usize) -> Option<(Vec<Vec<u8>>, u64, String)> {
        let mut out: Vec<Vec<u8>> = pkts.to_vec();
        for (i, p) in pkts.iter().enumerate() {
            let n = per_packet_fields(p);
            if k >= n {
                k -= n;
                continue;
            }
            let q = &mut out[i];
            if k < 256 {
                if q.len() > 2 {
                    q[2] = k as u8;
                }
                return Some((out, 7, format!("frag id of pkt {} set to {}", i, k)));
            }
            k -= 256;
            match wire::header(p).map(|h| h.0) {
                Some(Kind::First) => {
                    if q.len() >= 5 {
                        q[3] = (k >> 8) as u8;
                        q[4] = k as u8;
                    }
                    return Some((out, 7, format!("total length of pkt {} set to {}", i, k)));
                }
                _ => {
                    let n = q.len();
                    if n >= 7 {
                        if k < 32 {
                            q[n - 4 + (31 - k) / 8] ^= 1 << (k % 8);
                        } else if k < 32 + 65536 {
                            let v = (k - 32) as u16;
                            q[n - 2..].copy_from_slice(&v.to_be_bytes());
                        } else {
                            let v = (k - 32 - 65536) as u16;
                            q[n - 4..n - 2].copy_from_slice(&v.to_be_bytes());
                        }
                    }
                    return Some((out, 7, format!("crc of pkt {} variant {}", i, k)));
                }
            }
        }
        None
    }
}

impl Scenario for RxSim {
    fn name(&self) -> &'static str {
        "rxsim"
    }
    fn tag(&self) -> u64 {
        2
    }
    fn serves(&self) -> &'static [&'static str] {
        &["C03", "C04", "C05", "C08", "C16"]
    }
    fn budget(&self, target: &str, tier: Tier) -> u64 {
        match (target, tier) {
            ("C03", Tier::Quick) => 500000,
            ("C03", Tier::Thorough) => 12000000,
            ("C04", Tier::Quick) => 400000,
            ("C04", Tier::Thorough) => 10000000,
            ("C05", Tier::Quick) => 150000,
            ("C05", Tier::Thorough) => 6000000,
            ("C08", Tier::Quick) => 600000,
            ("C08", Tier::Thorough) => 15000000,
            ("C16", Tier::Quick) => 400000,
            ("C16", Tier::Thorough) => 10000000,
            _ => 0,
        }
    }
    fn rule(&self) -> &'static str {
        "receiver alone on a simulated link: seeded programs of feed/walk/provision/return/reset/memory-fault ops (plus enumerative sweeps and complete single-fault neighbourhoods of sampled base trains); non-trivial = C03: >=1 fault fired inside an open train; C04: >=1 re-use packet met a receiver that had seen a start/complete packet; C05: >=1 decap on a non-empty state or sweep; C08: >=1 packet rejected after a buffer had been taken from the memory or >=1 memory fault fired; C16: probe executed after >=1 prefix packet; distinct = distinct program hashes"
    }
    fn expected_probes(&self, target: &str) -> &'static [&'static str] {
        match target {
            "C03" => &["reassembly_completed", "rej_crc", "rej_total_length", "rej_oversize", "rej_undefined_id"],
            "C04" => &["reuse_resolved", "rej_no_label_saved", "rej_zero_label", "rej_unknown_mandatory"],
            "C05" => &["rej_giveback_overflow", "rej_gse_length", "rej_size_buffer", "rej_oversize", "rej_underflow"],
            "C08" => &["first_refused_with_pending.zero_label", "first_refused_with_pending.unknown_mandatory", "first_refused_with_pending.total_length", "first_refused_with_pending.no_label_saved", "first_refused_with_pending.size_pdu_buffer", "rej_crc", "rej_total_length", "rej_oversize", "rej_undefined_id", "rej_underflow", "rej_giveback_overflow", "rej_unknown_mandatory", "rej_no_label_saved", "rej_zero_label"],
            "C16" => &["probe_complete_delivered", "probe_fragmented_delivered", "pre.all_slots_open", "pre.free_list_empty", "pre.free_list_full", "pre.probe_id_has_pending_reassembly", "pre.probe_slot_held_by_aliasing_id", "probe_broadcast", "probe_reuse_after_complete", "probe_with_extensions", "probe_first_fragment_without_payload", "probe_crc_only_end", "probe_longer_than_a_packet", "probe_near_max_total_length"],
            _ => &[],
        }
    }
    fn components_real(&self) -> &'static [&'static str] {
        &["Decapsulator::{decap,get_label_or_frag_id,provision_storage,reset_last_label}", "SimpleGseMemory (behind LedgerMemory)", "DefaultCrc", "iterate_over_extension_header (private, via decap)"]
    }
    fn components_stub(&self) -> &'static [&'static str] {
        &["link with fault injector (drop/dup/swap/flip/burst/truncate/set_field/splice/junk)", "harness packet serialiser (crafted trains)", "application returning buffers", "LedgerMemory fault injector (underflow/overflow/undefined id) delegating to SimpleGseMemory", "TableManager"]
    }

    fn generate(&self, target: &str, idx: u64, rng: &mut Rng, tier: Tier) -> Program {
        gen::generate(target, idx, rng, tier)
    }

    fn execute(&self, p: &Program, target: &str, st: &mut Stats) -> Option<Violation> {
        let nbmode = p.cfg.get_u("nbhd");
        let nb = nbmode == 1 || nbmode == 2;
        let variant = p.cfg.get_u("variant");
        if nb && variant == 0 {
            // enumerate the complete single-fault neighbourhood of the feed sequence
            let pkts: Vec<Vec<u8>> = p.ops.iter().filter(|o| o.name == "feed").map(|o| o.get_h("hex").to_vec()).collect();
            let n = if nbmode == 2 { nbhd::count_fields(&pkts) } else { nbhd::count(&pkts) };
            st.inc(if nbmode == 2 { "field_value_neighbourhoods" } else { "single_fault_neighbourhoods" });
            let mut logx = 0u64;
            for k in 0..n {
                let mut q = p.clone();
                q.cfg.set_u("variant", k as u64 + 1);
                let mut s2 = Stats::default();
                let v = self.execute(&q, target, &mut s2);
                s2.nontrivial = false;
                logx ^= s2.log.wrapping_mul(2 * k as u64 + 1);
                st.merge(&s2);
                st.inc("faults_enumerated");
                if let Some(mut v) = v {
                    v.reduced = Some(Box::new(q));
                    return Some(v);
                }
            }
            st.log = logx;
            st.nontrivial = n > 0;
            return None;
        }
        // C08: fail each call across the GseDecapMemory seam in turn (complete enumeration around a base history)
        let mfenum = p.cfg.get_u("mfenum") == 1;
        if mfenum && variant == 0 {
            let mut base = p.clone();
            base.cfg.set_u("variant", u64::MAX);
            let mut s0 = Stats::default();
            if let Some(v) = self.execute(&base, target, &mut s0) {
                st.merge(&s0);
                return Some(v);
            }
            let counts = [
                *s0.c.get("trait_calls.provision").unwrap_or(&0),
                *s0.c.get("trait_calls.new_pdu").unwrap_or(&0),
                *s0.c.get("trait_calls.new_frag").unwrap_or(&0),
                *s0.c.get("trait_calls.take_frag").unwrap_or(&0),
                *s0.c.get("trait_calls.save_frag").unwrap_or(&0),
            ];
            st.merge(&s0);
            st.inc("memory_fault_neighbourhoods");
            let mut logx = s0.log;
            for (opk, n) in counts.iter().enumerate() {
                for nth in 0..(*n).min(400) {
                    let mut q = p.clone();
                    q.cfg.set_u("variant", 1 + opk as u64 * 100_000 + nth);
                    let mut s2 = Stats::default();
                    let v = self.execute(&q, target, &mut s2);
                    logx ^= s2.log.wrapping_mul(2 * (opk as u64 * 1000 + nth) + 1);
                    s2.nontrivial = false;
                    st.merge(&s2);
                    st.inc("memory_faults_enumerated");
                    if let Some(mut v) = v {
                        v.reduced = Some(Box::new(q));
                        return Some(v);
                    }
                }
            }
            st.log = logx;
            st.nontrivial = counts.iter().sum::<u64>() > 0;
            return None;
        }
        let mut prog_ops: Vec<Op> = p.ops.clone();
        if mfenum && variant != u64::MAX && variant > 0 {
            let opk = (variant - 1) / 100_000;
            let nth = (variant - 1) % 100_000;
            prog_ops.insert(0, Op::new("memfault").u("op", opk).u("nth", nth));
        }
        if nb {
            // apply member `variant-1` to the feed sequence
            let pkts: Vec<Vec<u8>> = p.ops.iter().filter(|o| o.name == "feed").map(|o| o.get_h("hex").to_vec()).collect();
            let mem = if nbmode == 2 { nbhd::member_fields(&pkts, (variant - 1) as usize) } else { nbhd::member(&pkts, (variant - 1) as usize) };
            if let Some((mutated, fk, _desc)) = mem {
                let first_feed = p.ops.iter().position(|o| o.name == "feed").unwrap_or(0);
                let mut others_before: Vec<Op> = p.ops[..first_feed].to_vec();
                let others_after: Vec<Op> = p.ops.iter().skip(first_feed).filter(|o| o.name != "feed").cloned().collect();
                if (fk == 4 || fk == 5 || fk == 6 || fk == 7) && mutated.len() == pkts.len() {
                    for (m, o) in mutated.into_iter().zip(pkts.iter()) {
                        if m != *o {
                            others_before.push(Op::new("feed").h("hex", m).u("f", fk).h("orig", o.clone()));
                        } else {
                            others_before.push(Op::new("feed").h("hex", m));
                        }
                    }
                } else {
                    for m in mutated {
                        others_before.push(Op::new("feed").h("hex", m).u("f", fk));
                    }
                }
                others_before.extend(others_after);
                prog_ops = others_before;
            }
        }
        let slots = (p.cfg.get_u("slots") as usize).clamp(1, 256);
        let maxpdu = (p.cfg.get_u("maxpdu") as usize).clamp(1, 70_000);
        let bufsize = (p.cfg.get_u("bufsize") as usize).clamp(maxpdu, 140_000);
        // (many buffers only when they are small)
        let nbuf = (p.cfg.get_u("nbuf") as usize).min(slots + 2).min(if bufsize <= 256 { 260 } else { 12 });
        let table = dec_table(p.cfg.get_h("table"));
        let rx = RxNode::new(slots, maxpdu, table.clone(), false);
        let mut w = World { target, rx, refrx: RefRx::default(), table, allowed: None, bufsize, log: H64::new(), decaps: 0, completed: 0, faults_in_train: 0, rejected_after_take: 0, viol: None, no_delivery: BTreeMap::new(), prefix: vec![], last_class_changed_state: false, cfg: p.cfg.clone() };
        if target == "C08" {
            w.rx.led.borrow_mut().keep_trace = false;
        }
        if mfenum && variant != u64::MAX && variant > 0 {
            // armed before the initial provisioning so that those calls are part of the enumeration
            let opk = (variant - 1) / 100_000;
            let nth = (variant - 1) % 100_000;
            w.rx.led.borrow_mut().arm(MemOp::from_u(opk), nth);
            prog_ops.remove(0);
        }
        for _ in 0..nbuf {
            let _ = w.rx.provision(bufsize);
        }
        let mut reuse_met_state = false;
        let mut mem_faults_fired = 0u64;
        let mut probe_done = false;
        let mut sweep_done = false;
        let mut prefix_pkts = 0u64;
        'ops: for op in prog_ops.iter() {
            w.log.s(op.name);
            match op.name {
                "feed" => {
                    let bytes = op.get_h("hex");
                    if w.allowed.is_some() {
                        if let Some((k, lt, _)) = wire::header(bytes) {
                            if (k == Kind::Complete || k == Kind::First) && lt == LT_REUSE {
                                reuse_met_state = true;
                            }
                        }
                    }
                    if op.has("orig") {
                        if let Some((clause, site, fid)) = always_detected_fault(op.get_h("orig"), bytes, &w.table) {
                            st.inc("probe.always_detected_fault_applied");
                            if site.starts_with("first_ext_final") {
                                st.inc("probe.burst_classified_on_first_fragment_ending_in_final_mandatory_extension");
                            }
                            w.no_delivery.insert(fid, (clause, site));
                        }
                    } else if let Some((Kind::First, _, gl)) = wire::header(bytes) {
                        // an unfaulted first fragment starts a new train on its id: earlier claims end
                        if bytes.len() >= gl + 2 && bytes.len() > 2 {
                            w.no_delivery.remove(&bytes[2]);
                        }
                    }
                    let (stop, _) = w.feed(st, bytes, op.get_u("f"), Some(op.clone()));
                    prefix_pkts += 1;
                    if stop {
                        break 'ops;
                    }
                    // the application returns delivered buffers when told to (`ret`); C03/C04/C05 return at once
                    if target != "C08" && target != "C16" {
                        let n = w.rx.app.len();
                        w.rx.give_back(n);
                    }
                }
                "walk" => {
                    let bytes = op.get_h("hex");
                    st.inc("frames");
                    let mut off = 0usize;
                    let mut steps = 0usize;
                    let limit = bytes.len() / 2 + 2;
                    while off < bytes.len() {
                        let (stop, c) = w.feed(st, &bytes[off..], 9, Some(Op::new("feed").h("hex", bytes[off..].to_vec())));
                        if stop {
                            break 'ops;
                        }
                        steps += 1;
                        if c == 0 || steps > limit {
                            let v = Violation::new("C05", "C05.walker_does_not_terminate", "walk", format!("frame of {} bytes: {} steps, at offset {} consumed {}", bytes.len(), steps, off, c));
                            if w.report(st, v) {
                                break 'ops;
                            }
                            break;
                        }
                        off += c;
                        let n = w.rx.app.len();
                        if target != "C08" {
                            w.rx.give_back(n);
                        }
                    }
                }
                "prov" => {
                    let size = (op.get_u("size") as usize).clamp(1, 140_000);
                    st.inc("lib_calls");
                    match w.rx.provision(size) {
                        Ok(_) => {}
                        Err((m, l)) => {
                            let v = Violation::new("C17", "C17.panic", panic_site(&m, &l), format!("provision_storage panicked: {}", m));
                            let _ = w.report(st, v);
                            break 'ops;
                        }
                    }
                    if w.check_ledger(st, "provision", "") {
                        break 'ops;
                    }
                }
                "ret" => {
                    let n = op.get_u("n") as usize;
                    w.rx.give_back(n.min(16));
                    if w.check_ledger(st, "return", "") {
                        break 'ops;
                    }
                }
                "reset" => {
                    w.rx.reset();
                    w.allowed = None;
                }
                "memfault" => {
                    let mo = MemOp::from_u(op.get_u("op"));
                    // a refused save ("occupied slot"): the trait's error value carries no buffer, so the
                    // refusing wrapper keeps it (LedgerMemory::parked, a place of its own); everything else
                    // has to stay where it was
                    w.rx.led.borrow_mut().arm(mo, op.get_u("nth"));
                }
                "ctxfault" => {
                    // storage corruption of a parked context: only totality, conservation and recovery speak
                    // about such a state (C05, C08, C16); the delivery oracles do not apply to it
                    if target == "C05" || target == "C08" || target == "C16" {
                        w.rx.led.borrow_mut().arm_ctx(op.get_u("nth"), op.get_u("field") as u8, op.get_u("val"));
                    } else {
                        st.inc("nofire.ctxfault_not_applicable");
                    }
                }
                "audit" => {
                    if w.audit(st, "mid_run") {
                        break 'ops;
                    }
                }
                "sweep" => {
                    sweep_done = true;
                    let kind = op.get_u("kind");
                    let a = op.get_u("a");
                    let n = op.get_u("n");
                    let t = op.get_u("t");
                    let open_fid = w.rx.led.borrow().attached_ids().first().copied().unwrap_or(7);
                    st.inc("exhaustive_sweep_ops");
                    // the state class this sweep is meant to cross with every input: the packets fed before it
                    // re-establish it (open contexts, remembered label, free list) whenever an input disturbed it
                    let state_pkts: Vec<Vec<u8>> = prog_ops.iter().take_while(|o| o.name != "sweep").filter(|o| o.name == "feed").map(|o| o.get_h("hex").to_vec()).collect();
                    let ids0 = w.rx.led.borrow().attached_ids();
                    let mut restore_budget: usize = 150_000;
                    // kind 4: headers a, a+stride, ... (n of them), each with *every* truncation of the announced packet
                    // (0 bytes .. one byte more than announced) on tail pattern t
                    let stride = op.get_u("stride").max(1);
                    let inputs: Box<dyn Iterator<Item = Vec<u8>>> = if kind == 4 {
                        Box::new((0..n).map(move |i| a + i * stride).filter(|h| *h <= 0xFFFF).flat_map(move |h| {
                            let mut full = sweep_input(2, h * 32 + 25, t, open_fid).unwrap_or_default();
                            let fill = *full.last().unwrap_or(&0);
                            full.push(fill);
                            (0..=full.len()).map(move |l| full[..l].to_vec())
                        }))
                    } else {
                        Box::new((a..a.saturating_add(n)).map_while(move |k| sweep_input(kind, k, t, open_fid)))
                    };
                    for inp in inputs {
                        if kind == 4 {
                            st.inc("sweep_inputs_every_truncation");
                        }
                        st.inc("sweep_inputs");
                        let (stop, _) = w.feed(st, &inp, 0, Some(Op::new("feed").h("hex", inp.clone())));
                        if stop {
                            break 'ops;
                        }
                        // keep the state class stable: return buffers at once and, when the input changed the
                        // receiver (anything but an unknown frag id leaves a trace), feed the state packets again
                        let nn = w.rx.app.len();
                        w.rx.give_back(nn);
                        if !state_pkts.is_empty() && restore_budget >= state_pkts.len() && (w.last_class_changed_state || w.rx.led.borrow().attached_ids() != ids0) {
                            st.inc("sweep_state_restored");
                            // (bounded: a state of 256 open contexts is not rebuilt after each of 16 000 inputs)
                            restore_budget -= state_pkts.len();
                            for sp in &state_pkts {
                                st.inc("lib_calls");
                                if let RxRes::Ok(DecapStatus::CompletedPkt(b, _), _) = w.rx.decap(sp) {
                                    w.rx.app.push(b);
                                }
                            }
                            let nn = w.rx.app.len();
                            w.rx.give_back(nn);
                        }
                        w.prefix.push(Op::new("feed").h("hex", inp));
                        if w.prefix.len() > 64 {
                            // reduced programs only need the recent past; older inputs rarely matter and the
                            // runner verifies every reduction by re-execution before using it
                            let keep = w.prefix.split_off(w.prefix.len() - 32);
                            let head: Vec<Op> = w.prefix.iter().filter(|o| o.name != "feed").cloned().collect();
                            w.prefix = head;
                            w.prefix.extend(keep);
                        }
                    }
                    continue;
                }
                "probe" => {
                    // faults stop
                    mem_faults_fired += w.rx.led.borrow().fired.values().sum::<u64>();
                    w.rx.led.borrow_mut().disarm_all();
                    w.rx.reset();
                    w.allowed = None;
                    let seed = op.get_u("seed");
                    let fid = op.get_u("fid") as u8;
                    // the complete packet carries an explicit label
                    let mut lab = Lab::dec(op.get_h("lab"));
                    if !lab.is_addr() || lab.is_zero6() {
                        lab = Lab::L3([1, 2, 3]);
                    }
                    // the fragmented PDU: any label kind (a re-use label only right after the complete packet)
                    let kind = op.get_u("kind") % 3;
                    let mut flab = if op.has("flab") { Lab::dec(op.get_h("flab")) } else { lab };
                    if flab.is_zero6() || (flab == Lab::ReUse && kind != 2) {
                        flab = lab;
                    }
                    let exts: Vec<(u16, Vec<u8>)> = if op.has("exts") { crate::wire::dec_exts(op.get_h("exts")) } else { vec![] };
                    let fm = op.get_u("fm") == 1 && exts.last().map(|e| e.0 < 0x100).unwrap_or(false);
                    let pt: u16 = if fm {
                        exts.last().unwrap().0
                    } else if op.has("pt") && op.get_u("pt") >= 0x600 && op.get_u("pt") <= 0xFFFF {
                        op.get_u("pt") as u16
                    } else {
                        0x0800
                    };
                    // extension chain must be readable with the receiver's table, otherwise the probe is not valid
                    let exts_ok = exts.iter().enumerate().all(|(i, e)| {
                        if e.0 >= 0x100 {
                            crate::wire::opt_ext_len(e.0) == Some(e.1.len())
                        } else {
                            match w.table.lookup(e.0) {
                                MExt::NonFinal(n) => n as usize == e.1.len() && !(fm && i + 1 == exts.len()),
                                MExt::Final(n) => n as usize == e.1.len() && fm && i + 1 == exts.len(),
                                MExt::Unknown => false,
                            }
                        }
                    }) && exts.iter().map(|e| e.1.len() + 2).sum::<usize>() < 60;
                    let exts: Vec<(u16, Vec<u8>)> = if exts_ok { exts } else { vec![] };
                    let (fm, pt) = if exts_ok { (fm, pt) } else { (false, if pt >= 0x600 { pt } else { 0x0800 }) };
                    let flen_lab = if flab == Lab::ReUse { 0 } else { flab.len() };
                    let len = (op.get_u("len") as usize).min(maxpdu).min(65535 - 2 - flen_lab);
                    let clen = (if op.has("clen") { op.get_u("clen") as usize } else { len }).min(maxpdu).min(4000);
                    let nfrag = (op.get_u("nfrag") as usize).clamp(2, 4);
                    let pdu = pdu_bytes(len, seed);
                    let cpdu = pdu_bytes(clen, seed ^ 0x5555);
                    // cut points of the fragmented PDU: given explicitly (u16 big endian list), else equal pieces
                    let mut cuts: Vec<usize> = op.get_h("cuts").chunks(2).filter(|c| c.len() == 2).map(|c| u16::from_be_bytes([c[0], c[1]]) as usize).collect();
                    let hdr_room = 3 + 2 + 2 + flen_lab + exts.iter().map(|e| e.1.len() + 2).sum::<usize>();
                    let valid_cuts = !cuts.is_empty()
                        && cuts.windows(2).all(|x| x[0] < x[1] || (x[0] == x[1] && false))
                        && *cuts.last().unwrap() <= len
                        && cuts[0] + hdr_room <= 4095
                        && cuts.windows(2).all(|x| x[1] - x[0] <= 4094)
                        && len - cuts.last().unwrap() <= 4090;
                    if !valid_cuts {
                        let n = nfrag.max(len / 3000 + 2);
                        cuts = (1..n).map(|i| len * i / n).collect();
                        cuts.dedup();
                        if cuts.windows(2).any(|x| x[0] == x[1]) || cuts.is_empty() {
                            cuts = vec![len / 2];
                        }
                    }
                    let do_complete = kind == 0 || kind == 2 || len < 2;
                    let do_frag = (kind == 1 || kind == 2) && len >= 2;
                    // ---- state of the receiver when recovery starts
                    {
                        let g = w.rx.led.borrow();
                        let att = g.attached_ids();
                        if att.len() >= slots {
                            st.inc("probe.pre.all_slots_open");
                        }
                        if g.n_inside() == g.n_attached() {
                            st.inc("probe.pre.free_list_empty");
                        }
                        if do_frag {
                            if att.contains(&fid) {
                                st.inc("probe.pre.probe_id_has_pending_reassembly");
                            } else if att.iter().any(|a| (*a as usize) % slots == (fid as usize) % slots) {
                                st.inc("probe.pre.probe_slot_held_by_aliasing_id");
                            }
                        }
                    }
                    let mut transfers: Vec<(Vec<Vec<u8>>, Vec<u8>, Lab, u16, &'static str)> = vec![];
                    if do_complete {
                        let cexts: Vec<(u16, Vec<u8>)> = if kind == 2 { vec![] } else { exts.clone() };
                        let (cfm, cpt) = if kind == 2 { (false, 0x0800) } else { (fm, pt) };
                        let room = 4095usize.saturating_sub(2 + lab.len() + cexts.iter().map(|e| e.1.len() + 2).sum::<usize>());
                        let cl = clen.min(room);
                        transfers.push((vec![wire::serialise(&Desc { kind: Kind::Complete, lt: lab.lt(), frag_id: 0, total_len: 0, ptype: cpt, label: lab.bytes(), exts: &cexts, final_mandatory: cfm, payload: &cpdu[..cl], crc: 0 }, None)], cpdu[..cl].to_vec(), lab, cpt, "complete"));
                    }
                    if do_frag {
                        // the CRC of a re-use first fragment does not cover a label
                        let t = gen::fragment(&pdu, fid, pt, &flab, &exts, fm, cuts.len() + 1, Some(&cuts));
                        let want_lab = if flab == Lab::ReUse { lab } else { flab };
                        transfers.push((t, pdu.clone(), want_lab, pt, "fragmented"));
                    }
                    for (pkts, want, want_lab, want_pt, tname) in transfers {
                        // one storage buffer made available (or the free list is full)
                        st.inc("lib_calls");
                        match w.rx.provision(bufsize) {
                            Ok(true) => {}
                            Ok(false) => st.inc("probe.pre.free_list_full"),
                            Err((m, l)) => {
                                let v = Violation::new("C16", "C16.provision_panicked", panic_site(&m, &l), m);
                                let _ = w.report(st, v);
                                break 'ops;
                            }
                        }
                        let want_len = want.len();
                        let np = pkts.len();
                        let mut delivered = false;
                        for (i, pk) in pkts.iter().enumerate() {
                            st.inc("packets");
                            st.inc("lib_calls");
                            let r = w.rx.decap(pk);
                            w.log.s(r.class());
                            let last = i + 1 == np;
                            let ok = match &r {
                                RxRes::Ok(DecapStatus::CompletedPkt(b, md), n) if last => {
                                    delivered = true;
                                    *n == pk.len() && md.pdu_len() == want_len && b.len() >= want_len && b[..want_len] == want[..] && from_label(&md.label()) == want_lab && md.protocol_type() == want_pt
                                }
                                RxRes::Ok(DecapStatus::FragmentedPkt(_), n) if !last => *n == pk.len(),
                                _ => false,
                            };
                            if !ok {
                                let ec = match &r {
                                    RxRes::Err(e, _) => err_class(e).to_string(),
                                    RxRes::Panic(m, l) => format!("panic:{}", panic_site(m, l)),
                                    x => x.class().to_string(),
                                };
                                let v = Violation::new(
                                    "C16",
                                    "C16.probe_not_delivered",
                                    format!("{}:{}:{}", tname, if last { "last" } else { "nonlast" }, ec),
                                    format!("after a prefix of {} packets the probe ({} packet(s), pdu {} bytes, frag id {}, label {}, {} extension(s)) failed at packet {}: {}{}", prefix_pkts, np, want_len, fid, want_lab.short(), exts.len(), i, ec, if delivered { " (delivered but wrong)" } else { "" }),
                                );
                                let _ = w.report(st, v);
                                break 'ops;
                            }
                            if let RxRes::Ok(DecapStatus::CompletedPkt(b, _), _) = r {
                                w.rx.app.push(b);
                            }
                        }
                        st.inc(if tname == "complete" { "probe.probe_complete_delivered" } else { "probe.probe_fragmented_delivered" });
                        if tname == "fragmented" {
                            if cuts[0] == 0 {
                                st.inc("probe.probe_first_fragment_without_payload");
                            }
                            if *cuts.last().unwrap() == len {
                                st.inc("probe.probe_crc_only_end");
                            }
                            if !exts.is_empty() {
                                st.inc("probe.probe_with_extensions");
                            }
                            if flab == Lab::Bcast {
                                st.inc("probe.probe_broadcast");
                            }
                            if flab == Lab::ReUse {
                                st.inc("probe.probe_reuse_after_complete");
                            }
                            if len > 4097 {
                                st.inc("probe.probe_longer_than_a_packet");
                            }
                            if len >= 65000 {
                                st.inc("probe.probe_near_max_total_length");
                            }
                        }
                    }
                    probe_done = true;
                }
                _ => {}
            }
            if op.name != "sweep" {
                w.prefix.push(op.clone());
            }
            // abstract receiver state
            {
                let g = w.rx.led.borrow();
                let mut sh = H64::new();
                sh.u(g.n_attached() as u64);
                sh.u((g.n_inside() - g.n_attached()).min(6) as u64);
                sh.u(w.rx.app.len().min(4) as u64);
                sh.u(match w.allowed {
                    None => 0,
                    Some(Lab::L6(_)) => 1,
                    Some(Lab::L3(_)) => 2,
                    _ => 3,
                });
                st.cov("state", sh.0);
            }
        }
        mem_faults_fired += w.rx.led.borrow().fired.values().sum::<u64>();
        for (k, v) in w.rx.led.borrow().fired.iter() {
            st.add(
                match k {
                    MemOp::Provision => "fault.mem_overflow_on_provision",
                    MemOp::NewPdu => "fault.mem_underflow_new_pdu",
                    MemOp::NewFrag => "fault.mem_underflow_new_frag",
                    MemOp::TakeFrag => "fault.mem_undefined_id",
                    MemOp::SaveFrag => "fault.mem_corrupted_save_frag",
                },
                *v,
            );
        }
        st.add("fault.ctx_corrupted_on_take", w.rx.led.borrow().ctx_fired);
        st.add("probe.ctx_pdu_len_beyond_storage", w.rx.led.borrow().ctx_beyond_storage);
        let unfired = w.rx.led.borrow().faults.iter().filter(|f| !f.fired).count() as u64;
        st.add("nofire.mem_fault_never_reached", unfired);
        if w.viol.is_none() && target == "C08" {
            w.rx.led.borrow_mut().disarm_all();
            let _ = w.audit(st, "final");
        }
        st.add("decap_calls", w.decaps);
        for (k, v) in w.rx.led.borrow().calls.iter() {
            st.add(
                match k {
                    MemOp::Provision => "trait_calls.provision",
                    MemOp::NewPdu => "trait_calls.new_pdu",
                    MemOp::NewFrag => "trait_calls.new_frag",
                    MemOp::TakeFrag => "trait_calls.take_frag",
                    MemOp::SaveFrag => "trait_calls.save_frag",
                },
                *v,
            );
        }
        st.nontrivial = match target {
            "C03" => w.faults_in_train >= 1,
            "C04" => reuse_met_state,
            "C05" => w.decaps >= 1 || sweep_done,
            "C08" => w.rejected_after_take >= 1 || mem_faults_fired >= 1,
            "C16" => probe_done && prefix_pkts >= 1,
            _ => w.decaps >= 1,
        };
        st.log = w.log.0;
        w.viol.take()
    }
}

pub mod gen {
    use super::*;
    use crate::scen::flow::gen::{addr_label, ext_chain, label, L3A, L3B, L6A, L6B};

    /// fragment a PDU into `n` packets with the harness serialiser (valid by construction)
    pub fn fragment(pdu: &[u8], fid: u8, ptype: u16, lab: &Lab, exts: &[(u16, Vec<u8>)], final_mand: bool, n: usize, cuts: Option<&[usize]>) -> Vec<Vec<u8>> {
        let cr = crcref();
        let n = n.max(2);
        let total = (pdu.len() + 2 + lab.len()) as u16;
        let crc = cr.gse(total, ptype, lab.bytes(), pdu);
        // cut points: n-1 payload-carrying packets + the end packet also carries payload
        let mut bounds = vec![0usize];
        match cuts {
            Some(c) => bounds.extend_from_slice(c),
            None => {
                for i in 1..n {
                    bounds.push(pdu.len() * i / n);
                }
            }
        }
        bounds.push(pdu.len());
        bounds.sort();
        let mut out = vec![];
        for i in 0..bounds.len() - 1 {
            let pl = &pdu[bounds[i]..bounds[i + 1]];
            let kind = if i == 0 { Kind::First } else if i + 2 == bounds.len() { Kind::End } else { Kind::Inter };
            let d = Desc { kind, lt: if i == 0 { lab.lt() } else { LT_REUSE }, frag_id: fid, total_len: total, ptype, label: if i == 0 { lab.bytes() } else { &[] }, exts: if i == 0 { exts } else { &[] }, final_mandatory: final_mand, payload: pl, crc };
            out.push(wire::serialise(&d, None));
        }
        out
    }

    fn cfg(slots: usize, maxpdu: usize, bufsize: usize, nbuf: usize, table: &ExtTable) -> Op {
        let mut o = Op::new("cfg").u("slots", slots as u64).u("maxpdu", maxpdu as u64).u("bufsize", bufsize as u64).u("nbuf", nbuf as u64).u("nbhd", 0).u("mfenum", 0).u("variant", 0);
        if !table.entries.is_empty() {
            o = o.h("table", enc_table(table));
        }
        o
    }
    fn feed(b: Vec<u8>, f: u64) -> Op {
        let o = Op::new("feed").h("hex", b);
        if f != 0 {
            o.u("f", f)
        } else {
            o
        }
    }

    pub fn std_table() -> ExtTable {
        ExtTable { entries: vec![(0x01, MExt::NonFinal(4)), (0x81, MExt::Final(2)), (0x82, MExt::Final(0))] }
    }

    /// a random valid train: (packets, fid)
    fn train(rng: &mut Rng, table: &mut ExtTable, fid: u8, maxlen: usize) -> Vec<Vec<u8>> {
        let lab = if rng.chance(1, 8) { Lab::ReUse } else { label(rng, false) };
        let n = rng.usize_in(2, 6);
        let len = rng.usize_in(n, maxlen.max(n + 1));
        let pdu = pdu_bytes(len, rng.next());
        let (exts, pt, fm) = if rng.chance(1, 5) {
            let (e, p) = ext_chain(rng, table);
            let fm = e.last().map(|x| x.0 < 0x100 && x.0 == p).unwrap_or(false);
            (e, p, fm)
        } else {
            (vec![], crate::scen::flow::gen::ptype(rng), false)
        };
        let mut cuts: Vec<usize> = (0..n - 1).map(|_| rng.usize_in(0, len)).collect();
        cuts.sort();
        fragment(&pdu, fid, pt, &lab, &exts, fm, n, Some(&cuts))
    }

    pub fn junk(rng: &mut Rng) -> Vec<u8> {
        match rng.below(6) {
            0 => vec![0u8; rng.usize_in(0, 40)],
            1 => rng.rbytes(0, 3),
            2 => {
                let n = rng.usize_in(2, 60);
                rng.bytes(n)
            }
            3 => {
                // header-only buffers of every kind
                let h = (rng.below(16) as u16) << 12 | rng.below(4096) as u16;
                let mut v = h.to_be_bytes().to_vec();
                let k = rng.usize_in(0, 5);
                v.extend(rng.bytes(k));
                v
            }
            4 => {
                // consistent length, random content
                let gl = rng.usize_in(0, 80);
                let h = (rng.below(16) as u16) << 12 | gl as u16;
                let mut v = h.to_be_bytes().to_vec();
                v.extend(rng.bytes(gl));
                v
            }
            _ => {
                let n = rng.usize_in(60, 8192);
                rng.bytes(n)
            }
        }
    }

    /// apply one random link fault to a packet list (in place); returns the fault kind code
    pub fn link_fault(rng: &mut Rng, pkts: &mut Vec<(Vec<u8>, u64)>, bias_lo: usize, bias_hi: usize) {
        if pkts.is_empty() {
            return;
        }
        let hi = bias_hi.min(pkts.len() - 1);
        let lo = bias_lo.min(hi);
        let i = if rng.chance(7, 10) { rng.usize_in(lo, hi) } else { rng.usize_in(0, pkts.len() - 1) };
        match rng.below(12) {
            0 => {
                pkts.remove(i);
                if i < pkts.len() {
                    pkts[i].1 = 1;
                } else if !pkts.is_empty() {
                    let l = pkts.len() - 1;
                    pkts[l].1 = 1;
                }
            }
            1 => {
                let mut d = pkts[i].clone();
                d.1 = 2;
                pkts.insert(i + 1, d);
            }
            2 => {
                if i + 1 < pkts.len() {
                    pkts.swap(i, i + 1);
                    pkts[i].1 = 3;
                    pkts[i + 1].1 = 3;
                }
            }
            3 | 4 => {
                let n = pkts[i].0.len() * 8;
                if n > 0 {
                    let b = rng.usize_in(0, n - 1);
                    pkts[i].0[b / 8] ^= 0x80 >> (b % 8);
                    pkts[i].1 = 4;
                }
            }
            5 | 6 => {
                let n = pkts[i].0.len() * 8;
                if n > 0 {
                    let w = rng.usize_in(2, 32);
                    // bias to field boundaries
                    let plen = pkts[i].0.len();
                    let start = match rng.below(4) {
                        0 => rng.usize_in(0, n - 1),
                        1 => (plen.saturating_sub(5)) * 8 + rng.usize_in(0, 15),
                        2 => 16 + rng.usize_in(0, 60),
                        _ => (plen.saturating_sub(4)) * 8 + rng.usize_in(0, 31),
                    }
                    .min(n - 1);
                    let mut pat = rng.next() as u32;
                    if w < 32 {
                        pat &= (1u32 << w) - 1;
                    }
                    pat |= 1 | (1u32 << (w - 1));
                    nbhd::xor_burst(&mut pkts[i].0, start, w, pat);
                    pkts[i].1 = 5;
                }
            }
            7 => {
                let n = pkts[i].0.len();
                let at = rng.usize_in(0, n);
                pkts[i].0.truncate(at);
                pkts[i].1 = 6;
            }
            8 | 9 => {
                // field replacement
                let p = &mut pkts[i].0;
                let kind = wire::header(p).map(|h| h.0);
                let v = match rng.below(4) {
                    0 => *rng.pick(&nbhd::FIELD_VALUES),
                    _ => rng.next() as u32,
                };
                match (rng.below(5), kind) {
                    (0, Some(_)) if p.len() > 2 => p[2] = v as u8,
                    (1, Some(Kind::First)) if p.len() >= 5 => {
                        p[3] = (v >> 8) as u8;
                        p[4] = v as u8;
                    }
                    (2, Some(Kind::End)) if p.len() >= 7 => {
                        let n = p.len();
                        p[n - 4..].copy_from_slice(&v.to_be_bytes());
                    }
                    (3, Some(_)) if p.len() >= 2 => {
                        // gse length
                        p[0] = (p[0] & 0xF0) | ((v >> 8) as u8 & 0x0F);
                        p[1] = v as u8;
                    }
                    (_, Some(_)) if !p.is_empty() => {
                        // label type bits
                        p[0] = (p[0] & 0xCF) | ((v as u8 & 3) << 4);
                    }
                    _ => {}
                }
                pkts[i].1 = 7;
            }
            10 => {
                let to = rng.usize_in(0, pkts.len() - 1);
                let mut x = pkts.remove(i);
                x.1 = 12;
                pkts.insert(to.min(pkts.len()), x);
            }
            _ => {
                let j = junk(rng);
                pkts.insert(i, (j, 9));
            }
        }
    }

    /// crafted trains from the harness serialiser: lengths off by small amounts, wrong CRCs, orphans
    fn crafted(rng: &mut Rng, fid: u8) -> Vec<Vec<u8>> {
        let cr = crcref();
        let lab = label(rng, false);
        let n = rng.usize_in(2, 5);
        let tiny = rng.chance(1, 6);
        let len = if tiny { rng.usize_in(0, 2) } else { rng.usize_in(n, 200) };
        let pdu = pdu_bytes(len, rng.next());
        let pt = 0x0800;
        let announced: u16 = match if tiny { 8 + rng.below(2) } else { rng.below(8) } {
            8 => rng.range(1, 3 + lab.len() as u64) as u16, // smaller than protocol type + label: nothing can match it
            9 => (len + 2 + lab.len()) as u16,
            0 => 0,
            1 => 65535,
            2 => (len + 2 + lab.len()) as u16 + 1,
            3 => ((len + 2 + lab.len()) as u16).wrapping_sub(1),
            4 => (len + 2 + lab.len()) as u16 + 2,
            5 => ((len + 2 + lab.len()) as u16).wrapping_sub(2),
            _ => (len + 2 + lab.len()) as u16,
        };
        // CRC computed over the announced length (so that only the length check can catch it) or wrong
        let crc = match rng.below(4) {
            0 => rng.next() as u32,
            _ => cr.gse(announced, pt, lab.bytes(), &pdu),
        };
        let mut out = vec![];
        let mut bounds: Vec<usize> = (0..n - 1).map(|_| rng.usize_in(0, len)).collect();
        bounds.push(0);
        bounds.push(len);
        bounds.sort();
        let skip_first = rng.chance(1, 8);
        let skip_end = rng.chance(1, 8);
        for i in 0..bounds.len() - 1 {
            let kind = if i == 0 { Kind::First } else if i + 2 == bounds.len() { Kind::End } else { Kind::Inter };
            if (kind == Kind::First && skip_first) || (kind == Kind::End && skip_end) {
                continue;
            }
            let d = Desc { kind, lt: if i == 0 { lab.lt() } else { LT_REUSE }, frag_id: fid, total_len: announced, ptype: pt, label: if i == 0 { lab.bytes() } else { &[] }, exts: &[], final_mandatory: false, payload: &pdu[bounds[i]..bounds[i + 1]], crc };
            out.push(wire::serialise(&d, None));
        }
        out
    }

    /// a train whose fragments add up to more than 65535 bytes (receiver storage 70000):
    /// the announced total length is the real length modulo 65536 and the CRC is the CRC of what a
    /// receiver with a wrapping 16-bit counter would have in its buffer, or of the real data
    fn long_train(rng: &mut Rng, target: &str) -> Program {
        let cr = crcref();
        let fid = rng.below(256) as u8;
        let lab = label(rng, false);
        let chunk = rng.usize_in(3000, 4090);
        let total_real = 65536 + rng.usize_in(4100, 4400); // announced (mod 65536) must exceed the first fragment
        let data = pdu_bytes(total_real, rng.next());
        let announced = ((total_real + 2 + lab.len()) & 0xFFFF) as u16;
        let crc = match rng.below(3) {
            0 => cr.gse(announced, 0x0800, lab.bytes(), &data),
            1 => cr.gse(announced, 0x0800, lab.bytes(), &data[..(total_real & 0xFFFF)]),
            _ => cr.gse(announced, 0x0800, lab.bytes(), &data[65536..]),
        };
        let mut ops = vec![];
        let mut off = 0;
        let mut first = true;
        while off < total_real {
            let n = chunk.min(total_real - off);
            let last = off + n == total_real;
            let kind = if first { Kind::First } else if last { Kind::End } else { Kind::Inter };
            let d = Desc { kind, lt: if first { lab.lt() } else { LT_REUSE }, frag_id: fid, total_len: announced, ptype: 0x0800, label: if first { lab.bytes() } else { &[] }, exts: &[], final_mandatory: false, payload: &data[off..off + n], crc };
            ops.push(feed(wire::serialise(&d, None), 10));
            off += n;
            first = false;
        }
        if target == "C16" {
            let t = ExtTable::default();
            let pfid = if rng.chance(1, 2) { fid } else { rng.below(256) as u8 };
            ops.push(probe_op(rng, 70_000, &t, pfid));
        }
        Program { scenario: "rxsim", cfg: cfg(2, 70_000, 70_000, 3, &ExtTable::default()), ops }
    }

    /// the recovery transfer(s) of C16: a complete packet with an explicit label and/or a fragmented PDU of any
    /// label kind, on any frag id, with or without header extensions the receiver knows, cut anywhere (first fragment
    /// without payload and CRC-only end fragment included), up to the storage size
    fn probe_op(rng: &mut Rng, maxpdu: usize, table: &ExtTable, fid: u8) -> Op {
        let lab = addr_label(rng);
        let kind = *rng.pick(&[0u64, 1, 1, 2, 2, 2]);
        let flab = match rng.below(8) {
            0 => Lab::Bcast,
            1 if kind == 2 => Lab::ReUse,
            2 => Lab::L3([0; 3]),
            _ => addr_label(rng),
        };
        let fl = if flab == Lab::ReUse { 0 } else { flab.len() };
        let cap = maxpdu.min(65535 - 2 - fl);
        let len = match rng.below(10) {
            0 => cap,
            1 => cap.saturating_sub(rng.usize_in(0, 3)),
            2 => rng.usize_in(0, 5).min(cap),
            3 => rng.usize_in(4080.min(cap), 4100.min(cap)),
            _ => rng.usize_in(0, cap.min(400)),
        };
        // extensions the receiver knows
        let mut exts: Vec<(u16, Vec<u8>)> = vec![];
        let mut fm = 0u64;
        if rng.chance(1, 3) {
            for _ in 0..rng.usize_in(1, 3) {
                let h = rng.range(1, 5);
                exts.push(((h << 8) as u16 | rng.below(256) as u16, rng.bytes((h as usize - 1) * 2)));
            }
            for (id, m) in &table.entries {
                match m {
                    MExt::NonFinal(n) if rng.chance(1, 3) => exts.insert(0, (*id, rng.bytes(*n as usize))),
                    MExt::Final(n) if fm == 0 && rng.chance(1, 4) => {
                        exts.push((*id, rng.bytes(*n as usize)));
                        fm = 1;
                    }
                    _ => {}
                }
            }
        }
        // cut points: strictly increasing, pieces short enough for one packet each
        let mut cuts: Vec<usize> = vec![];
        if len >= 2 {
            let mut at = match rng.below(4) {
                0 => 0, // first fragment without payload
                _ => rng.usize_in(1, len.min(3900)),
            };
            loop {
                cuts.push(at);
                if len - at <= 4090 && (rng.chance(1, 2) || cuts.len() > 40) {
                    break;
                }
                let step = if len - at > 4000 { rng.usize_in(3000, 4000) } else { rng.usize_in(1, (len - at).max(1)) };
                if at + step >= len {
                    if rng.chance(1, 2) && at < len {
                        cuts.push(len); // CRC-only end fragment
                    }
                    break;
                }
                at += step;
            }
        }
        let mut ch: Vec<u8> = vec![];
        for c in &cuts {
            ch.extend_from_slice(&(*c as u16).to_be_bytes());
        }
        let mut o = Op::new("probe").u("kind", kind).u("fid", fid as u64).u("len", len as u64).u("clen", rng.range(0, maxpdu.min(4000) as u64)).u("seed", rng.next()).h("lab", lab.enc()).h("flab", flab.enc()).u("nfrag", rng.range(2, 4)).u("fm", fm).u("pt", *rng.pick(&[0x0800u64, 0x0600, 0x86DD, 0xFFFF]));
        if !exts.is_empty() {
            o = o.h("exts", crate::wire::enc_exts(&exts));
        }
        if !ch.is_empty() {
            o = o.h("cuts", ch);
        }
        o
    }

    pub fn generate(target: &str, idx: u64, rng: &mut Rng, tier: Tier) -> Program {
        // rare: trains longer than the 16-bit counters (C03 silent corruption / C05 totality / C16 recovery)
        if matches!(target, "C03" | "C05" | "C08" | "C16") && idx % 997 == 996 {
            return long_train(rng, target);
        }
        match target {
            "C03" => gen_c03(idx, rng, tier),
            "C04" => gen_c04b(rng),
            "C05" => gen_c05(idx, rng, tier),
            "C08" => gen_c08(idx, rng, tier),
            "C16" => gen_c16(rng),
            _ => gen_c05(idx, rng, tier),
        }
    }

    /// The one known way past the burst clause (DESIGN 8.3, known finding K1): a burst over total length and
    /// protocol type that turns the type field into an optional extension id, on a PDU and label chosen so that the
    /// CRC over the re-interpreted fields collides (the CRC covers interpreted fields, not the bytes received).
    fn directed_burst_reinterpretation() -> Program {
        let mut pdu: Vec<u8> = (0..100u8).collect();
        pdu[0] = 0x41;
        pdu[1] = 0xb6;
        let t = fragment(&pdu, 9, 0x0800, &Lab::L6(*b"dRng!:"), &[], false, 3, Some(&[37, 84]));
        let mut f = t[0].clone();
        f[4] ^= 0x06;
        f[5] ^= 0x09;
        let ops = vec![Op::new("feed").h("hex", f).u("f", 5).h("orig", t[0].clone()), feed(t[1].clone(), 0), feed(t[2].clone(), 0)];
        Program { scenario: "rxsim", cfg: cfg(2, 128, 128, 3, &ExtTable::default()), ops }
    }

    /// Search, by linear algebra over GF(2) on the reference CRC, for a burst of <= 32 bits that is contiguous on
    /// the wire (protocol type and the first payload bytes of a first fragment with header extensions) and whose
    /// CRC syndrome is zero. In the CRC input the label sits between protocol type and PDU, so the burst is not
    /// contiguous there and the CRC-32 burst guarantee does not apply (DESIGN 8.3, known finding K2). The burst
    /// does not depend on the PDU: the syndrome of a difference pattern is linear.
    fn directed_burst_across_label(lab: &Lab, which: u64) -> Program {
        let cr = crcref();
        let pdu: Vec<u8> = (0..60u8).map(|i| i.wrapping_mul(37).wrapping_add(11)).collect();
        let ptype = 0x0800u16;
        let exts = vec![(0x0301u16, vec![0xA1u8, 0xA2, 0xA3, 0xA4])];
        let t = fragment(&pdu, 9, ptype, lab, &exts, false, 3, Some(&[20, 45]));
        let ptoff = 2 + 3 + 2 + lab.len() + 4;
        let total = (pdu.len() + 2 + lab.len()) as u16;
        let base = cr.gse(total, ptype, lab.bytes(), &pdu);
        // syndrome of flipping wire bit b (relative to ptoff*8): bits 0..16 protocol type, then PDU bits
        let synd = |b: usize| -> u32 {
            let mut pt = ptype;
            let mut d = pdu.clone();
            if b < 16 {
                pt ^= 0x8000 >> b;
            } else {
                d[(b - 16) / 8] ^= 0x80 >> ((b - 16) % 8);
            }
            cr.gse(total, pt, lab.bytes(), &d) ^ base
        };
        let mut found: Vec<Vec<usize>> = vec![];
        // window start inside the protocol type, low bits only (the type stays >= 0x0600)
        for s in 5..16usize {
            // Gaussian elimination over the 32 window bits; combo tracks which bits were combined
            let mut rows: Vec<(u32, u64)> = (0..32).map(|i| (synd(s + i), 1u64 << i)).collect();
            let mut basis: Vec<(u32, u64)> = vec![];
            for r in rows.drain(..) {
                let (mut v, mut c) = r;
                for (bv, bc) in &basis {
                    let top = 31 - bv.leading_zeros();
                    if v >> top & 1 == 1 {
                        v ^= bv;
                        c ^= bc;
                    }
                }
                if v == 0 {
                    let bits: Vec<usize> = (0..32).filter(|i| c >> i & 1 == 1).map(|i| s + i).collect();
                    // must touch both the protocol type and the payload
                    if bits.iter().any(|b| *b < 16) && bits.iter().any(|b| *b >= 16) {
                        found.push(bits);
                    }
                } else {
                    basis.push((v, c));
                    basis.sort_by(|a, b| b.0.cmp(&a.0));
                }
            }
        }
        let mut f = t[0].clone();
        if !found.is_empty() {
            let bits = &found[(which as usize) % found.len()];
            for b in bits {
                let w = ptoff * 8 + b;
                f[w / 8] ^= 0x80 >> (w % 8);
            }
        }
        let ops = vec![Op::new("feed").h("hex", f).u("f", 5).h("orig", t[0].clone()), feed(t[1].clone(), 0), feed(t[2].clone(), 0)];
        Program { scenario: "rxsim", cfg: cfg(2, 128, 128, 3, &ExtTable::default()), ops }
    }

    fn gen_c03(idx: u64, rng: &mut Rng, tier: Tier) -> Program {
        if idx == 1 {
            return directed_burst_reinterpretation();
        }
        if idx == 2 || idx == 3 {
            let lab = if idx == 2 { Lab::L6([1, 2, 3, 4, 5, 6]) } else { Lab::L3([9, 8, 7]) };
            return directed_burst_across_label(&lab, rng.below(16));
        }
        // every value of the frag id / total length fields and a dense set of CRC values around a small base train
        // (quick: one base train; thorough: one in 40000 runs)
        if idx == 4 || (tier == Tier::Thorough && idx % 40_000 == 7) {
            let mut table = std_table();
            let fid = rng.below(256) as u8;
            let lab = if rng.chance(1, 4) { Lab::ReUse } else { label(rng, false) };
            let n = rng.usize_in(2, 3);
            let len = rng.usize_in(n, 40);
            let pdu = pdu_bytes(len, rng.next());
            let exts: Vec<(u16, Vec<u8>)> = if rng.chance(1, 3) { vec![(0x0200 | rng.below(256) as u16, rng.bytes(2))] } else { vec![] };
            let pkts = fragment(&pdu, fid, 0x0800, &lab, &exts, false, n, None);
            let _ = &mut table;
            let mut c = cfg(rng.usize_in(1, 3), 64, 64, 3, &table);
            c.set_u("nbhd", 2);
            let mut ops: Vec<Op> = vec![];
            if lab == Lab::ReUse {
                ops.push(feed(wire::serialise(&Desc { kind: Kind::Complete, lt: LT_3, frag_id: 0, total_len: 0, ptype: 0x0800, label: &[9, 9, 9], exts: &[], final_mandatory: false, payload: &[1, 2, 3], crc: 0 }, None), 0));
            }
            ops.extend(pkts.into_iter().map(|p| feed(p, 0)));
            return Program { scenario: "rxsim", cfg: c, ops };
        }
        let mut table = std_table();
        // every 300th run (quick) / 150th (thorough): complete single-fault neighbourhood of a small base train
        let every = if tier == Tier::Quick { 300 } else { 150 };
        if idx % every == 0 {
            let fid = rng.below(256) as u8;
            // any label kind (a re-use first fragment follows a complete packet that carries the label), any
            // protocol type, mostly short PDUs
            let lab = if rng.chance(1, 6) { Lab::ReUse } else { label(rng, false) };
            let n = rng.usize_in(2, 4);
            let len = if rng.chance(1, 8) { rng.usize_in(60, 160) } else { rng.usize_in(n, 60) };
            let pdu = pdu_bytes(len, rng.next());
            let bpt = crate::scen::flow::gen::ptype(rng);
            // half of the base trains carry a header extension in their first fragment (the protected bytes are
            // then three separate regions, see always_detected_fault)
            let exts: Vec<(u16, Vec<u8>)> = match rng.below(5) {
                0 => vec![(0x0301, rng.bytes(4))],
                1 => vec![(0x01, rng.bytes(4)), (0x0200 | rng.below(256) as u16, rng.bytes(2))],
                // a chain that ends in a final mandatory extension the receiver knows (its id stands for the protocol
                // type): 0x81 with two bytes of data, 0x82 without, alone or behind an optional extension
                2 => {
                    let mut e: Vec<(u16, Vec<u8>)> = if rng.chance(1, 2) { vec![(0x0200 | rng.below(256) as u16, rng.bytes(2))] } else { vec![] };
                    if rng.chance(1, 2) {
                        e.push((0x81, rng.bytes(2)));
                    } else {
                        e.push((0x82, vec![]));
                    }
                    e
                }
                _ => vec![],
            };
            let fm = exts.last().map(|e| e.0 < 0x100 && (e.0 == 0x81 || e.0 == 0x82)).unwrap_or(false);
            let bpt = if fm { exts.last().unwrap().0 } else { bpt };
            let pkts = fragment(&pdu, fid, bpt, &lab, &exts, fm, n, None);
            // storage: ample, or exactly the PDU
            let sto = if rng.chance(1, 4) { len.max(1) } else { 200 };
            let mut c = cfg(rng.usize_in(1, 3), sto, sto, 3, &table);
            c.set_u("nbhd", 1);
            let mut ops: Vec<Op> = vec![];
            // re-use first fragments need a label in memory: precede with a complete packet
            if lab == Lab::ReUse {
                ops.push(feed(wire::serialise(&Desc { kind: Kind::Complete, lt: LT_3, frag_id: 0, total_len: 0, ptype: 0x0800, label: &[9, 9, 9], exts: &[], final_mandatory: false, payload: &[1, 2, 3], crc: 0 }, None), 0));
            }
            ops.extend(pkts.into_iter().map(|p| feed(p, 0)));
            return Program { scenario: "rxsim", cfg: c, ops };
        }
        let slots = rng.usize_in(1, 4);
        let tight = rng.chance(1, 4);
        let big = rng.chance(1, 100);
        let maxlen = if big { 9000 } else if rng.chance(1, 10) { 2000 } else { 300 };
        let ntr = rng.usize_in(1, 3);
        let same_fid = rng.chance(1, 2);
        let fid0 = rng.below(256) as u8;
        let mut seq: Vec<(Vec<u8>, u64)> = vec![];
        // a label in memory so that re-use first fragments can be resolved
        seq.push((wire::serialise(&Desc { kind: Kind::Complete, lt: LT_3, frag_id: 0, total_len: 0, ptype: 0x0800, label: &[9, 9, 9], exts: &[], final_mandatory: false, payload: &[1, 2, 3], crc: 0 }, None), 0));
        let mut trains: Vec<Vec<Vec<u8>>> = vec![];
        for t in 0..ntr {
            let fid = if same_fid { fid0 } else { fid0.wrapping_add((t * slots + t) as u8) };
            if rng.chance(1, 4) {
                trains.push(crafted(rng, fid));
            } else {
                trains.push(train(rng, &mut table, fid, maxlen));
            }
        }
        // a first fragment the receiver refuses, placed inside a train of the same frag id: it is the most recent
        // first fragment of that id from then on, so the rest of the older train must not complete anything
        if rng.chance(1, 5) {
            let t = rng.usize_in(0, trains.len() - 1);
            if trains[t].len() >= 2 && trains[t][0].len() > 2 {
                let fid = trains[t][0][2];
                let x = refused_first(rng, fid, &table);
                let pos = rng.usize_in(1, trains[t].len() - 1);
                trains[t].insert(pos, x);
            }
        }
        // interleave or concatenate (splice on one id when same_fid)
        if rng.chance(1, 2) {
            for t in &trains {
                for p in t {
                    seq.push((p.clone(), if same_fid && trains.len() > 1 { 8 } else { 0 }));
                }
            }
        } else {
            let mut ix = vec![0usize; trains.len()];
            loop {
                let c: Vec<usize> = (0..trains.len()).filter(|i| ix[*i] < trains[*i].len()).collect();
                if c.is_empty() {
                    break;
                }
                let t = *rng.pick(&c);
                seq.push((trains[t][ix[t]].clone(), if same_fid && trains.len() > 1 { 8 } else { 0 }));
                ix[t] += 1;
            }
        }
        let nf = rng.usize_in(1, 2);
        let l = seq.len();
        for _ in 0..nf {
            link_fault(rng, &mut seq, 1, l.saturating_sub(1));
        }
        let maxpdu = if tight { rng.usize_in(8, maxlen / 2 + 8) } else { maxlen + 16 };
        let ops = seq.into_iter().map(|(b, f)| feed(b, f)).collect();
        Program { scenario: "rxsim", cfg: cfg(slots, maxpdu, maxpdu, slots + 2, &table), ops }
    }

    /// a delimited first fragment on `fid` that every receiver refuses: unknown mandatory extension, extension chain
    /// running past the packet, all-zero 6-byte label, total length not above what the fragment itself carries
    pub fn refused_first(rng: &mut Rng, fid: u8, table: &ExtTable) -> Vec<u8> {
        let lab = label(rng, false);
        let lab = if lab == Lab::ReUse { L3A } else { lab };
        let pl = rng.rbytes(1, 12);
        let total = (pl.len() + 2 + lab.len() + rng.usize_in(1, 20)) as u16;
        match rng.below(4) {
            0 => {
                let mut id = 0x40u16 + rng.below(0x3F) as u16;
                while table.lookup(id) != MExt::Unknown {
                    id = (id + 1) & 0xFF;
                }
                wire::serialise(&Desc { kind: Kind::First, lt: lab.lt(), frag_id: fid, total_len: total, ptype: 0x0800, label: lab.bytes(), exts: &[(id, rng.rbytes(0, 4))], final_mandatory: false, payload: &pl, crc: 0 }, None)
            }
            1 => {
                // optional extension announcing 8 data bytes, packet cut inside them
                let id = 0x0500 | rng.below(256) as u16;
                let mut p = wire::serialise(&Desc { kind: Kind::First, lt: lab.lt(), frag_id: fid, total_len: total, ptype: 0x0800, label: lab.bytes(), exts: &[(id, rng.bytes(8))], final_mandatory: false, payload: &[], crc: 0 }, None);
                let keep = 7 + lab.len() + rng.usize_in(0, 9);
                p.truncate(keep.min(p.len()));
                let gl = (p.len() - 2) as u16;
                p[0] = (p[0] & 0xF0) | (gl >> 8) as u8;
                p[1] = gl as u8;
                p
            }
            2 => wire::serialise(&Desc { kind: Kind::First, lt: LT_6, frag_id: fid, total_len: total, ptype: 0x0800, label: &[0; 6], exts: &[], final_mandatory: false, payload: &pl, crc: 0 }, None),
            _ => {
                let small = rng.below(pl.len() as u64 + 1) as u16;
                wire::serialise(&Desc { kind: Kind::First, lt: lab.lt(), frag_id: fid, total_len: small, ptype: 0x0800, label: lab.bytes(), exts: &[], final_mandatory: false, payload: &pl, crc: 0 }, None)
            }
        }
    }

    fn gen_c04b(rng: &mut Rng) -> Program {
        let table = std_table();
        let slots = rng.usize_in(1, 3);
        let n = rng.usize_in(3, 40);
        let mut ops = vec![];
        let labs = if rng.chance(1, 3) {
            // confusable labels: same first bytes, last byte differs, all-zero 3-byte label
            [Lab::L6([0x0A, 0x0B, 0x0C, 1, 2, 3]), Lab::L6([0x0A, 0x0B, 0x0C, 1, 2, 4]), *rng.pick(&[L3A, Lab::L3([0, 0, 0])]), *rng.pick(&[Lab::L3([0x0A, 0x0B, 0x0D]), Lab::L3([0, 0, 1])]), Lab::Bcast, Lab::ReUse, Lab::ReUse]
        } else {
            [L6A, L6B, L3A, L3B, Lab::Bcast, Lab::ReUse, Lab::ReUse]
        };
        let mut fid = rng.below(256) as u8;
        let mut tbl = table.clone();
        for _ in 0..n {
            match rng.below(15) {
                14 => {
                    // start/complete packet with a readable label whose extension chain runs past the packet
                    let l = *rng.pick(&labs[..4]);
                    let id = (rng.range(2, 5) as u16) << 8 | rng.below(256) as u16;
                    let need = wire::opt_ext_len(id).unwrap();
                    let have = rng.usize_in(0, need + 1); // too short for data + next type field
                    let mut body = vec![];
                    let first = rng.chance(1, 3);
                    if first {
                        body.push(rng.below(256) as u8);
                        body.extend_from_slice(&100u16.to_be_bytes());
                    }
                    body.extend_from_slice(&id.to_be_bytes());
                    body.extend_from_slice(l.bytes());
                    body.extend(rng.bytes(have));
                    let h: u16 = (if first { 0b10u16 } else { 0b11 } << 14) | ((l.lt() as u16) << 12) | body.len() as u16;
                    let mut pk = h.to_be_bytes().to_vec();
                    pk.extend(body);
                    ops.push(feed(pk, 10));
                }
                0 => ops.push(Op::new("reset")),
                1 => ops.push(feed(junk(rng), 9)),
                2 => ops.push(feed(vec![0u8; rng.usize_in(2, 20)], 9)),
                3 => {
                    // orphan continuation packets (unknown id)
                    let d = Desc { kind: if rng.chance(1, 2) { Kind::Inter } else { Kind::End }, lt: LT_REUSE, frag_id: rng.below(256) as u8, total_len: 0, ptype: 0, label: &[], exts: &[], final_mandatory: false, payload: &rng.rbytes(0, 10), crc: rng.next() as u32 };
                    ops.push(feed(wire::serialise(&d, None), 10));
                }
                4 => {
                    // zero 6-byte label start packet (must be rejected; nothing may resolve to it)
                    let d = Desc { kind: Kind::Complete, lt: LT_6, frag_id: 0, total_len: 0, ptype: 0x0800, label: &[0; 6], exts: &[], final_mandatory: false, payload: &[1, 2], crc: 0 };
                    ops.push(feed(wire::serialise(&d, None), 10));
                }
                5 => {
                    // start packet with an unknown mandatory extension (rejected as a whole)
                    let l = *rng.pick(&labs[..5]);
                    let d = Desc { kind: Kind::Complete, lt: l.lt(), frag_id: 0, total_len: 0, ptype: 0x0800, label: l.bytes(), exts: &[(0x0055, vec![1, 2])], final_mandatory: false, payload: &[1, 2, 3, 4], crc: 0 };
                    ops.push(feed(wire::serialise(&d, None), 10));
                }
                6 => {
                    // oversize complete packet (storage too small) with a label
                    let l = *rng.pick(&labs[..4]);
                    let d = Desc { kind: Kind::Complete, lt: l.lt(), frag_id: 0, total_len: 0, ptype: 0x0800, label: l.bytes(), exts: &[], final_mandatory: false, payload: &rng.bytes(200), crc: 0 };
                    ops.push(feed(wire::serialise(&d, None), 10));
                }
                7 | 8 => {
                    // fragmented PDU, possibly with a re-use first fragment
                    let l = *rng.pick(&labs);
                    fid = fid.wrapping_add(1);
                    let pdu = pdu_bytes(rng.usize_in(2, 40), rng.next());
                    let mut t = fragment(&pdu, fid, 0x0800, &l, &[], false, rng.usize_in(2, 3), None);
                    if rng.chance(1, 5) {
                        let k = t.len() - 1;
                        let m = t[k].len();
                        t[k][m - 1] ^= 1; // bad CRC
                    }
                    for p in t {
                        ops.push(feed(p, 0));
                    }
                }
                9 => {
                    // mutated valid start packet
                    let l = *rng.pick(&labs);
                    let d = Desc { kind: Kind::Complete, lt: l.lt(), frag_id: 0, total_len: 0, ptype: 0x0800, label: l.bytes(), exts: &[], final_mandatory: false, payload: &rng.bytes(5), crc: 0 };
                    let mut b = wire::serialise(&d, None);
                    let bit = rng.usize_in(0, b.len() * 8 - 1);
                    b[bit / 8] ^= 0x80 >> (bit % 8);
                    ops.push(feed(b, 11));
                }
                _ => {
                    let l = *rng.pick(&labs);
                    let (exts, pt) = if rng.chance(1, 6) { ext_chain(rng, &mut tbl) } else { (vec![], 0x0800) };
                    let fm = exts.last().map(|x| x.0 < 0x100 && x.0 == pt).unwrap_or(false);
                    let d = Desc { kind: Kind::Complete, lt: l.lt(), frag_id: 0, total_len: 0, ptype: pt, label: l.bytes(), exts: &exts, final_mandatory: fm, payload: &rng.rbytes(0, 30), crc: 0 };
                    ops.push(feed(wire::serialise(&d, None), 0));
                }
            }
        }
        // one run in five lays consecutive packets back to back in frames that are walked by consumed lengths
        if rng.chance(1, 5) {
            let mut out: Vec<Op> = vec![];
            let mut i = 0;
            while i < ops.len() {
                if ops[i].name == "feed" {
                    let mut fr: Vec<u8> = vec![];
                    let k = rng.usize_in(2, 5);
                    let mut j = i;
                    while j < ops.len() && j < i + k && ops[j].name == "feed" {
                        fr.extend_from_slice(ops[j].get_h("hex"));
                        j += 1;
                    }
                    fr.extend(std::iter::repeat(0u8).take(rng.usize_in(0, 6)));
                    out.push(Op::new("walk").h("hex", fr));
                    i = j;
                } else {
                    out.push(ops[i].clone());
                    i += 1;
                }
            }
            ops = out;
        }
        // storage: ample, or scarce (start packets are then refused for lack of storage, which clears the label)
        let nbuf = if rng.chance(1, 5) { rng.usize_in(0, 1) } else { slots + 2 };
        Program { scenario: "rxsim", cfg: cfg(slots, 64, 64, nbuf, &tbl), ops }
    }

    /// receiver state prefix for C05 / C16: returns ops
    pub fn state_prefix(rng: &mut Rng, class: u64, slots: usize, maxpdu: usize) -> Vec<Op> {
        let mut ops = vec![];
        let open_n = match class % 4 {
            0 => 0,
            1 => 1,
            2 => 2.min(slots + 1),
            _ => slots,
        };
        let base = rng.below(200) as u8;
        for i in 0..open_n {
            // aliasing ids when more contexts than slots are requested
            let fid = base.wrapping_add(((i * slots) as u8).wrapping_add(if class % 4 == 3 { i as u8 } else { 0 }));
            let l = *rng.pick(&[L6A, L3A, Lab::Bcast]);
            let pdu = pdu_bytes(maxpdu.min(24).max(4), rng.next());
            let t = fragment(&pdu, fid, 0x0800, &l, &[], false, 3, None);
            ops.push(feed(t[0].clone(), 0));
            if rng.chance(1, 2) {
                ops.push(feed(t[1].clone(), 0));
            }
        }
        match (class / 4) % 3 {
            0 => {}
            1 => {
                // remembered 3-byte label
                let d = Desc { kind: Kind::Complete, lt: LT_3, frag_id: 0, total_len: 0, ptype: 0x0800, label: &[7, 7, 7], exts: &[], final_mandatory: false, payload: &[1], crc: 0 };
                ops.push(feed(wire::serialise(&d, None), 0));
                ops.push(Op::new("ret").u("n", 4));
            }
            _ => {
                let d = Desc { kind: Kind::Complete, lt: LT_6, frag_id: 0, total_len: 0, ptype: 0x0800, label: &[1, 2, 3, 4, 5, 6], exts: &[], final_mandatory: false, payload: &[1], crc: 0 };
                ops.push(feed(wire::serialise(&d, None), 0));
                ops.push(Op::new("ret").u("n", 4));
            }
        }
        ops
    }

    /// storage corruption of a parked reassembly context (a stored word flipped): see nodes::CtxFault
    fn ctxfault_op(rng: &mut Rng, maxpdu: usize) -> Op {
        let field = *rng.pick(&[0u64, 0, 0, 0, 1, 1, 2, 3, 4]);
        let val = match rng.below(8) {
            0 => 0,
            1 => 1,
            2 => maxpdu as u64,
            3 => maxpdu as u64 + 1,
            4 => 0xFFFF,
            5 => 0x8000,
            6 => rng.below(3 * maxpdu as u64 + 4),
            _ => rng.below(65536),
        };
        Op::new("ctxfault").u("nth", rng.below(3)).u("field", field).u("val", val)
    }

    fn gen_c05(idx: u64, rng: &mut Rng, tier: Tier) -> Program {
        let table = std_table();
        // state class: open contexts x label memory x free list fill x storage vs fragment size
        let class = rng.below(48);
        let slots = if rng.chance(1, 50) { 256 } else { rng.usize_in(1, 3) };
        let small_storage = (class / 12) % 2 == 1;
        let maxpdu = if small_storage { rng.usize_in(1, 6) } else { 64 };
        let nbuf = match (class / 24) % 2 {
            0 => slots + 2, // full free list (before contexts open)
            _ => rng.usize_in(0, slots + 1),
        };
        let mut ops = state_prefix(rng, class, slots, maxpdu);
        // top the free list up again so that it is *full* while contexts hold buffers (give-back overflows)
        if (class / 24) % 2 == 0 && rng.chance(1, 2) {
            for _ in 0..3 {
                ops.push(Op::new("prov").u("size", maxpdu as u64));
            }
        }
        if rng.chance(1, 2) {
            let mo = rng.below(5);
            ops.push(Op::new("memfault").u("op", mo).u("nth", rng.below(4)));
        }
        if rng.chance(1, 3) {
            ops.push(ctxfault_op(rng, maxpdu));
        }
        // enumerative part: the first indices are sweeps
        let (n0, n1, n2) = if tier == Tier::Quick { (34u64, 0u64, 2048u64) } else { (34, 4096, 32768) };
        // kind 3: 65536 headers in 64 chunks of 1024, times body variants (quick 6, thorough 96)
        let n3 = if tier == Tier::Quick { 64 * 6 } else { 64 * 96 };
        let n4: u64 = if tier == Tier::Quick { 512 } else { 16384 };
        if idx < n0 {
            // all strings of length 0..=2 in chunks of 2048, in this run's state class
            ops.push(Op::new("sweep").u("kind", 0).u("a", idx * 2048).u("n", 2048).u("t", 0));
        } else if idx < n0 + n1 {
            ops.push(Op::new("sweep").u("kind", 1).u("a", (idx - n0) * 4096).u("n", 4096).u("t", 0));
        } else if idx < n0 + n1 + n2 {
            // headers x truncations x tails: 65536*32 inputs per tail, chunks of 8192 inputs (256 headers)
            let j = idx - n0 - n1;
            let chunks_per_tail = 256u64;
            let t = j / chunks_per_tail;
            let c = j % chunks_per_tail;
            ops.push(Op::new("sweep").u("kind", 2).u("a", c * 8192).u("n", 8192).u("t", t));
        } else if idx < n0 + n1 + n2 + n3 {
            let j = idx - n0 - n1 - n2;
            ops.push(Op::new("sweep").u("kind", 3).u("a", (j % 64) * 1024).u("n", 1024).u("t", j / 64));
        } else if idx < n0 + n1 + n2 + n3 + n4 {
            // every truncation of the announced packet: quick one header in 16 (8 per run), thorough every header on
            // two tail patterns
            let j = idx - n0 - n1 - n2 - n3;
            if tier == Tier::Quick {
                ops.push(Op::new("sweep").u("kind", 4).u("a", 5 + 128 * j).u("n", 8).u("stride", 16).u("t", 2));
            } else {
                ops.push(Op::new("sweep").u("kind", 4).u("a", 8 * (j % 8192)).u("n", 8).u("stride", 1).u("t", [2u64, 0][(j / 8192) as usize % 2]));
            }
        } else {
            let n = rng.usize_in(1, 30);
            let mut tbl = table.clone();
            let mut fid = rng.below(256) as u8;
            for _ in 0..n {
                match rng.below(8) {
                    0 | 1 => ops.push(feed(junk(rng), 9)),
                    2 => {
                        let j = junk(rng);
                        ops.push(Op::new("walk").h("hex", j));
                    }
                    3 | 4 | 5 => {
                        // valid packets with 1..3 mutations
                        fid = fid.wrapping_add(1);
                        let tmax = if rng.chance(1, 10) { 8000 } else { 120 };
                        let mut t: Vec<(Vec<u8>, u64)> = if rng.chance(1, 2) { train(rng, &mut tbl, fid, tmax).into_iter().map(|p| (p, 0)).collect() } else { crafted(rng, fid).into_iter().map(|p| (p, 10)).collect() };
                        let k = rng.usize_in(1, 3);
                        let l = t.len();
                        for _ in 0..k {
                            link_fault(rng, &mut t, 0, l.saturating_sub(1));
                        }
                        for (p, _) in t {
                            ops.push(feed(p, 11));
                        }
                    }
                    6 => ops.push(Op::new("prov").u("size", rng.range(1, 80))),
                    7 if rng.chance(1, 2) => {
                        // storage-boundary probe: a label in memory, then packets of every kind and label type
                        // whose payload is the storage size + d (d in -2..=8), also split over fragments
                        let keep = Desc { kind: Kind::Complete, lt: LT_6, frag_id: 0, total_len: 0, ptype: 0x0800, label: &[1, 2, 3, 4, 5, 6], exts: &[], final_mandatory: false, payload: &[7], crc: 0 };
                        ops.push(feed(wire::serialise(&keep, None), 0));
                        let d = rng.range(0, 10) as i64 - 2;
                        let want = (maxpdu as i64 + d).max(0) as usize;
                        let lab = *rng.pick(&[Lab::ReUse, Lab::ReUse, L3A, L6A, Lab::Bcast]);
                        fid = fid.wrapping_add(1);
                        match rng.below(5) {
                            4 => {
                                // chain ending on a known final mandatory extension (it stands for the protocol type)
                                let pl = rng.bytes(want);
                                let (id, dl) = if rng.chance(1, 2) { (0x0082u16, 0usize) } else { (0x0081u16, 2usize) };
                                let mut exts: Vec<(u16, Vec<u8>)> = vec![];
                                if rng.chance(1, 2) {
                                    exts.push((0x0301, vec![1, 2, 3, 4]));
                                }
                                exts.push((id, vec![7; dl]));
                                let dd = Desc { kind: Kind::Complete, lt: lab.lt(), frag_id: 0, total_len: 0, ptype: id, label: lab.bytes(), exts: &exts, final_mandatory: true, payload: &pl, crc: 0 };
                                ops.push(feed(wire::serialise(&dd, None), 10));
                            }
                            0 => {
                                let pl = rng.bytes(want);
                                let dd = Desc { kind: Kind::Complete, lt: lab.lt(), frag_id: 0, total_len: 0, ptype: 0x0800, label: lab.bytes(), exts: &[], final_mandatory: false, payload: &pl, crc: 0 };
                                ops.push(feed(wire::serialise(&dd, None), 10));
                            }
                            1 => {
                                let pdu = pdu_bytes(want + 10, rng.next());
                                let t = fragment(&pdu, fid, 0x0800, &lab, &[], false, 2, Some(&[want]));
                                for p in t {
                                    ops.push(feed(p, 10));
                                }
                            }
                            _ => {
                                let first = rng.usize_in(0, want.min(8));
                                let pdu = pdu_bytes(want.max(first) + rng.usize_in(0, 3), rng.next());
                                let mut cuts = vec![first];
                                if rng.chance(1, 2) {
                                    cuts.push(want.max(first).min(pdu.len()));
                                }
                                let t = fragment(&pdu, fid, 0x0800, &lab, &[], false, cuts.len() + 1, Some(&cuts));
                                for p in t {
                                    ops.push(feed(p, 10));
                                }
                            }
                        }
                    }
                    _ => {
                        if rng.chance(1, 2) {
                            ops.push(Op::new("memfault").u("op", rng.below(5)).u("nth", rng.below(3)))
                        } else {
                            ops.push(ctxfault_op(rng, maxpdu))
                        }
                    }
                }
            }
        }
        Program { scenario: "rxsim", cfg: cfg(slots, maxpdu, maxpdu, nbuf, &table), ops }
    }

    fn gen_c08(idx: u64, rng: &mut Rng, tier: Tier) -> Program {
        let mut table = std_table();
        let slots = rng.usize_in(1, 4);
        let maxpdu = *rng.pick(&[8usize, 16, 40, 64]);
        let nbuf = rng.usize_in(0, slots + 2);
        let n = if rng.chance(1, 10) { rng.usize_in(40, 200) } else { rng.usize_in(5, 40) };
        let mut ops = vec![];
        let mut fid = rng.below(256) as u8;
        let labs = [L6A, L3A, Lab::Bcast, Lab::ReUse];
        // systematic memory-fault placement: run idx % 8 == 0 fails the (idx/8 % 24)-th call of an op
        if idx % 4 == 0 {
            let k = (idx / 4) % 40;
            ops.push(Op::new("memfault").u("op", k % 5).u("nth", k / 5));
        }
        let _ = tier;
        for _ in 0..n {
            match rng.below(20) {
                0 => ops.push(Op::new("prov").u("size", *rng.pick(&[(maxpdu - 1) as u64, maxpdu as u64, maxpdu as u64 + 1, maxpdu as u64]))),
                1 | 2 => ops.push(Op::new("ret").u("n", rng.range(1, 3))),
                3 => ops.push(Op::new("reset")),
                4 => {
                    if rng.chance(2, 3) {
                        ops.push(Op::new("memfault").u("op", rng.below(5)).u("nth", rng.below(3)))
                    } else {
                        ops.push(ctxfault_op(rng, maxpdu))
                    }
                }
                5 => ops.push(feed(junk(rng), 9)),
                6 => ops.push(Op::new("audit")),
                7 => {
                    // re-use complete packet (often with nothing remembered)
                    let d = Desc { kind: Kind::Complete, lt: LT_REUSE, frag_id: 0, total_len: 0, ptype: 0x0800, label: &[], exts: &[], final_mandatory: false, payload: &rng.rbytes(0, 6), crc: 0 };
                    ops.push(feed(wire::serialise(&d, None), 10));
                }
                8 => {
                    // zero label / unknown mandatory / oversize complete packets
                    let which = rng.below(3);
                    let pln = if which == 2 { maxpdu + rng.usize_in(1, 9) } else { 3 };
                    let pl = rng.bytes(pln);
                    let exts: Vec<(u16, Vec<u8>)> = if which == 1 { vec![(0x0055, vec![1])] } else { vec![] };
                    let lb: &[u8] = if which == 0 { &[0; 6] } else { &[1, 2, 3, 4, 5, 6] };
                    let d = Desc { kind: Kind::Complete, lt: LT_6, frag_id: 0, total_len: 0, ptype: 0x0800, label: lb, exts: &exts, final_mandatory: false, payload: &pl, crc: 0 };
                    ops.push(feed(wire::serialise(&d, None), 10));
                }
                9 => {
                    // orphan / aliasing continuation packet
                    let f = if rng.chance(1, 2) { fid.wrapping_add(slots as u8) } else { rng.below(256) as u8 };
                    let d = Desc { kind: if rng.chance(1, 2) { Kind::Inter } else { Kind::End }, lt: LT_REUSE, frag_id: f, total_len: 0, ptype: 0, label: &[], exts: &[], final_mandatory: false, payload: &rng.rbytes(1, 6), crc: rng.next() as u32 };
                    ops.push(feed(wire::serialise(&d, None), 10));
                }
                10 | 11 => {
                    // complete packets (valid)
                    let l = *rng.pick(&labs);
                    let (exts, pt) = if rng.chance(1, 5) { ext_chain(rng, &mut table) } else { (vec![], 0x0800) };
                    let fm = exts.last().map(|x| x.0 < 0x100 && x.0 == pt).unwrap_or(false);
                    let d = Desc { kind: Kind::Complete, lt: l.lt(), frag_id: 0, total_len: 0, ptype: pt, label: l.bytes(), exts: &exts, final_mandatory: fm, payload: &rng.rbytes(0, maxpdu), crc: 0 };
                    ops.push(feed(wire::serialise(&d, None), 0));
                }
                _ => {
                    // a train: valid, or with one rejection cause (CRC, length, oversize fragment, lost fragment)
                    fid = if rng.chance(1, 3) { fid } else if rng.chance(1, 2) { fid.wrapping_add(slots as u8) } else { fid.wrapping_add(1) };
                    let mut l = *rng.pick(&labs);
                    let cause = rng.below(12);
                    let len = if cause == 3 { maxpdu + rng.usize_in(1, 12) } else { rng.usize_in(3, maxpdu) };
                    let pdu = pdu_bytes(len, rng.next());
                    // first fragments rejected before / after the slot is claimed (each of these exits of decap_first
                    // gives back what the pending reassembly of the id held): unknown mandatory extension, zero
                    // label, truncated extension chain; and accepted first fragments that carry extensions
                    let (exts, pt, fm): (Vec<(u16, Vec<u8>)>, u16, bool) = match cause {
                        7 => (vec![(0x0055, vec![1])], 0x0800, false),
                        9 => (vec![(0x0500 | rng.below(256) as u16, rng.bytes(8))], 0x0800, false),
                        _ if rng.chance(1, 4) => {
                            let (e, p) = ext_chain(rng, &mut table);
                            let fm = e.last().map(|x| x.0 < 0x100 && x.0 == p).unwrap_or(false);
                            (e, p, fm)
                        }
                        _ => (vec![], 0x0800, false),
                    };
                    if cause == 8 {
                        l = Lab::L6([0; 6]);
                    }
                    let mut t = fragment(&pdu, fid, pt, &l, &exts, fm, rng.usize_in(2, 4), None);
                    if cause == 9 {
                        // cut the first fragment inside its 8-byte extension (the GSE length says so too)
                        let keep = 7 + l.len() + rng.usize_in(0, 7);
                        if t[0].len() > keep {
                            t[0].truncate(keep);
                            let gl = (keep - 2) as u16;
                            t[0][0] = (t[0][0] & 0xF0) | (gl >> 8) as u8;
                            t[0][1] = gl as u8;
                        }
                    }
                    if cause == 10 {
                        // total length smaller than what the first fragment alone carries
                        let small = rng.below(3) as u16;
                        t[0][3] = (small >> 8) as u8;
                        t[0][4] = small as u8;
                    }
                    match cause {
                        1 => {
                            let k = t.len() - 1;
                            let m = t[k].len();
                            t[k][m - 1] ^= 0x10;
                        }
                        2 => {
                            t[0][4] = t[0][4].wrapping_add(1);
                        }
                        4 => {
                            if t.len() > 2 {
                                t.remove(1);
                            }
                        }
                        5 => {
                            t.truncate(t.len() - 1); // unfinished train
                        }
                        _ => {}
                    }
                    for p in t {
                        ops.push(feed(p, if cause == 0 || cause == 6 || cause == 11 { 0 } else { 10 }));
                    }
                }
            }
        }
        ops.push(Op::new("ret").u("n", 16));
        let mut c = cfg(slots, maxpdu, maxpdu + rng.usize_in(0, 1), nbuf, &table);
        if idx % 40 == 7 {
            // base history for the complete enumeration of single memory faults: keep it short, no other faults
            ops.retain(|o| o.name != "memfault");
            ops.truncate(30);
            ops.push(Op::new("ret").u("n", 16));
            c.set_u("mfenum", 1);
        }
        Program { scenario: "rxsim", cfg: c, ops }
    }

    fn gen_c16(rng: &mut Rng) -> Program {
        let table = std_table();
        let slots = match rng.below(50) {
            0 => 256,
            1 => *rng.pick(&[5usize, 7, 8, 16, 100, 255]),
            _ => rng.usize_in(1, 4),
        };
        // storage: mostly small; sometimes one maximal packet, more than a packet, more than the 16-bit lengths
        let maxpdu = if slots <= 4 && rng.chance(1, 12) { *rng.pick(&[4096usize, 5000, 9000, 65536, 70000]) } else { *rng.pick(&[16usize, 64, 200]) };
        let nbuf = if maxpdu > 256 { rng.usize_in(0, (slots + 2).min(6)) } else { rng.usize_in(0, slots + 2) };
        let class = rng.below(48);
        let mut ops = state_prefix(rng, class, slots, maxpdu);
        let n = match rng.below(10) {
            0 => 0,
            1 => rng.usize_in(100, 300),
            _ => rng.usize_in(1, 40),
        };
        let mut tbl = table.clone();
        let mut fid = rng.below(256) as u8;
        // many slots: sometimes leave an unfinished train on every slot (needs a buffer for each)
        if slots > 4 && rng.chance(1, 2) {
            for i in 0..slots {
                let pdu = pdu_bytes(6, rng.next());
                let t = fragment(&pdu, fid.wrapping_add(i as u8), 0x0800, &L3A, &[], false, 2, None);
                ops.push(feed(t[0].clone(), 0));
            }
        }
        let trainmax = if maxpdu > 256 { (maxpdu + 10).min(12_000) } else { maxpdu + 10 };
        for _ in 0..n {
            match rng.below(12) {
                0 | 1 => ops.push(feed(junk(rng), 9)),
                2 => ops.push(Op::new("prov").u("size", *rng.pick(&[1u64, maxpdu as u64 - 1, maxpdu as u64, maxpdu as u64 + 7]))),
                3 => ops.push(Op::new("ret").u("n", rng.range(1, 4))),
                4 => {
                    if rng.chance(2, 3) {
                        ops.push(Op::new("memfault").u("op", rng.below(5)).u("nth", rng.below(3)))
                    } else {
                        ops.push(ctxfault_op(rng, maxpdu))
                    }
                }
                5 => ops.push(Op::new("reset")),
                6 => {
                    let j = junk(rng);
                    ops.push(Op::new("walk").h("hex", j));
                }
                _ => {
                    fid = if rng.chance(1, 2) { fid.wrapping_add(slots as u8) } else { fid.wrapping_add(1) };
                    let mut t: Vec<(Vec<u8>, u64)> = if rng.chance(2, 3) { train(rng, &mut tbl, fid, trainmax).into_iter().map(|p| (p, 0)).collect() } else { crafted(rng, fid).into_iter().map(|p| (p, 10)).collect() };
                    if !t.is_empty() && rng.chance(1, 2) {
                        let k = rng.usize_in(1, t.len());
                        t.truncate(k); // unfinished train
                    }
                    if rng.chance(1, 2) {
                        let l = t.len();
                        link_fault(rng, &mut t, 0, l.saturating_sub(1));
                    }
                    for (p, f) in t {
                        ops.push(feed(p, f));
                    }
                }
            }
        }
        // the probe's frag id: any; often one that has a pending reassembly or shares its slot
        let pfid = match rng.below(3) {
            0 => fid,
            1 => fid.wrapping_add(slots as u8),
            _ => rng.below(256) as u8,
        };
        ops.push(probe_op(rng, maxpdu, &table, pfid));
        let _ = Val::U(0);
        Program { scenario: "rxsim", cfg: cfg(slots, maxpdu, maxpdu, nbuf, &table), ops }
    }
}
