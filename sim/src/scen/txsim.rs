//! `txsim`: the sender alone under caller faults (bad requests, wild contexts, configuration
//! changes at arbitrary points), with a shadow twin for failure atomicity.
//! Serves C09 C11 C15 C18 C06 and the constructor clause of C13.
//!
//! ops
//!   enc  len seed ptype lab fid buf exts     encap / encap_ext (+ encap_preview), twin battery on Err
//!   frag len seed fid crc pos buf            encap_frag with an arbitrary ContextFrag (+ preview)
//!   go   buf                                 encap_frag continuing the context of the last fragmenting call
//!   reset / enable / disable / max n
//!   ctor a n                                 Extension::new for ids a..a+n x data lengths 0..=10

use crate::core::{guarded, panic_site, Scenario, Stats, Tier, Violation};
use crate::mon::{self, Call, Emitted, TxLedger};
use crate::nodes::*;
use crate::program::{Op, Program};
use crate::rng::{pdu_bytes, Rng, H64};
use crate::scen::flow::gen as fg;
use crate::wire::{self, dec_exts, enc_exts, ExtTable, Kind, Lab, LT_REUSE};
use dvb_gse_rust::gse_encap::{ContextFrag, EncapError, Encapsulator};
use dvb_gse_rust::header_extension::Extension;

pub struct TxSim;

const ALPHABET: [Lab; 6] = [fg::L6A, fg::L6B, fg::L3A, fg::L3B, Lab::Bcast, Lab::ReUse];

/// drive clones of both encapsulators through the same sends; first difference is returned
fn battery(a: &Enc, b: &Enc, extra: &[Lab], depth: usize) -> Option<String> {
    let mut labs: Vec<Lab> = ALPHABET.to_vec();
    labs.push(Lab::L3([0; 3]));
    // every label this run has passed so far: the remembered label can only be one of them
    for e in extra {
        if !labs.contains(e) && !e.is_zero6() {
            labs.push(*e);
        }
    }
    let pdu = [0x42u8];
    for l in &labs {
        let mut ca = a.clone();
        let mut cb = b.clone();
        for i in 0..depth {
            let mut ba = [0u8; 16];
            let mut bb = [0u8; 16];
            let ra = tx_encap(&mut ca, &pdu, 1, 0x0800, l, &mut ba);
            let rb = tx_encap(&mut cb, &pdu, 1, 0x0800, l, &mut bb);
            if ra != rb || ba != bb {
                return Some(format!("send #{} of label {}: real {:?} {} vs twin {:?} {}", i + 1, l.short(), ra.class(), wire::hex(&ba[..8]), rb.class(), wire::hex(&bb[..8])));
            }
            // the same through encap_ext (one optional extension without data)
            if i == 1 {
                let mut ba = [0u8; 20];
                let mut bb = [0u8; 20];
                let ea = vec![Extension::new(0x0100, &[]).unwrap()];
                let eb = vec![Extension::new(0x0100, &[]).unwrap()];
                let ra = tx_encap_ext(&mut ca, &pdu, 1, 0x0800, l, &mut ba, ea);
                let rb = tx_encap_ext(&mut cb, &pdu, 1, 0x0800, l, &mut bb, eb);
                if ra != rb || ba != bb {
                    return Some(format!("encap_ext send after {} sends of label {}: real {:?} {} vs twin {:?} {}", i + 1, l.short(), ra.class(), wire::hex(&ba[..8]), rb.class(), wire::hex(&bb[..8])));
                }
            }
            // interleave another label once to expose counter differences
            if i == 0 && depth > 2 {
                let o = if *l == fg::L6A { fg::L3A } else { fg::L6A };
                let _ = tx_encap(&mut ca, &pdu, 1, 0x0800, &o, &mut ba);
                let _ = tx_encap(&mut cb, &pdu, 1, 0x0800, &o, &mut bb);
            }
        }
    }
    None
}

impl Scenario for TxSim {
    fn name(&self) -> &'static str {
        "txsim"
    }
    fn tag(&self) -> u64 {
        3
    }
    fn serves(&self) -> &'static [&'static str] {
        &["C06", "C09", "C11", "C13", "C15", "C18"]
    }
    fn budget(&self, target: &str, tier: Tier) -> u64 {
        let q = match target {
            "C09" => 200000,
            "C11" => 300000,
            "C15" => 400000,
            "C18" => 200000,
            "C06" => 150000,
            "C13" => 2_000,
            _ => 0,
        };
        match tier {
            Tier::Quick => q,
            Tier::Thorough => {
                if target == "C13" {
                    4_000
                } else {
                    q * 40
                }
            }
        }
    }
    fn rule(&self) -> &'static str {
        "sender alone: seeded histories of encap/encap_ext/encap_frag calls of every succeeding and failing class (sizes 0..=70000, protocol types 0..=0xFFFF, zero/explicit re-use labels, wild contexts), configuration calls and resets; non-trivial = C09: >=1 failing call followed by the twin battery; C11: >=1 continuation call checked; C15: >=2 start/complete packets emitted; C18: >=1 preview compared; C13: constructor sweep chunk; distinct = distinct program hashes; for C15 the first 4 x 15^4 (quick) / 8 x 15^5 (thorough) runs enumerate every sequence of 4 / 5 calls over a 15-letter alphabet from 4 / 8 starting configurations (counter enumerated_call_sequences)"
    }
    fn expected_probes(&self, target: &str) -> &'static [&'static str] {
        match target {
            "C18" => &["c18.encap.ok_complete", "c18.encap.ok_first", "c18.encap.err_size_buffer", "c18.encap.err_pdu_length", "c18.encap.err_protocol_type", "c18.encap.err_invalid_label", "c18.encap_frag.ok_end", "c18.encap_frag.ok_intermediate", "c18.encap_frag.err_size_buffer", "c18.encap_frag.err_pdu_length", "c18.encap.compared_although_substitution_was_possible"],
            _ => &[],
        }
    }
    fn components_real(&self) -> &'static [&'static str] {
        &["Encapsulator::{encap,encap_ext,encap_frag,setters,reset_last_label,clone}", "encap_preview", "encap_frag_preview", "Extension::new", "DefaultCrc (behind RecordingCrc)"]
    }
    fn components_stub(&self) -> &'static [&'static str] {
        &["caller (bad-request fault injector)", "buffer-size scheduler", "shadow twin driver"]
    }

    fn generate(&self, target: &str, idx: u64, rng: &mut Rng, tier: Tier) -> Program {
        gen::generate(target, idx, rng, tier)
    }

    fn execute(&self, p: &Program, target: &str, st: &mut Stats) -> Option<Violation> {
        let mut enc: Enc = Encapsulator::new(RecCrc::new(false));
        let mut led = TxLedger::new();
        let mut log = H64::new();
        let mut viol: Option<Violation> = None;
        let mut failing_calls = 0u32;
        let mut labels_used: Vec<Lab> = vec![];
        let mut cont_checked = 0u32;
        let mut emitted_starts = 0u32;
        let mut previews = 0u32;
        let mut ctor = false;
        // context of the last fragmenting call, for `go`
        let mut last: Option<(Vec<u8>, ContextFrag, u16)> = None;

        macro_rules! report {
            ($v:expr) => {{
                let v: Violation = $v;
                if v.prop == target {
                    viol = Some(v);
                    break;
                } else {
                    *st.other.entry(format!("{}|{}", v.prop, v.clause)).or_insert(0) += 1;
                }
            }};
        }

        for (opi, op) in p.ops.iter().enumerate() {
            log.s(op.name);
            match op.name {
                "mark_enumerated" => st.inc("enumerated_call_sequences"),
                "enc" => {
                    let len = (op.get_u("len") as usize).min(70_000);
                    let pdu = pdu_bytes(len, op.get_u("seed"));
                    let ptype = op.get_u("ptype") as u16;
                    let lab = Lab::dec(op.get_h("lab"));
                    if !labels_used.contains(&lab) && labels_used.len() < 16 {
                        labels_used.push(lab);
                    }
                    let fid = op.get_u("fid") as u8;
                    let buf_len = (op.get_u("buf") as usize).min(70_000);
                    let mut exts = dec_exts(op.get_h("exts"));
                    let has_ext_arg = op.has("exts");
                    if has_ext_arg && op.has("bigx_len") {
                        let d = pdu_bytes((op.get_u("bigx_len") as usize).min(70_000), op.get_u("bigx_seed"));
                        let e = ((op.get_u("bigx_id") & 0xFF) as u16, d);
                        if op.get_u("bigx_last") == 1 {
                            exts.push(e);
                        } else {
                            exts.insert(0, e);
                        }
                        st.inc("probe.encap_ext_with_large_mandatory_data");
                    }
                    let before = canary(buf_len, opi as u8);
                    let mut buf = before.clone();
                    let twin = enc.clone();
                    let sub_possible = led.substitution_possible(&lab);
                    st.inc("lib_calls");
                    let (call, res) = if !has_ext_arg {
                        let prev = tx_preview(&pdu, ptype, &lab, &before);
                        previews += 1;
                        let res = tx_encap(&mut enc, &pdu, fid, ptype, &lab, &mut buf);
                        // C18 (needs the parsed packet; computed below) -- keep prev
                        let em = Emitted { call: Call::Encap, pdu: &pdu, ptype, label: lab, fid, exts: &[], ctx: None, before: &before, after: &buf, res: &res };
                        let (v6, parsed) = mon::check_c06(&em);
                        let v6 = match v6 {
                            Some(v) if v.clause == "C06.wrote_beyond_reported_length" => {
                                report!(v);
                                None
                            }
                            other => other,
                        };
                        st.inc(mon::c18_cell(Call::Encap, &prev, &res, parsed.as_ref(), sub_possible));
                        if let Some(v) = mon::check_c18(Call::Encap, &prev, &res, parsed.as_ref(), sub_possible, ptype, buf_len, len) {
                            report!(v);
                        }
                        if let PrevRes::Panic(m, l) = &prev {
                            report!(Violation::new("C09", "C09.panic", format!("encap_preview:{}", panic_site(m, l)), format!("{} at {}", m, l)));
                        }
                        if v6.is_some() {
                            if let Some(v) = mon::check_c11_first_raw(&res, &buf, &[], ptype, buf_len) {
                                report!(v);
                            }
                        } else if let Some(pp) = parsed.as_ref() {
                            if let Some(v) = mon::check_c11_first(&res, pp, fid, buf_len, false, &pdu, &buf) {
                                report!(v);
                            }
                        }
                        if let Some(v) = v6 {
                            report!(v);
                        }
                        (Call::Encap, res)
                    } else {
                        let ex = match make_exts(&exts) {
                            Ok(e) => e,
                            Err(_) => {
                                st.inc("skipped_unconstructible_extension");
                                continue;
                            }
                        };
                        let res = tx_encap_ext(&mut enc, &pdu, fid, ptype, &lab, &mut buf, ex);
                        let em = Emitted { call: Call::EncapExt, pdu: &pdu, ptype, label: lab, fid, exts: &exts, ctx: None, before: &before, after: &buf, res: &res };
                        let (v6, parsed_x) = mon::check_c06(&em);
                        let v6 = match v6 {
                            Some(v) if v.clause == "C06.wrote_beyond_reported_length" => {
                                report!(v);
                                None
                            }
                            other => other,
                        };
                        if v6.is_none() {
                            if let Some(pp) = parsed_x.as_ref() {
                                if let Some(v) = mon::check_c11_first(&res, pp, fid, buf_len, true, &pdu, &buf) {
                                    report!(v);
                                }
                            }
                        }
                        if let Some(v) = v6 {
                            let (s, d) = (v.site.clone(), v.detail.clone());
                            if target == "C13" && v.clause != "C06.wrote_beyond_reported_length" {
                                report!(Violation::new("C13", "C13.encoded_undecodably", s, d));
                            } else {
                                report!(v);
                            }
                        }
                        (Call::EncapExt, res)
                    };
                    log.s(res.class());
                    log.u(res.n().unwrap_or(0) as u64);
                    let pt_class = if ptype < 0x100 { "ptype<0x100" } else if ptype < 0x600 { "ptype_0x100_0x5ff" } else { "ptype_ok" };
                    let regime = mon::size_regime(buf_len, len);
                    match &res {
                        TxRes::Panic(m, l) => {
                            report!(Violation::new("C09", "C09.panic", format!("{}:{}:{}", call.name(), panic_site(m, l), regime), format!("{} at {} (pdu {}, buffer {}, label {}, ptype {:#06x}, {} exts)", m, l, len, buf_len, lab.short(), ptype, exts.len())));
                            // state after a panic is unspecified: abandon the run
                            st.inc("aborted_by_panic");
                            break;
                        }
                        TxRes::Err(e) => {
                            failing_calls += 1;
                            st.inc(match e {
                                EncapError::ErrorSizeBuffer => "fault.bad_request_buffer_too_small",
                                EncapError::ErrorPduLength => "fault.bad_request_pdu_too_long",
                                EncapError::ErrorProtocolType => "fault.bad_request_protocol_type",
                                EncapError::ErrorInvalidLabel => "fault.bad_request_zero_label",
                                EncapError::ErrorNoExtensionFound => "fault.bad_request_no_extension",
                                EncapError::ErrorFinalMandatoryExtensionHeader => "fault.bad_request_final_mandatory_mismatch",
                            });
                            if buf != before {
                                let i = (0..buf.len()).find(|i| buf[*i] != before[*i]).unwrap();
                                report!(Violation::new("C09", "C09.buffer_modified_on_err", format!("{}:{:?}", call.name(), e), format!("byte {} of the output buffer changed although {:?} was returned", i, e)));
                            }
                            // failure atomicity: the twin never saw the call
                            let depth = if enc != twin { (led.max as usize + 3).max(6).min(260) } else if led.max > 0 { (led.max as usize + 2).min(260) } else { 3 };
                            st.inc("twin_batteries");
                            if let Some(d) = battery(&enc, &twin, &labels_used, depth) {
                                report!(Violation::new("C09", "C09.state_changed_on_err", format!("{}:{:?}", call.name(), e), format!("after {:?} (pdu {}, buffer {}, label {}) the encapsulator behaves differently from a twin that never saw the call: {}", e, len, buf_len, lab.short(), d)));
                            }
                        }
                        _ => {
                            // must-fail classes
                            let l_written_unknown = lab.is_addr() && sub_possible;
                            let too_long = len + 2 > 65535 || (!l_written_unknown && len + 2 + lab.len() > 65535);
                            let why = if lab.is_zero6() {
                                Some("zero_label")
                            } else if (0x100..0x600).contains(&ptype) {
                                Some("ptype_0x100_0x5ff")
                            } else if too_long && matches!(res, TxRes::Frag(..) | TxRes::Complete(_)) {
                                Some("pdu_exceeds_total_length")
                            } else {
                                None
                            };
                            if let Some(w) = why {
                                report!(Violation::new("C09", "C09.must_fail_but_packet", format!("{}:{}", call.name(), w), format!("{} returned {} for label {} ptype {:#06x} pdu {} ({})", call.name(), res.class(), lab.short(), ptype, len, pt_class)));
                            }
                        }
                    }
                    if let Some(n) = res.n() {
                        if n >= 2 && n <= buf.len() {
                            if let Some((k, lt, _)) = wire::header(&buf[..n]) {
                                if k == Kind::Complete || k == Kind::First {
                                    emitted_starts += 1;
                                    if lt == LT_REUSE && lab.is_addr() {
                                        st.inc("probe.substituted_reuse");
                                    }
                                    if let Some(v) = led.observe(&lab, lt) {
                                        report!(v);
                                    }
                                    st.cov("counter", led.run as u64);
                                }
                            }
                        }
                        if let TxRes::Frag(_, c) = &res {
                            let total = u16::from_be_bytes([buf[3], buf[4]]);
                            last = Some((pdu.clone(), *c, total));
                        }
                    }
                }
                "frag" | "go" => {
                    let (pdu, ctx) = if op.name == "go" {
                        match &last {
                            Some((p, c, _)) => (p.clone(), *c),
                            None => continue,
                        }
                    } else {
                        let len = (op.get_u("len") as usize).min(70_000);
                        (pdu_bytes(len, op.get_u("seed")), ContextFrag::new(op.get_u("fid") as u8, op.get_u("crc") as u32, op.get_u("pos") as u16))
                    };
                    let buf_len = (op.get_u("buf") as usize).min(70_000);
                    let before = canary(buf_len, opi as u8);
                    let mut buf = before.clone();
                    let twin = enc.clone();
                    let prev = tx_frag_preview(&pdu, &ctx, &before);
                    previews += 1;
                    let res = tx_encap_frag(&enc, &pdu, &ctx, &mut buf);
                    st.inc("lib_calls");
                    log.s(res.class());
                    log.u(res.n().unwrap_or(0) as u64);
                    let pos = ctx.len_pdu_frag() as usize;
                    if let PrevRes::Panic(m, l) = &prev {
                        report!(Violation::new("C09", "C09.panic", format!("encap_frag_preview:{}", panic_site(m, l)), format!("{} at {}", m, l)));
                    }
                    if let TxRes::Panic(m, l) = &res {
                        report!(Violation::new("C09", "C09.panic", format!("encap_frag:{}:{}", panic_site(m, l), mon::size_regime(buf_len, pdu.len())), format!("{} at {} (pdu {}, context at {}, buffer {})", m, l, pdu.len(), pos, buf_len)));
                        st.inc("aborted_by_panic");
                        break;
                    }
                    let em = Emitted { call: Call::EncapFrag, pdu: &pdu, ptype: 0, label: Lab::ReUse, fid: ctx.frag_id(), exts: &[], ctx: Some(ctx), before: &before, after: &buf, res: &res };
                    let (v6, parsed) = if pos <= pdu.len() { mon::check_c06(&em) } else { (None, None) };
                    let v6 = match v6 {
                        Some(v) if v.clause == "C06.wrote_beyond_reported_length" => {
                            report!(v);
                            None
                        }
                        other => other,
                    };
                    st.inc(mon::c18_cell(Call::EncapFrag, &prev, &res, parsed.as_ref(), false));
                    if let Some(v) = mon::check_c18(Call::EncapFrag, &prev, &res, parsed.as_ref(), false, 0x0800, buf_len, pdu.len()) {
                        report!(v);
                    }
                    if let Some(v) = v6 {
                        report!(v);
                    }
                    if pos <= pdu.len() {
                        cont_checked += 1;
                        if pos == pdu.len() {
                            st.inc("probe.context_exactly_at_end");
                        }
                        if let Some(v) = mon::check_c11_cont(&pdu, &ctx, buf_len, &res, parsed.as_ref(), &buf) {
                            report!(v);
                        }
                    }
                    match &res {
                        TxRes::Err(e) => {
                            failing_calls += 1;
                            st.inc(if pos > pdu.len() { "fault.bad_request_context_beyond_pdu" } else { "fault.bad_request_buffer_too_small" });
                            if buf != before {
                                report!(Violation::new("C09", "C09.buffer_modified_on_err", format!("encap_frag:{:?}", e), "output buffer changed although an error was returned".to_string()));
                            }
                            if enc != twin {
                                report!(Violation::new("C09", "C09.state_changed_on_err", format!("encap_frag:{:?}", e), "encapsulator changed by encap_frag".to_string()));
                            }
                        }
                        TxRes::Complete(_) | TxRes::Frag(..) => {
                            if pos > pdu.len() {
                                report!(Violation::new("C09", "C09.must_fail_but_packet", "encap_frag:context_beyond_pdu", format!("context at {} beyond a {}-byte PDU answered with {}", pos, pdu.len(), res.class())));
                            }
                            if op.name == "go" {
                                match &res {
                                    TxRes::Frag(_, c2) => {
                                        if let Some(l) = last.as_mut() {
                                            l.1 = *c2;
                                        }
                                    }
                                    _ => last = None,
                                }
                            }
                        }
                        _ => {}
                    }
                }
                "reset" => {
                    enc.reset_last_label();
                    led.reset();
                }
                "enable" => {
                    enc.enable_re_use_label();
                    led.cfg(true, 0);
                }
                "disable" => {
                    enc.disable_re_use_label();
                    led.cfg(false, 0);
                }
                "max" => {
                    let n = op.get_u("n") as u8;
                    enc.enable_re_use_label_with_max_consecutive(n);
                    led.cfg(true, n);
                }
                "ctor" => {
                    ctor = true;
                    let a = op.get_u("a");
                    let n = op.get_u("n");
                    let data = [0xABu8; 16];
                    for id in a..(a + n).min(65536) {
                        for dl in 0..=10usize {
                            st.inc("constructor_calls");
                            let want_ok = id < 0x600 && (id < 0x100 || wire::opt_ext_len(id as u16) == Some(dl));
                            match guarded(|| Extension::new(id as u16, &data[..dl])) {
                                Err((m, l)) => {
                                    let v = Violation::new("C13", "C13.constructor_panic", format!("id{:#06x}", if id >= 0x600 { 0x600 } else { id & 0xFF00 }), format!("Extension::new({:#06x}, {} bytes) panicked: {} at {}", id, dl, m, l)).with_reduced(Program { scenario: "txsim", cfg: p.cfg.clone(), ops: vec![Op::new("ctor").u("a", id).u("n", 1)] });
                                    if target == "C13" {
                                        st.log = log.0;
                                        return Some(v);
                                    }
                                }
                                Ok(r) => {
                                    let ok = match &r {
                                        Ok(e) => e.id() == id as u16 && e.len() == 2 + dl,
                                        Err(_) => false,
                                    };
                                    if r.is_ok() != want_ok || (want_ok && !ok) {
                                        let v = Violation::new("C13", "C13.constructor_acceptance", format!("id{:#06x}:len{}", id & 0xFF00, dl), format!("Extension::new({:#06x}, {} bytes) -> {}, expected {}", id, dl, if r.is_ok() { "Ok" } else { "Err" }, if want_ok { "Ok" } else { "Err" })).with_reduced(Program { scenario: "txsim", cfg: p.cfg.clone(), ops: vec![Op::new("ctor").u("a", id).u("n", 1)] });
                                        if target == "C13" {
                                            st.log = log.0;
                                            return Some(v);
                                        }
                                    }
                                }
                            }
                        }
                    }
                }
                _ => {}
            }
            let mut sh = H64::new();
            sh.u(led.enabled as u64);
            sh.u(led.max.min(3) as u64);
            sh.u(led.run.min(4) as u64);
            sh.u(match led.last {
                None => 0,
                Some(Lab::L6(_)) => 1,
                Some(Lab::L3(_)) => 2,
                _ => 3,
            });
            st.cov("state", sh.0);
        }
        st.nontrivial = match target {
            "C09" => failing_calls >= 1,
            "C11" => cont_checked >= 1,
            "C15" => emitted_starts >= 2,
            "C18" => previews >= 1,
            "C13" => ctor,
            _ => emitted_starts >= 1 || cont_checked >= 1,
        };
        st.log = log.0;
        viol
    }
}

pub mod gen {
    use super::*;

    fn enc(len: usize, seed: u64, ptype: u16, lab: &Lab, fid: u8, buf: usize, exts: Option<&[(u16, Vec<u8>)]>) -> Op {
        let mut o = Op::new("enc").u("len", len as u64).u("seed", seed).u("ptype", ptype as u64).h("lab", lab.enc()).u("fid", fid as u64).u("buf", buf as u64);
        if let Some(e) = exts {
            o = o.h("exts", enc_exts(e));
        }
        o
    }

    fn any_label(rng: &mut Rng) -> Lab {
        match rng.below(10) {
            0 => Lab::L6([0; 6]),
            1 => Lab::L3([0; 3]),
            _ => *rng.pick(&ALPHABET),
        }
    }
    fn any_ptype(rng: &mut Rng) -> u16 {
        match rng.below(8) {
            0 => rng.below(0x100) as u16,
            1 => rng.range(0x100, 0x5FF) as u16,
            2 => *rng.pick(&[0u16, 0xFF, 0x100, 0x5FF, 0x600, 0xFFFF]),
            _ => fg::ptype(rng),
        }
    }
    fn any_len(rng: &mut Rng) -> usize {
        match rng.below(10) {
            0 => rng.usize_in(65_520, 65_545),
            1 => rng.usize_in(65_536, 70_000),
            2 => rng.usize_in(4080, 4110),
            3 => rng.usize_in(4096, 66_000),
            4 => 0,
            _ => rng.usize_in(0, 300),
        }
    }
    fn any_buf(rng: &mut Rng, len: usize) -> usize {
        match rng.below(10) {
            0 => rng.usize_in(0, 14),
            1 => rng.usize_in(4090, 4110),
            2 => rng.usize_in(4098, 70_000),
            3 => len + rng.usize_in(0, 20),
            4 => 70_000,
            5 => len.saturating_sub(rng.usize_in(0, 20)),
            _ => rng.usize_in(0, 600),
        }
    }

    pub fn generate(target: &str, idx: u64, rng: &mut Rng, tier: Tier) -> Program {
        let cfg = Op::new("cfg");
        let mut ops = vec![];
        match target {
            "C13" => {
                // constructor sweep: all 65536 ids x data lengths 0..=10, in chunks
                let chunks = if tier == Tier::Quick { 2000 } else { 4000 };
                let per = (65536 + chunks - 1) / chunks;
                ops.push(Op::new("ctor").u("a", idx * per).u("n", per));
                let _ = ExtTable::default();
            }
            "C15" if idx < (if tier == Tier::Quick { 4 * 15u64.pow(4) } else { 8 * 15u64.pow(5) }) => {
                // bounded-exhaustive part ("exhaustively to a bounded depth"): every sequence of d calls (d = 4 quick,
                // 5 thorough) over a 15-letter alphabet - complete packets with the six labels of the property's
                // alphabet, first fragments with a 6- and a 3-byte label, encap_ext, a refused call, label reset,
                // disable, enable, enable with a maximum of 1 and of 2 - from 8 starting configurations (re-use on /
                // off / max 1 / max 2, with or without a packet of the favourite label already sent)
                let depth: u32 = if tier == Tier::Quick { 4 } else { 5 };
                let per = 15u64.pow(depth);
                // (quick: four of the eight starting configurations)
                let start = if tier == Tier::Quick { [0u64, 2, 5, 7][(idx / per) as usize % 4] } else { idx / per };
                let mut code = idx % per;
                match start % 4 {
                    0 => {}
                    1 => ops.push(Op::new("disable")),
                    2 => ops.push(Op::new("max").u("n", 1)),
                    _ => ops.push(Op::new("max").u("n", 2)),
                }
                if start / 4 == 1 {
                    ops.push(enc(3, 1, 0x0800, &fg::L6A, 1, 64, None));
                }
                let e = [(0x0100u16, vec![])];
                for i in 0..depth {
                    let l = code % 15;
                    code /= 15;
                    let fid = 10 + i as u8;
                    ops.push(match l {
                        0..=5 => enc(3, 7 + i as u64, 0x0800, &ALPHABET[l as usize], fid, 64, None),
                        6 => enc(40, 7 + i as u64, 0x0800, &fg::L6A, fid, 20, None),
                        7 => enc(40, 7 + i as u64, 0x0800, &fg::L3A, fid, 20, None),
                        8 => enc(3, 7 + i as u64, 0x0800, &fg::L6A, fid, 64, Some(&e)),
                        9 => enc(3, 7 + i as u64, 0x0800, &Lab::L6([0; 6]), fid, 64, None),
                        10 => Op::new("reset"),
                        11 => Op::new("disable"),
                        12 => Op::new("enable"),
                        13 => Op::new("max").u("n", 1),
                        _ => Op::new("max").u("n", 2),
                    });
                }
                ops.push(Op::new("mark_enumerated"));
            }
            "C15" | "C09" | "C06" | "C18" if idx % 40 == 3 => {
                // counter run: a maximum N, then N+300 consecutive sends of one label with nothing in between
                // but (sometimes) failing calls; N = 255 exercises the wrap of the 8-bit counter
                let n = *rng.pick(&[255u64, 255, 254, 1, 2, 3, 100]);
                let fav = *rng.pick(&ALPHABET[..4]);
                if rng.chance(1, 3) {
                    ops.push(enc(3, 1, 0x0800, &fav, 1, 64, None));
                }
                ops.push(Op::new("max").u("n", n));
                let with_fail = rng.chance(1, 3);
                let via_ext = rng.chance(1, 4);
                let e = [fg::opt_ext(rng)];
                for i in 0..(n as usize + 300) {
                    let use_ext = via_ext && (i % 3 != 0);
                    ops.push(enc(rng.usize_in(0, 4), rng.next(), 0x0800, &fav, 1, 64, if use_ext { Some(&e) } else { None }));
                    if with_fail && rng.chance(1, 50) {
                        ops.push(enc(70_000, 1, 0x0800, &fav, 1, 64, None));
                    }
                }
            }
            "C15" => {
                let long = rng.chance(1, 25);
                let n = if long { rng.usize_in(300, 900) } else { rng.usize_in(3, 50) };
                let fav = *rng.pick(&ALPHABET[..4]);
                for _ in 0..n {
                    match rng.below(if long { 60 } else { 14 }) {
                        0 => ops.push(Op::new("reset")),
                        1 => ops.push(Op::new("enable")),
                        2 => ops.push(Op::new("disable")),
                        3 => ops.push(Op::new("max").u("n", *rng.pick(&[0u64, 1, 2, 3, 254, 255, 255]))),
                        4 => {
                            // failing call
                            let lab = if rng.chance(1, 2) { fav } else { any_label(rng) };
                            ops.push(enc(if rng.chance(1, 2) { 70_000 } else { 5 }, 1, any_ptype(rng), &lab, 1, rng.usize_in(0, 8), None));
                        }
                        _ => {
                            let lab = if rng.chance(4, 5) { fav } else { *rng.pick(&ALPHABET) };
                            let with_ext = rng.chance(1, 8);
                            let e = [fg::opt_ext(rng)];
                            let buf = if rng.chance(1, 6) { 16 + rng.usize_in(0, 6) } else { 200 };
                            ops.push(enc(rng.usize_in(0, 30), rng.next(), 0x0800, &lab, 1, buf, if with_ext { Some(&e) } else { None }));
                        }
                    }
                }
            }
            "C11" => {
                let n = rng.usize_in(1, 6);
                for _ in 0..n {
                    let len = match rng.below(6) {
                        0 => rng.usize_in(60_000, 65_535),
                        1 => rng.usize_in(4080, 4110),
                        2 => rng.usize_in(0, 4),
                        _ => rng.usize_in(0, 2000),
                    };
                    let pos = match rng.below(5) {
                        0 => len,
                        1 => 0,
                        2 => len.saturating_sub(rng.usize_in(0, 6)),
                        _ => rng.usize_in(0, len),
                    };
                    let rem = len - pos.min(len);
                    if rng.chance(1, 2) {
                        // raw context at any position
                        let k = rng.usize_in(1, 4);
                        for _ in 0..k {
                            ops.push(Op::new("frag").u("len", len as u64).u("seed", rng.next()).u("fid", rng.below(256)).u("crc", rng.next() & 0xFFFF_FFFF).u("pos", pos as u64).u("buf", fg::buf_size(rng, rem, 3) as u64));
                        }
                    } else {
                        // a real transfer driven to its end
                        let lab = fg::label(rng, false);
                        ops.push(enc(len.min(65_533 - lab.len()), rng.next(), fg::ptype(rng), &lab, rng.below(256) as u8, fg::buf_size(rng, len, 13), None));
                        let k = rng.usize_in(1, 12);
                        for _ in 0..k {
                            ops.push(Op::new("go").u("buf", fg::buf_size(rng, rem, 3) as u64));
                        }
                    }
                }
            }
            _ => {
                // C09 / C18 / C06: every failing and succeeding class, any prior state
                let n = rng.usize_in(2, 30);
                for _ in 0..n {
                    match rng.below(16) {
                        0 => ops.push(Op::new("reset")),
                        1 => ops.push(Op::new("enable")),
                        2 => ops.push(Op::new("disable")),
                        3 => ops.push(Op::new("max").u("n", *rng.pick(&[0u64, 1, 2, 3, 254, 255]))),
                        4 | 5 => {
                            let len = any_len(rng);
                            let pos = match rng.below(4) {
                                0 => len + rng.usize_in(1, 300),
                                1 => len,
                                _ => rng.usize_in(0, len),
                            }
                            .min(65_535);
                            ops.push(Op::new("frag").u("len", len as u64).u("seed", rng.next()).u("fid", rng.below(256)).u("crc", rng.next() & 0xFFFF_FFFF).u("pos", pos as u64).u("buf", any_buf(rng, len.saturating_sub(pos)) as u64));
                        }
                        6 | 7 => {
                            // encap_ext with 0..4 extensions
                            let k = rng.usize_in(0, 4);
                            let mut exts = vec![];
                            for _ in 0..k {
                                if rng.chance(1, 3) {
                                    let dl = rng.usize_in(0, 8);
                                    exts.push((rng.below(0x100) as u16, rng.bytes(dl)));
                                } else {
                                    exts.push(fg::opt_ext(rng));
                                }
                            }
                            let pt = if !exts.is_empty() && rng.chance(1, 3) { exts.last().unwrap().0 } else { any_ptype(rng) };
                            let len = any_len(rng);
                            let mut o = enc(len, rng.next(), pt, &any_label(rng), rng.below(256) as u8, any_buf(rng, len), Some(&exts));
                            // one call in eight carries a mandatory extension with a lot of data (kept out of the hex
                            // list: id, length, content seed, first or last position): around 255, around the largest
                            // packet, beyond it, beyond the 16-bit lengths
                            if rng.chance(1, 8) {
                                let bl = match rng.below(6) {
                                    0 => rng.usize_in(200, 300),
                                    1 => rng.usize_in(4060, 4100),
                                    2 => 5000,
                                    3 => rng.usize_in(65_500, 66_000),
                                    4 => 70_000,
                                    _ => rng.usize_in(9, 4000),
                                };
                                let last = rng.chance(1, 2);
                                let bid = if last && rng.chance(1, 2) && pt < 0x100 { pt as u64 } else { rng.below(0x100) };
                                o = o.u("bigx_id", bid).u("bigx_len", bl as u64).u("bigx_seed", rng.next()).u("bigx_last", last as u64);
                                // buffers around what such a header needs
                                if rng.chance(1, 2) {
                                    o.set_u("buf", (bl + len + rng.usize_in(0, 40)).min(70_000) as u64);
                                }
                            }
                            ops.push(o);
                        }
                        8 => ops.push(Op::new("go").u("buf", rng.range(0, 5000))),
                        _ => {
                            let len = any_len(rng);
                            ops.push(enc(len, rng.next(), any_ptype(rng), &any_label(rng), rng.below(256) as u8, any_buf(rng, len), None));
                        }
                    }
                }
            }
        }
        Program { scenario: "txsim", cfg, ops }
    }
}
