pub mod flow;
pub mod rxsim;
