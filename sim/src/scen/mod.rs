pub mod flow;
pub mod rxsim;
pub mod txsim;
pub mod memsim;
