pub mod flow;
