//! `flow`: Tx node + (fault-free or lightly faulted) link + Rx node(s), driven in lock-step.
//! Serves C01 C02 C04(a) C06 C07 C10 C11 C12 C13 C15 C18 C19 with different generator mixes.
//!
//! Ops
//!   submit len seed ptype lab fid buf exts flip     encap / encap_ext into a canary buffer of `buf` bytes
//!   cont   fl buf flip                               encap_frag on in-flight PDU `fl` (mod #flights)
//!   stray  kind fid len seed lab total crc           harness-made packet injected at the receiver(s)
//!   frame  pad tail                                  end of base-band frame: walker walks, both sides reset labels
//!   enable / disable / max n                         sender re-use configuration
//! cfg: slots maxpdu nbuf mode(0 lock-step exact slices, 1 = also a frame walker) table(rx) nocrc

use crate::core::{Scenario, Stats, Tier, Violation};
use crate::mon::{self, Call, Emitted, TxLedger};
use crate::nodes::*;
use crate::program::{Op, Program};
use crate::rng::{pdu_bytes, Rng, H64};
use crate::wire::{self, dec_exts, dec_table, enc_exts, enc_table, Desc, ExtTable, Kind, Lab, MExt, Parsed, LT_3, LT_6, LT_BCAST, LT_REUSE};
use dvb_gse_rust::crc::DefaultCrc;
use dvb_gse_rust::gse_decap::{DecapError, DecapMemoryError, DecapStatus, Decapsulator, GetLabelorFragIdError, GseDecapMemory, LabelorFragId, SimpleGseMemory};
use dvb_gse_rust::gse_encap::{ContextFrag, EncapError, Encapsulator};

pub struct Flow;

struct Flight {
    pdu: Vec<u8>,
    ptype: u16,
    intended: Option<Lab>,
    exts: Vec<(u16, Vec<u8>)>,
    fid: u8,
    ctx: ContextFrag,
    /// no expectations any more (corrupted, slot stolen, preconditions unmet, restarted)
    tainted: bool,
    /// receiver must reject and never deliver (unknown mandatory extension, unresolvable re-use)
    must_reject: bool,
    /// explicit re-use label right after a broadcast packet: delivered under the broadcast label or refused, both right
    optional: bool,
    total_len: u16,
    written_label: Vec<u8>,
    first_payload: usize,
    calls_ge13: u32,
    stream_no: u32,
    has_ext: bool,
    /// superseded by a newer PDU on the same frag id: the sender may still continue it (its packets are then strays
    /// of a transfer the receiver has given up); no expectation on their delivery
    abandoned: bool,
}

#[derive(Clone, Debug, PartialEq)]
struct RxObs {
    class: &'static str,
    err: String,
    consumed: usize,
    label: Option<Lab>,
    ptype: u16,
    pdu_len: usize,
    pdu_hash: u64,
    exts: Vec<(u16, Vec<u8>)>,
}

fn ext_list(md: &dvb_gse_rust::gse_decap::DecapMetadata) -> Vec<(u16, Vec<u8>)> {
    use dvb_gse_rust::header_extension::ExtensionData as D;
    md.extensions()
        .iter()
        .map(|e| {
            let d: Vec<u8> = match e.data() {
                D::Data2(x) => x.to_vec(),
                D::Data4(x) => x.to_vec(),
                D::Data6(x) => x.to_vec(),
                D::Data8(x) => x.to_vec(),
                D::NoData => vec![],
                D::MandatoryData(x) => x.clone(),
            };
            (e.id(), d)
        })
        .collect()
}

fn observe(r: &RxRes) -> (RxObs, Option<&Box<[u8]>>) {
    match r {
        RxRes::Ok(DecapStatus::CompletedPkt(b, md), n) => {
            let l = md.pdu_len().min(b.len());
            let mut h = H64::new();
            h.b(&b[..l]);
            (
                RxObs { class: "completed", err: String::new(), consumed: *n, label: Some(from_label(&md.label())), ptype: md.protocol_type(), pdu_len: md.pdu_len(), pdu_hash: h.0, exts: ext_list(md) },
                Some(b),
            )
        }
        RxRes::Ok(DecapStatus::FragmentedPkt(md), n) => (
            RxObs { class: "fragmented", err: String::new(), consumed: *n, label: Some(from_label(&md.label())), ptype: md.protocol_type(), pdu_len: 0, pdu_hash: 0, exts: ext_list(md) },
            None,
        ),
        RxRes::Ok(DecapStatus::Padding, n) => (RxObs { class: "padding", err: String::new(), consumed: *n, label: None, ptype: 0, pdu_len: 0, pdu_hash: 0, exts: vec![] }, None),
        RxRes::Err(e, n) => (RxObs { class: "err", err: err_class(e).to_string(), consumed: *n, label: None, ptype: 0, pdu_len: 0, pdu_hash: 0, exts: vec![] }, None),
        RxRes::Panic(m, l) => (RxObs { class: "panic", err: crate::core::panic_site(m, l), consumed: 0, label: None, ptype: 0, pdu_len: 0, pdu_hash: 0, exts: vec![] }, None),
    }
}

/// take the delivered buffer (or the buffer inside an error value) into the application's hands
fn absorb(rx: &mut RxNode, r: RxRes) {
    match r {
        RxRes::Ok(DecapStatus::CompletedPkt(b, _), _) => rx.app.push(b),
        RxRes::Err(DecapError::ErrorMemory(DecapMemoryError::StorageOverflow(b)), _) | RxRes::Err(DecapError::ErrorMemory(DecapMemoryError::BufferTooSmall(b)), _) => rx.app.push(b),
        _ => {}
    }
    let n = rx.app.len();
    rx.give_back(n);
}

/// Shadow receiver on the *bare* bundled types (no seam wrappers): what an application actually runs. The wrappers
/// implement the crate's traits by delegation and cannot forward trait methods added later, so the same packets are
/// also fed to this receiver and its answers must equal the wrapped receiver's.
struct Bare {
    dec: BareDec,
    app: Vec<Box<[u8]>>,
}

/// the shadow receiver runs on the crate's own extension managers whenever they describe what the run's receiver
/// knows: nothing (SimpleMandatoryExtensionHeaderManager) or the two signalling ids 0x81 / 0x82 without data
/// (SignalisationMandatoryExtensionHeaderManager); otherwise on the harness's table manager
enum BareDec {
    Table(Decapsulator<SimpleGseMemory, DefaultCrc, TableManager>),
    Simple(Decapsulator<SimpleGseMemory, DefaultCrc, dvb_gse_rust::header_extension::SimpleMandatoryExtensionHeaderManager>),
    Sig(Decapsulator<SimpleGseMemory, DefaultCrc, dvb_gse_rust::header_extension::SignalisationMandatoryExtensionHeaderManager>),
}

macro_rules! with_dec {
    ($s:expr, $d:ident => $e:expr) => {
        match &mut $s {
            BareDec::Table($d) => $e,
            BareDec::Simple($d) => $e,
            BareDec::Sig($d) => $e,
        }
    };
}

impl Bare {
    fn new(slots: usize, minsize: usize, table: ExtTable) -> Bare {
        let mem = SimpleGseMemory::new(slots.max(1), minsize, 0, 0);
        let mut ids: Vec<(u16, MExt)> = table.entries.clone();
        ids.sort_by_key(|e| e.0);
        let dec = if ids.is_empty() {
            BareDec::Simple(Decapsulator::new(mem, DefaultCrc {}, dvb_gse_rust::header_extension::SimpleMandatoryExtensionHeaderManager {}))
        } else if ids == vec![(0x81, MExt::Final(0)), (0x82, MExt::Final(0))] {
            BareDec::Sig(Decapsulator::new(mem, DefaultCrc {}, dvb_gse_rust::header_extension::SignalisationMandatoryExtensionHeaderManager {}))
        } else {
            BareDec::Table(Decapsulator::new(mem, DefaultCrc {}, TableManager { table }))
        };
        Bare { dec, app: vec![] }
    }
    fn manager_name(&self) -> &'static str {
        match self.dec {
            BareDec::Table(_) => "probe.shadow_receiver.table_manager",
            BareDec::Simple(_) => "probe.shadow_receiver.bundled_simple_manager",
            BareDec::Sig(_) => "probe.shadow_receiver.bundled_signalisation_manager",
        }
    }
    fn reset_last_label(&mut self) {
        with_dec!(self.dec, d => d.reset_last_label())
    }
    fn provision(&mut self, size: usize) {
        match with_dec!(self.dec, d => d.provision_storage(vec![0u8; size.max(1)].into_boxed_slice())) {
            Ok(()) => {}
            Err(DecapMemoryError::StorageOverflow(b)) | Err(DecapMemoryError::BufferTooSmall(b)) => self.app.push(b),
            Err(_) => {}
        }
    }
    /// top-up by the application: a refused buffer stays outside
    fn provision_drop_refused(&mut self, size: usize) {
        let _ = with_dec!(self.dec, d => d.provision_storage(vec![0u8; size.max(1)].into_boxed_slice()));
    }
    fn decap(&mut self, bytes: &[u8]) -> RxRes {
        match with_dec!(self.dec, d => crate::core::guarded(|| d.decap(bytes))) {
            Ok(Ok((s, n))) => RxRes::Ok(s, n),
            Ok(Err((e, n))) => RxRes::Err(e, n),
            Err((m, l)) => RxRes::Panic(m, l),
        }
    }
    fn absorb(&mut self, r: RxRes) {
        match r {
            RxRes::Ok(DecapStatus::CompletedPkt(b, _), _) => self.app.push(b),
            RxRes::Err(DecapError::ErrorMemory(DecapMemoryError::StorageOverflow(b)), _) | RxRes::Err(DecapError::ErrorMemory(DecapMemoryError::BufferTooSmall(b)), _) => self.app.push(b),
            _ => {}
        }
        let n = self.app.len();
        for _ in 0..n {
            if let Some(b) = self.app.pop() {
                match with_dec!(self.dec, d => d.provision_storage(b)) {
                    Ok(()) => {}
                    Err(DecapMemoryError::StorageOverflow(b)) | Err(DecapMemoryError::BufferTooSmall(b)) => {
                        self.app.push(b);
                        break;
                    }
                    Err(_) => break,
                }
            }
        }
    }
}

fn per_packet_rejection(err: &str) -> bool {
    matches!(err, "Crc" | "Mem.UndefinedId" | "Mem.Underflow" | "SizePduBuffer" | "UnknownMandatoryHeader" | "NoLabelSaved" | "LabelBroadcastSaved" | "LabelReUseSaved")
}

struct Exec<'a> {
    target: &'a str,
    st: &'a mut Stats,
    viol: Option<Violation>,
    log: H64,
}

impl<'a> Exec<'a> {
    /// record a violation; returns true if the run must stop (target hit, or state unusable)
    fn report(&mut self, v: Violation) -> bool {
        if v.prop == self.target {
            if self.viol.is_none() {
                self.viol = Some(v);
            }
            true
        } else {
            *self.st.other.entry(format!("{}|{}", v.prop, v.clause)).or_insert(0) += 1;
            false
        }
    }
}

/// the packet followed by bytes that do not belong to it (deterministic in the packet)
fn with_tail(pkt: &[u8]) -> Vec<u8> {
    let mut h = H64::new();
    h.b(pkt);
    let x = h.0;
    let n = match (x >> 16) % 16 {
        0 => 4000 + (x % 1000) as usize,
        1 => 1,
        _ => 1 + (x % 40) as usize,
    };
    let mut v = pkt.to_vec();
    match (x >> 8) % 5 {
        0 => v.extend(std::iter::repeat(0xFFu8).take(n)),
        1 => v.extend(std::iter::repeat(0x00u8).take(n)),
        2 => {
            // looks like another packet / like extension ids
            let pat = [0xC0u8, 0x05, 0x01, 0x23, 0x00, 0x81, 0x05, 0xFF];
            v.extend((0..n).map(|i| pat[i % pat.len()]));
        }
        _ => v.extend(pdu_bytes(n, x)),
    }
    v
}

impl Scenario for Flow {
    fn name(&self) -> &'static str {
        "flow"
    }
    fn tag(&self) -> u64 {
        1
    }
    fn serves(&self) -> &'static [&'static str] {
        &["C01", "C02", "C04", "C06", "C07", "C10", "C11", "C12", "C13", "C15", "C18", "C19"]
    }
    fn budget(&self, target: &str, tier: Tier) -> u64 {
        let q = match target {
            "C01" => 240000,
            "C02" => 150000,
            "C04" => 300000,
            "C06" => 200000,
            "C07" => 600000,
            "C10" => 400000,
            "C11" => 160000,
            "C12" => 200000,
            "C13" => 400000,
            "C15" => 200000,
            "C18" => 200000,
            "C19" => 400000,
            _ => 0,
        };
        match tier {
            Tier::Quick => q,
            Tier::Thorough => q * 40,
        }
    }
    fn rule(&self) -> &'static str {
        "seeded programs of sender calls (submit/cont/config/frame) executed against real Encapsulator and Decapsulator in lock-step; a run is non-trivial when at least one sender-produced packet reached the receiver and was compared with the expectation ledger (for C07: >=2 streams with >=1 context switch; C10: >=2 packets walked in one frame; C13: >=1 extension-bearing packet compared); distinct = distinct program hashes"
    }
    fn expected_probes(&self, target: &str) -> &'static [&'static str] {
        match target {
            "C01" => &["substituted_reuse", "gse_len_4095"],
            "C02" | "C11" | "C12" => &["substituted_first_fragment", "crc_only_end_packet", "zero_payload_first_fragment", "gse_len_4095", "total_len_65535"],
            "C04" | "C15" => &["substituted_reuse", "substituted_first_fragment"],
            "C07" => &["aliasing_stray_on_open_slot", "restart_same_fid", "first_fragment_claims_aliased_slot"],
            "C13" => &["ext.chain_of_1", "ext.chain_of_2", "ext.chain_of_3", "ext.chain_of_4_or_more", "ext.final_mandatory_with_data", "ext.final_mandatory_without_data", "ext.non_final_mandatory_with_data", "ext.non_final_mandatory_without_data", "ext.optional_hlen_1", "ext.optional_hlen_2", "ext.optional_hlen_3", "ext.optional_hlen_4", "ext.optional_hlen_5", "ext.fragmented", "ext.first_fragment_ends_with_the_chain", "ext.explicit_re_use_label", "ext.substituted_re_use_label", "ext.total_length_near_65535", "shadow_receiver.bundled_simple_manager", "shadow_receiver.bundled_signalisation_manager", "packet_followed_by_further_bytes"],
            "C10" => &["rejected_packet_walked", "padding_walked", "substituted_reuse", "rejected_then_walked_on.bad_crc", "rejected_then_walked_on.unknown_fragment_id", "rejected_then_walked_on.no_storage", "rejected_then_walked_on.storage_too_small", "rejected_then_walked_on.unknown_mandatory_extension", "rejected_then_walked_on.unresolvable_re_use_label"],
            "C19" => &["rejected_packet_walked", "padding_walked", "substituted_reuse", "peek.shortest_intermediate_packet_alone", "peek.shortest_end_packet_alone", "packet_followed_by_further_bytes"],
            _ => &[],
        }
    }
    fn components_real(&self) -> &'static [&'static str] {
        &["Encapsulator::{encap,encap_frag,encap_ext,setters,reset_last_label}", "encap_preview", "encap_frag_preview", "Decapsulator::{decap,get_label_or_frag_id,provision_storage,reset_last_label}", "SimpleGseMemory (behind LedgerMemory)", "DefaultCrc (behind RecordingCrc)", "Extension::new"]
    }
    fn components_stub(&self) -> &'static [&'static str] {
        &["application workload", "buffer-size scheduler", "framer", "link (fault-free / single corruption)", "LedgerMemory / RecordingCrc / TableManager wrappers (delegate to real code)"]
    }

    fn generate(&self, target: &str, idx: u64, rng: &mut Rng, tier: Tier) -> Program {
        gen::generate(target, idx, rng, tier)
    }

    fn execute(&self, p: &Program, target: &str, st: &mut Stats) -> Option<Violation> {
        let slots = (p.cfg.get_u("slots") as usize).clamp(1, 256);
        let maxpdu = (p.cfg.get_u("maxpdu") as usize).clamp(1, 70_000);
        let nbuf = (p.cfg.get_u("nbuf") as usize).min(slots + 2);
        let mode = p.cfg.get_u("mode");
        let table = dec_table(p.cfg.get_h("table"));
        let keep_crc = target == "C12";
        let mut ex = Exec { target, st, viol: None, log: H64::new() };

        let txcrc = RecCrc::new(keep_crc);
        let txlog = txcrc.log.clone();
        let mut enc: Enc = Encapsulator::new(txcrc);
        let mut led = TxLedger::new();
        // minsize: the memory's configured minimum storage size (<= the size of the buffers actually provisioned)
        let minsize = match p.cfg.get_u("minsize") as usize {
            0 => maxpdu,
            m => m.min(maxpdu),
        };
        let mut rx = RxNode::new(slots, minsize, table.clone(), keep_crc);
        let mut walker = if mode == 1 { Some(RxNode::new(slots, minsize, table.clone(), false)) } else { None };
        let trail = mode == 0 && p.cfg.get_u("trail") == 1;
        let mut bare = if mode == 0 && p.cfg.get_u("shadow") == 1 { Some(Bare::new(slots, minsize, table.clone())) } else { None };
        if let Some(b) = bare.as_ref() {
            ex.st.inc(b.manager_name());
        }
        let mut accepted_bufs = 0usize;
        for _ in 0..nbuf {
            if let Ok(true) = rx.provision(maxpdu) {
                accepted_bufs += 1;
            }
            if let Some(w) = walker.as_mut() {
                let _ = w.provision(maxpdu);
            }
            if let Some(b) = bare.as_mut() {
                b.provision(maxpdu);
            }
        }
        let mut walker_ok = true;
        let mut flights: Vec<Flight> = vec![];
        let mut abandoned: Vec<Flight> = vec![];
        let mut frame: Vec<u8> = vec![];
        let mut frame_pkts: Vec<(usize, usize, RxObs, bool, bool, bool)> = vec![]; // .5 = walker resets before this packet // .4 = label memories were re-synchronised after this packet // (offset, len, isolated observation, produced_by_sender_uncorrupted)
        let mut stream_no = 0u32;
        let mut merge = H64::new();
        let mut merge_seq: Vec<u32> = vec![];
        let mut last_stream: Option<u32> = None;
        let mut switches = 0u32;
        let mut compared = 0u32;
        let mut compared_ext = 0u32;
        let mut walked_max = 0usize;
        let cr = crcref();

        macro_rules! stop {
            () => {{
                ex.st.log = ex.log.0;
                return ex.viol.take();
            }};
        }

        // deliver one packet to the isolated receiver (exact slice) and queue it for the walker
        // returns false if the run must stop
        macro_rules! deliver {
            ($pkt:expr, $fl:expr, $clean:expr, $before:expr, $after:expr) => {{
                let pkt: &[u8] = $pkt;
                let fl: Option<usize> = $fl;
                let clean: bool = $clean;
                let resync_before: bool = $before;
                let force_resync_after: bool = $after;
                ex.st.inc("packets");
                // C19 peek monitor
                let hdr = wire::header(pkt);
                let pk = rx.peek(pkt);
                ex.st.inc("lib_calls");
                let free_before = {
                    let g = rx.led.borrow();
                    g.n_inside() - g.n_attached()
                };
                // "presented alone or followed by further bytes": in `trail` runs a clean packet is followed by bytes
                // that are not part of it (derived from the packet, no PRNG); every expectation below stays the one
                // of the packet alone
                // (not for flights whose receiver reads an extension id differently from the sender: there the
                // receiver's answer is a frame-level one, outside C10's rejection classes)
                let trailed: Option<Vec<u8>> = if trail && clean && fl.map(|fi| !flights[fi].tainted).unwrap_or(false) { Some(with_tail(pkt)) } else { None };
                let fed: &[u8] = trailed.as_deref().unwrap_or(pkt);
                if trailed.is_some() {
                    ex.st.inc("probe.packet_followed_by_further_bytes");
                    let pk2 = rx.peek(fed);
                    ex.st.inc("lib_calls");
                    if format!("{:?}", pk2) != format!("{:?}", pk) {
                        if ex.report(Violation::new("C19", "C19.peek_depends_on_following_bytes", hdr.map(|h| h.0.name()).unwrap_or("?").to_string(), format!("peek alone {:?}, followed by {} more bytes {:?}", pk, fed.len() - pkt.len(), pk2))) {
                            stop!();
                        }
                    }
                }
                let r = rx.decap(fed);
                ex.st.inc("lib_calls");
                let (obs, bufref) = observe(&r);
                ex.log.s(obs.class);
                ex.log.s(&obs.err);
                ex.log.u(obs.consumed as u64);
                ex.log.u(obs.pdu_hash);
                if let Some((k, lt, _)) = hdr {
                    let mut th = H64::new();
                    th.s(k.name());
                    th.u(lt as u64);
                    th.s(obs.class);
                    th.s(&obs.err);
                    ex.st.cov("transition", th.0);
                }
                if let Some(b) = bare.as_mut() {
                    // in trail runs the shadow receiver gets the packet alone: any difference is then also a
                    // dependence of the outcome on the bytes that follow the packet (C10)
                    let rb = b.decap(pkt);
                    ex.st.inc("lib_calls");
                    let (ob, _) = observe(&rb);
                    if ob != obs && trailed.is_some() {
                        let _ = ex.report(Violation::new("C10", "C10.outcome_depends_on_following_bytes", format!("{}:{}{}", hdr.map(|h| h.0.name()).unwrap_or("?"), ob.class, if ob.err.is_empty() { String::new() } else { format!(":{}", ob.err) }), format!("alone: {} {} consumed {}; followed by {} more bytes: {} {} consumed {}", ob.class, ob.err, ob.consumed, fed.len() - pkt.len(), obs.class, obs.err, obs.consumed)));
                    }
                    if ob != obs {
                        let tgt: &'static str = crate::program::intern(ex.target);
                        let v = Violation::new(tgt, "bare_receiver_differs", format!("{}:{}{}", hdr.map(|h| h.0.name()).unwrap_or("?"), ob.class, if ob.err.is_empty() { String::new() } else { format!(":{}", ob.err) }), format!("the receiver built on the bare SimpleGseMemory/DefaultCrc answers {} {} (consumed {}), the one behind the seam wrappers {} {} (consumed {}): the library behaves differently for an application than for the harness (e.g. through a trait method the wrappers do not forward)", ob.class, ob.err, ob.consumed, obs.class, obs.err, obs.consumed));
                        let _ = ex.report(v);
                        stop!();
                    }
                    b.absorb(rb);
                }
                if obs.class == "panic" {
                    ex.st.inc("aborted_by_panic");
                    let _ = ex.report(Violation::new("C05", "C05.panic", format!("decap:{}", obs.err), "panic in decap on a sender-produced packet".to_string()));
                    stop!();
                }
                if let Err((m, l)) = &pk {
                    if ex.report(Violation::new("C19", "C19.peek_panic", crate::core::panic_site(m, l), format!("{} at {}", m, l))) {
                        stop!();
                    }
                }
                // expectations for sender-produced, uncorrupted packets of healthy flights
                if let (Some(fi), true) = (fl, clean) {
                    let (tainted, must_reject) = (flights[fi].tainted, flights[fi].must_reject);
                    let (kind, lt, _) = hdr.unwrap();
                    // C10: the encapsulator never emits a packet that reads as padding
                    if pkt[0] >> 4 == 0 {
                        if ex.report(Violation::new("C10", "C10.emitted_packet_reads_as_padding", kind.name(), format!("first byte {:02x}", pkt[0]))) {
                            stop!();
                        }
                    }
                    // ---- C12: the trailer of every end packet the sender emits (whether or not the receiver takes it)
                    if kind == Kind::End && keep_crc && pkt.len() >= 7 {
                        let f = &flights[fi];
                        let want = cr.gse(f.total_len, f.ptype, &f.written_label, &f.pdu);
                        let got = u32::from_be_bytes(pkt[pkt.len() - 4..].try_into().unwrap());
                        ex.st.inc("end_trailers_compared");
                        if got != want {
                            if ex.report(Violation::new("C12", "C12.trailer", format!("label{}", f.written_label.len()), format!("end trailer {:08x}, reference {:08x}", got, want))) {
                                stop!();
                            }
                        }
                    }
                    // ---- C19
                    if let Ok(pkr) = &pk {
                        let want: Result<LabelorFragId, GetLabelorFragIdError> = match kind {
                            Kind::Inter | Kind::End => Ok(LabelorFragId::FragId(flights[fi].fid)),
                            _ => match lt {
                                LT_REUSE => Err(GetLabelorFragIdError::ErrLabelReuse),
                                LT_BCAST => Ok(LabelorFragId::Lbl(dvb_gse_rust::label::Label::Broadcast)),
                                _ => {
                                    let off = if kind == Kind::First { 7 } else { 4 };
                                    let ll = wire::lt_len(lt);
                                    Ok(LabelorFragId::Lbl(to_label(&Lab::from_wire(lt, &pkt[off..off + ll]))))
                                }
                            },
                        };
                        if *pkr != want {
                            let site = format!("{}:lt{}:{}", kind.name(), lt, if flights[fi].has_ext { "ext" } else { "noext" });
                            if ex.report(Violation::new("C19", "C19.peek_value", site, format!("peek returned {:?}, expected {:?}", pkr, want))) {
                                stop!();
                            }
                        }
                        // reach: which packet shapes were peeked (alone / followed by further bytes)
                        {
                            let mut ph = H64::new();
                            ph.s(kind.name());
                            ph.u(lt as u64);
                            ph.u(flights[fi].has_ext as u64);
                            ph.u(trailed.is_some() as u64);
                            ex.st.cov("peek_cell", ph.0);
                        }
                        if kind == Kind::Inter && pkt.len() == 4 {
                            ex.st.inc("probe.peek.shortest_intermediate_packet_alone");
                        }
                        if kind == Kind::End && pkt.len() == 7 {
                            ex.st.inc("probe.peek.shortest_end_packet_alone");
                        }
                        // the fragment id decap associates: the PDU completed at this end packet is the one of the
                        // transfer that owns the peeked id
                        if let (Ok(LabelorFragId::FragId(x)), Kind::End, "completed", false, false) = (pkr, kind, obs.class, tainted, must_reject) {
                            let mut h = H64::new();
                            h.b(&flights[fi].pdu);
                            if *x == flights[fi].fid && (obs.pdu_hash != h.0 || obs.pdu_len != flights[fi].pdu.len()) {
                                if ex.report(Violation::new("C19", "C19.peek_vs_decap", "end:fragment_id".to_string(), format!("peek names frag id {}, whose transfer carries a {}-byte PDU, but decap completed another PDU ({} bytes) at this packet", x, flights[fi].pdu.len(), obs.pdu_len))) {
                                    stop!();
                                }
                            }
                        }
                        // the label the peek reports is one decap refuses as a label: the two disagree about the very
                        // label of the packet (other refusals - storage, extensions - say nothing about the label)
                        if let (Ok(LabelorFragId::Lbl(l)), "err", "InvalidLabel") = (pkr, obs.class, obs.err.as_str()) {
                            if ex.report(Violation::new("C19", "C19.peek_vs_decap", format!("{}:lt{}:label_refused_by_decap", kind.name(), lt), format!("peek reports the label {:?} of a packet the encapsulator produced, decap refuses the packet with ErrorInvalidLabel", l))) {
                                stop!();
                            }
                        }
                        // agreement with decap's own association
                        if let (Ok(LabelorFragId::Lbl(l)), Some(dl)) = (pkr, obs.label) {
                            if (kind == Kind::Complete || kind == Kind::First) && obs.class != "err" && from_label(l) != dl {
                                if ex.report(Violation::new("C19", "C19.peek_vs_decap", format!("{}:lt{}", kind.name(), lt), format!("peek {:?} but decap associated {:?}", l, dl))) {
                                    stop!();
                                }
                            }
                        }
                    }
                    if !tainted {
                        compared += 1;
                        if flights[fi].has_ext {
                            compared_ext += 1;
                        }
                        let f = &flights[fi];
                        let is_last = kind == Kind::Complete || kind == Kind::End;
                        let site_k = format!("{}:lt{}", kind.name(), lt);
                        if must_reject {
                            // C13 / C04: must be rejected as a whole, never delivered
                            if obs.class != "err" {
                                let (prop, clause): (&'static str, &'static str) = if f.intended.is_none() { ("C04", "C04.resolved_without_predecessor") } else { ("C13", "C13.unknown_mandatory_not_rejected") };
                                if kind == Kind::Complete || kind == Kind::First || obs.class == "completed" {
                                    if ex.report(Violation::new(prop, clause, site_k.clone(), format!("expected rejection, got {} label {:?}", obs.class, obs.label))) {
                                        stop!();
                                    }
                                }
                            } else if obs.consumed != pkt.len() {
                                if ex.report(Violation::new("C13", "C13.reject_consumed", site_k.clone(), format!("consumed {} of a {}-byte packet", obs.consumed, pkt.len()))) {
                                    stop!();
                                }
                            }
                        } else if f.optional && obs.class == "err" {
                            // refused: as right as a delivery under the broadcast label; nothing more is expected of it
                            ex.st.inc("reuse_after_broadcast_refused");
                            flights[fi].tainted = true;
                        } else {
                            let want_class = if is_last { "completed" } else { "fragmented" };
                            let prop_rt: &'static str = if f.has_ext { "C13" } else if kind == Kind::Complete { "C01" } else { "C02" };
                            if obs.class != want_class {
                                // which property is this? round trip failure: C01/C02/C13; with several flights C07; C04 delivery clause
                                let mut vs = vec![Violation::new(prop_rt, if prop_rt == "C01" { "C01.not_delivered" } else if prop_rt == "C02" { "C02.not_delivered" } else { "C13.not_delivered" }, format!("{}:{}{}", site_k, obs.class, if obs.err.is_empty() { String::new() } else { format!(":{}", obs.err) }), format!("expected {} got {} {} (pdu {}, pkt {} bytes, free buffers before {})", want_class, obs.class, obs.err, f.pdu.len(), pkt.len(), free_before))];
                                vs.push(Violation::new("C04", "C04.not_delivered", format!("{}:{}:{}", site_k, obs.class, obs.err), format!("PDU with label {:?} not delivered: {} {}", f.intended.map(|l| l.short()), obs.class, obs.err)));
                                if obs.err == "Crc" && kind == Kind::End {
                                    vs.push(Violation::new("C12", "C12.receiver_recomputes_another_crc", format!("label_written{}:{}", f.written_label.len(), if f.has_ext { "ext" } else { "noext" }), format!("fault-free train rejected with ErrorCrc: the decapsulator recomputes a CRC different from the trailer (first fragment label type {}, {} label bytes written)", if f.written_label.is_empty() { "re-use/broadcast" } else { "3/6-byte" }, f.written_label.len())));
                                }
                                vs.push(Violation::new("C07", "C07.not_delivered", format!("{}:{}:{}", site_k, obs.class, obs.err), format!("stream {} fid {}: expected {} got {} {}", f.stream_no, f.fid, want_class, obs.class, obs.err)));
                                let mut stopnow = false;
                                for v in vs {
                                    if v.prop == ex.target || v.prop == prop_rt {
                                        stopnow |= ex.report(v);
                                    }
                                }
                                if stopnow {
                                    stop!();
                                }
                                flights[fi].tainted = true;
                            } else {
                                // consumed
                                if obs.consumed != pkt.len() {
                                    let v = Violation::new(prop_rt, if prop_rt == "C01" { "C01.consumed" } else if prop_rt == "C02" { "C02.consumed" } else { "C13.consumed" }, site_k.clone(), format!("consumed {} != reported {}", obs.consumed, pkt.len()));
                                    if ex.report(v) {
                                        stop!();
                                    }
                                }
                                // metadata
                                let f = &flights[fi];
                                if obs.label != f.intended {
                                    let d = format!("delivered label {:?}, intended {:?} ({} packet, label type {})", obs.label.map(|l| l.short()), f.intended.map(|l| l.short()), kind.name(), lt);
                                    let mut s = false;
                                    s |= ex.report(Violation::new("C04", "C04.label_misattributed", format!("{}:{}", site_k, want_class), d.clone()));
                                    if ex.target != "C04" {
                                        s |= ex.report(Violation::new(prop_rt, if prop_rt == "C01" { "C01.label" } else if prop_rt == "C02" { "C02.label" } else { "C13.label" }, site_k.clone(), d.clone()));
                                        if ex.target == "C07" {
                                            s |= ex.report(Violation::new("C07", "C07.metadata", site_k.clone(), d));
                                        }
                                    }
                                    if s {
                                        stop!();
                                    }
                                }
                                if obs.ptype != f.ptype {
                                    let d = format!("delivered protocol type {:#06x}, sent {:#06x}", obs.ptype, f.ptype);
                                    let mut s = ex.report(Violation::new(prop_rt, if prop_rt == "C01" { "C01.ptype" } else if prop_rt == "C02" { "C02.ptype" } else { "C13.ptype" }, site_k.clone(), d.clone()));
                                    if ex.target == "C07" {
                                        s |= ex.report(Violation::new("C07", "C07.metadata", site_k.clone(), d));
                                    }
                                    if s {
                                        stop!();
                                    }
                                }
                                // the extension list is part of what is *delivered* (C13: "recovers exactly the same ordered
                                // extension list", C07: "its own metadata" at its own end fragment); what the status of a first
                                // or intermediate fragment reports besides label and protocol type is not constrained
                                if obs.exts != f.exts && is_last && ex.target == "C07" {
                                    if ex.report(Violation::new("C07", "C07.metadata", format!("{}:extensions", site_k), format!("stream {} fid {}: delivered {} extensions, sent {}", f.stream_no, f.fid, obs.exts.len(), f.exts.len()))) {
                                        stop!();
                                    }
                                }
                                if obs.exts != f.exts && is_last {
                                    if ex.report(Violation::new("C13", "C13.extensions_differ", site_k.clone(), format!("delivered {} extensions {:?}, sent {:?}", obs.exts.len(), obs.exts.iter().map(|e| e.0).collect::<Vec<_>>(), f.exts.iter().map(|e| e.0).collect::<Vec<_>>()))) {
                                        stop!();
                                    }
                                }
                                if is_last {
                                    let b = bufref.unwrap();
                                    let okb = obs.pdu_len == f.pdu.len() && b.len() >= f.pdu.len() && b[..f.pdu.len()] == f.pdu[..];
                                    if !okb {
                                        let d = format!("delivered {} bytes, sent {}; content {}", obs.pdu_len, f.pdu.len(), if obs.pdu_len == f.pdu.len() { "differs" } else { "length differs" });
                                        let mut s = ex.report(Violation::new(prop_rt, if prop_rt == "C01" { "C01.bytes" } else if prop_rt == "C02" { "C02.bytes" } else { "C13.bytes" }, site_k.clone(), d.clone()));
                                        if ex.target == "C07" {
                                            s |= ex.report(Violation::new("C07", "C07.bytes", site_k.clone(), d));
                                        }
                                        if s {
                                            stop!();
                                        }
                                    }
                                    // C12: trailer of the end packet
                                    if kind == Kind::End && keep_crc {
                                        let want = cr.gse(f.total_len, f.ptype, &f.written_label, &f.pdu);
                                        let got = u32::from_be_bytes(pkt[pkt.len() - 4..].try_into().unwrap());
                                        if got != want {
                                            if ex.report(Violation::new("C12", "C12.trailer", format!("label{}", f.written_label.len()), format!("end trailer {:08x}, reference {:08x}", got, want))) {
                                                stop!();
                                            }
                                        }
                                    }
                                }
                            }
                        }
                    } else if must_reject && obs.class == "completed" {
                        // even a tainted must-reject flight must never be delivered under its metadata
                    }
                }
                // C12 seam: every CRC call made by either party returned the reference value
                if keep_crc {
                    for which in 0..2 {
                        let calls: Vec<CrcCall> = if which == 0 { std::mem::take(&mut txlog.borrow_mut().calls) } else { std::mem::take(&mut rx.crc.borrow_mut().calls) };
                        for c in calls {
                            ex.st.inc("crc_calls");
                            if c.result != c.expected {
                                let v = Violation::new("C12", "C12.default_crc_value", format!("label{}:{}", c.label.len(), if c.pdu_len == 0 { "empty" } else { "nonempty" }), format!("DefaultCrc returned {:08x}, reference {:08x} (pdu {} bytes, ptype {:#06x}, total {})", c.result, c.expected, c.pdu_len, c.ptype, c.total_len));
                                if ex.report(v) {
                                    stop!();
                                }
                            }
                        }
                    }
                }
                // the receiver clears its label memory on every error (by design): a rejected packet ends
                // label re-use for this frame. Model: the sender restarts with a full label.
                // Exception: a continuation packet (intermediate / end) of an unknown or aliasing frag id carries no
                // label and is a per-packet rejection: C07 requires that such strays leave the other traffic of the
                // frame deliverable, label re-use included, so no re-synchronisation is granted there.
                let continuation_unknown_id = matches!(hdr, Some((Kind::Inter, _, gl)) if gl >= 2) || matches!(hdr, Some((Kind::End, _, gl)) if gl >= 5);
                // The same holds for every refusal of a *sender-produced, undamaged* continuation packet (a superseded
                // transfer's end fragment failing the length or CRC check, a fragment larger than the storage): it
                // carries no label, and C04 demands that the PDUs that follow with a compressed label are delivered.
                let clean_sender_continuation = continuation_unknown_id && clean && fl.is_some();
                let resync_after = force_resync_after || (obs.class == "err" && !(continuation_unknown_id && obs.err == "Mem.UndefinedId") && !clean_sender_continuation);
                if resync_after {
                    enc.reset_last_label();
                    led.reset();
                    rx.reset();
                    if let Some(b) = bare.as_mut() {
                        b.reset_last_label();
                    }
                    ex.st.inc("label_resync_after_rejection");
                }
                // queue for the walker
                if walker.is_some() {
                    frame_pkts.push((frame.len(), pkt.len(), obs.clone(), clean && fl.is_some(), resync_after, resync_before));
                    frame.extend_from_slice(pkt);
                }
                absorb(&mut rx, r);
            }};
        }

        let nops = p.ops.len();
        let mut hist5 = H64::new();
        let mut hist_labels: Vec<Vec<u8>> = vec![];
        for (opi, op) in p.ops.iter().enumerate() {
            ex.log.s(op.name);
            // an abandoned transfer that was continued by the previous op goes back to the abandoned list
            {
                let mut i = 0;
                while i < flights.len() {
                    if flights[i].abandoned {
                        let f = flights.remove(i);
                        abandoned.push(f);
                        if abandoned.len() > 3 {
                            abandoned.remove(0);
                        }
                    } else {
                        i += 1;
                    }
                }
            }
            if opi < 5 {
                hist5.s(op.name);
                if op.name == "submit" {
                    let l = op.get_h("lab").to_vec();
                    let ix = match hist_labels.iter().position(|x| *x == l) {
                        Some(i) => i,
                        None => {
                            hist_labels.push(l.clone());
                            hist_labels.len() - 1
                        }
                    };
                    hist5.u(ix as u64);
                    hist5.u(l.first().copied().unwrap_or(9) as u64);
                    // call class by size regime: fits / fragments / fails
                    let len = op.get_u("len");
                    let buf = op.get_u("buf");
                    hist5.u(if len > 65_535 || buf < 4 || (0x100..0x600).contains(&op.get_u("ptype")) { 2 } else if buf < len + 4 + 6 { 1 } else { 0 });
                }
            }
            match op.name {
                "submit" => {
                    let len = (op.get_u("len") as usize).min(70_000);
                    let pdu = pdu_bytes(len, op.get_u("seed"));
                    let ptype = op.get_u("ptype") as u16;
                    let lab = Lab::dec(op.get_h("lab"));
                    let fid = op.get_u("fid") as u8;
                    let buf_len = (op.get_u("buf") as usize).min(70_000);
                    let exts = dec_exts(op.get_h("exts"));
                    let flip = op.get_u("flip") as usize;
                    let before = canary(buf_len, opi as u8);
                    let mut buf = before.clone();
                    let sub_possible = led.substitution_possible(&lab);
                    let optional = led.reuse_after_broadcast(&lab);
                    let intended = if optional { Some(Lab::Bcast) } else { led.intended(&lab) };
                    let (call, res, prev) = if exts.is_empty() {
                        let prev = tx_preview(&pdu, ptype, &lab, &before);
                        (Call::Encap, tx_encap(&mut enc, &pdu, fid, ptype, &lab, &mut buf), Some(prev))
                    } else {
                        match make_exts(&exts) {
                            Ok(e) => (Call::EncapExt, tx_encap_ext(&mut enc, &pdu, fid, ptype, &lab, &mut buf, e), None),
                            Err(_) => {
                                ex.st.inc("skipped_unconstructible_extension");
                                continue;
                            }
                        }
                    };
                    ex.st.inc("lib_calls");
                    ex.log.s(res.class());
                    ex.log.u(res.n().unwrap_or(0) as u64);
                    if let TxRes::Panic(m, l) = &res {
                        ex.st.inc("aborted_by_panic");
                        let _ = ex.report(Violation::new("C09", "C09.panic", format!("{}:{}", call.name(), crate::core::panic_site(m, l)), format!("{} at {}", m, l)));
                        stop!();
                    }
                    let em = Emitted { call, pdu: &pdu, ptype, label: lab, fid, exts: &exts, ctx: None, before: &before, after: &buf, res: &res };
                    let (v6, parsed) = mon::check_c06(&em);
                    // bytes written behind a well-formed packet concern C06 alone: reported there, and the packet goes on
                    // through every other oracle as the well-formed packet it is
                    let v6 = match v6 {
                        Some(v) if v.clause == "C06.wrote_beyond_reported_length" => {
                            if ex.report(v) {
                                stop!();
                            }
                            None
                        }
                        other => other,
                    };
                    if let Some(prev) = &prev {
                        ex.st.inc(mon::c18_cell(call, prev, &res, parsed.as_ref(), sub_possible));
                        if let Some(v) = mon::check_c18(call, prev, &res, parsed.as_ref(), sub_possible, ptype, buf_len, len) {
                            if ex.report(v) {
                                stop!();
                            }
                        }
                    }
                    if v6.is_some() {
                        if let Some(v) = mon::check_c11_first_raw(&res, &buf, &exts, ptype, buf_len) {
                            if ex.report(v) {
                                stop!();
                            }
                        }
                    }
                    if let Some(v) = v6 {
                        // C13 speaks about the packet (decodable, reported length = on-wire length), not about the bytes
                        // of the buffer behind it (those are C06's)
                        let undecodable = call == Call::EncapExt && v.clause != "C06.wrote_beyond_reported_length";
                        let detail = v.detail.clone();
                        let site = v.site.clone();
                        let s = ex.report(v);
                        if undecodable {
                            let _ = ex.report(Violation::new("C13", "C13.encoded_undecodably", site.clone(), detail.clone()));
                        }
                        let _ = s;
                        // the round-trip oracle of the target property sees the consequence: feed what was reported
                        if let Some(n) = res.n() {
                            if n <= buf.len() && len <= maxpdu && intended.is_some() && !exts.iter().any(|e| e.0 < 0x100 && table.lookup(e.0) == MExt::Unknown) {
                                let r = rx.decap(&buf[..n]);
                                let want = if matches!(res, TxRes::Complete(_)) { "completed" } else { "fragmented" };
                                let okc = r.class() == want && r.consumed() == Some(n);
                                if !okc {
                                    let prop_rt: &'static str = if !exts.is_empty() { "C13" } else if want == "completed" { "C01" } else { "C02" };
                                    let _ = ex.report(Violation::new(prop_rt, if prop_rt == "C01" { "C01.not_delivered" } else if prop_rt == "C02" { "C02.not_delivered" } else { "C13.not_delivered" }, format!("malformed_emission:{}", site), format!("the packet reported by the sender ({} bytes) is not accepted by the receiver as {} ({}): {}", n, want, r.class(), detail)));
                                }
                            }
                        }
                        if ex.target == "C10" {
                            if let Some(n) = res.n() {
                                if n <= buf.len() {
                                    if let Some(d) = frame_walk_after(&buf[..n]) {
                                        let _ = ex.report(Violation::new("C10", "C10.emitted_packet_breaks_frame_walk", format!("{}:{}", call.name(), mon::size_regime(buf_len, len)), d));
                                    }
                                }
                            }
                        }
                        ex.st.inc("aborted_by_malformed_emission");
                        stop!();
                    }
                    // C01(b) must-be-complete, C02 progress (first call)
                    let valid_req = !lab.is_zero6() && ptype >= 0x600 && exts.is_empty();
                    if valid_req {
                        match &res {
                            TxRes::Frag(..) => {
                                let lw = parsed.as_ref().map(|p| p.label.len()).unwrap_or(0);
                                if 2 + lw + len <= 4095 && buf_len >= 4 + lw + len {
                                    if ex.report(Violation::new("C01", "C01.must_be_complete", format!("frag:label_written{}", lw), format!("pdu {} label written {} buffer {}: fragmented although it fits a complete packet", len, lw, buf_len))) {
                                        stop!();
                                    }
                                }
                            }
                            TxRes::Err(e) => {
                                let lf = lab.len();
                                if 2 + lf + len <= 4095 && buf_len >= 4 + lf + len {
                                    if ex.report(Violation::new("C01", "C01.must_be_complete", format!("err:{:?}", e), format!("pdu {} label {} buffer {}: {:?} although it fits a complete packet", len, lab.short(), buf_len, e))) {
                                        stop!();
                                    }
                                }
                                if *e == EncapError::ErrorSizeBuffer && buf_len >= 13 {
                                    if ex.report(Violation::new("C02", "C02.rejects_13_byte_buffer", "encap", format!("buffer {} rejected (pdu {})", buf_len, len))) {
                                        stop!();
                                    }
                                } else if buf_len >= 13 && len + 2 + lab.len() <= 65535 {
                                    if ex.report(Violation::new("C02", "C02.fitting_pdu_refused", format!("encap:{:?}", e), format!("pdu {} + 2 + label {} fits the 16-bit total length, buffer {}: {:?}", len, lab.len(), buf_len, e))) {
                                        stop!();
                                    }
                                }
                            }
                            _ => {}
                        }
                    }
                    let parsed = match (res.n(), parsed) {
                        (Some(_), Some(p)) => p,
                        (Some(_), None) => {
                            // emitted, but the monitor could not decide (chain outside the property's domain):
                            // the packet is not forwarded, so both label memories restart (as at a frame boundary)
                            ex.st.inc("undecided_emission_not_forwarded");
                            enc.reset_last_label();
                            led.reset();
                            rx.reset();
                            if let Some(b) = bare.as_mut() {
                                b.reset_last_label();
                            }
                            continue;
                        }
                        _ => {
                            ex.st.inc("tx_err");
                            continue;
                        }
                    };
                    // C15 + ledger
                    let run_before = led.run;
                    if let Some(v) = led.observe(&lab, parsed.lt) {
                        if ex.report(v) {
                            stop!();
                        }
                    }
                    if led.run >= 254 && led.run > run_before {
                        ex.st.inc("probe.reuse_run_of_254_or_more_lockstep");
                    }
                    if led.max >= 254 && run_before == led.max as u32 && led.run == 0 && lab.is_addr() && led.last == Some(lab) {
                        ex.st.inc("probe.full_label_after_max_254_255_lockstep");
                    }
                    if parsed.lt == LT_REUSE && lab.is_addr() {
                        ex.st.inc("probe.substituted_reuse");
                        if parsed.kind == Kind::First {
                            ex.st.inc("probe.substituted_first_fragment");
                        }
                    }
                    if parsed.gse_len == 4095 {
                        ex.st.inc("probe.gse_len_4095");
                    }
                    // C11 first-fragment context
                    if let Some(v) = mon::check_c11_first(&res, &parsed, fid, buf_len, !exts.is_empty(), &pdu, &buf) {
                        if ex.report(v) {
                            stop!();
                        }
                    }
                    let n = res.n().unwrap();
                    // flight bookkeeping
                    stream_no += 1;
                    // reach of the extension domain (C13): what kinds of chains were accepted by encap_ext
                    if !exts.is_empty() {
                        ex.st.inc(match exts.len() {
                            1 => "probe.ext.chain_of_1",
                            2 => "probe.ext.chain_of_2",
                            3 => "probe.ext.chain_of_3",
                            _ => "probe.ext.chain_of_4_or_more",
                        });
                        for (i, (id, d)) in exts.iter().enumerate() {
                            ex.st.inc(match id >> 8 {
                                0 if i + 1 == exts.len() && *id == ptype && !d.is_empty() => "probe.ext.final_mandatory_with_data",
                                0 if i + 1 == exts.len() && *id == ptype => "probe.ext.final_mandatory_without_data",
                                0 if !d.is_empty() => "probe.ext.non_final_mandatory_with_data",
                                0 => "probe.ext.non_final_mandatory_without_data",
                                1 => "probe.ext.optional_hlen_1",
                                2 => "probe.ext.optional_hlen_2",
                                3 => "probe.ext.optional_hlen_3",
                                4 => "probe.ext.optional_hlen_4",
                                _ => "probe.ext.optional_hlen_5",
                            });
                        }
                        if parsed.kind == Kind::First {
                            ex.st.inc("probe.ext.fragmented");
                            if parsed.payload.is_empty() {
                                ex.st.inc("probe.ext.first_fragment_ends_with_the_chain");
                            }
                        }
                        if lab == Lab::ReUse {
                            ex.st.inc("probe.ext.explicit_re_use_label");
                        }
                        if parsed.lt == LT_REUSE && lab.is_addr() {
                            ex.st.inc("probe.ext.substituted_re_use_label");
                        }
                        if len + 2 + lab.len() >= 65_530 {
                            ex.st.inc("probe.ext.total_length_near_65535");
                        }
                    }
                    // receiver-side preconditions
                    let mut tainted = false;
                    let mut must_reject = false;
                    if len > maxpdu {
                        tainted = true;
                    }
                    {
                        // buffers the application made available minus those legitimately in use; buffers the
                        // library lost are *not* subtracted: a leak must not excuse a later non-delivery
                        let g = rx.led.borrow();
                        let free_expected = (accepted_bufs as i64) - (g.n_attached() as i64) - (rx.app.len() as i64);
                        let slot_has = parsed.kind == Kind::First && g.attached_ids().iter().any(|i| *i as usize % slots == fid as usize % slots);
                        if free_expected <= 0 && !slot_has {
                            tainted = true;
                        }
                    }
                    for (id, d) in &exts {
                        if *id < 0x100 {
                            let txm = if Some(id) == exts.last().map(|e| &e.0) && *id == ptype { MExt::Final(d.len() as u8) } else { MExt::NonFinal(d.len() as u8) };
                            match table.lookup(*id) {
                                MExt::Unknown => must_reject = true,
                                m if m != txm => tainted = true,
                                _ => {}
                            }
                        }
                    }
                    if intended.is_none() {
                        must_reject = true;
                    }
                    // a first fragment claims its slot: older flights in that slot lose their context
                    if parsed.kind == Kind::First {
                        for f in flights.iter_mut() {
                            if f.fid as usize % slots == fid as usize % slots {
                                f.tainted = true;
                                if f.fid == fid {
                                    ex.st.inc("probe.restart_same_fid");
                                } else {
                                    ex.st.inc("probe.first_fragment_claims_aliased_slot");
                                }
                            }
                        }
                        // the sender abandons a PDU whose id is reused (it may still emit its remaining fragments: `cont ab=1`)
                        for f in flights.iter_mut() {
                            if f.fid == fid {
                                f.abandoned = true;
                                f.tainted = true;
                            }
                        }
                        {
                            let mut i = 0;
                            while i < flights.len() {
                                if flights[i].abandoned {
                                    let f = flights.remove(i);
                                    abandoned.push(f);
                                    if abandoned.len() > 3 {
                                        abandoned.remove(0);
                                    }
                                } else {
                                    i += 1;
                                }
                            }
                        }
                    }
                    let mut pkt = buf[..n].to_vec();
                    let mut clean = true;
                    if flip > 0 {
                        let bit = (flip - 1) % (pkt.len() * 8);
                        pkt[bit / 8] ^= 0x80 >> (bit % 8);
                        clean = false;
                        tainted = true;
                        ex.st.inc("fault.flip");
                    }
                    let ctx = match &res {
                        TxRes::Frag(_, c) => Some(*c),
                        _ => None,
                    };
                    let fl = Flight {
                        pdu,
                        ptype,
                        intended,
                        // a protocol type below 0x0100 passed to plain encap is a final mandatory extension without
                        // data standing for the protocol type: a receiver that knows it reports it as such
                        exts: if exts.is_empty() && ptype < 0x100 { vec![(ptype, vec![])] } else { exts.clone() },
                        fid,
                        ctx: ctx.unwrap_or(ContextFrag::new(fid, 0, 0)),
                        tainted,
                        must_reject,
                        optional,
                        total_len: parsed.total_len.unwrap_or(0),
                        written_label: parsed.label.clone(),
                        first_payload: parsed.payload.len(),
                        calls_ge13: 0,
                        stream_no,
                        has_ext: !exts.is_empty(),
                        abandoned: false,
                    };
                    if parsed.kind == Kind::First && parsed.payload.is_empty() {
                        ex.st.inc("probe.zero_payload_first_fragment");
                    }
                    if fl.total_len == 65535 {
                        ex.st.inc("probe.total_len_65535");
                    }
                    flights.push(fl);
                    let fi = flights.len() - 1;
                    merge.u(stream_no as u64);
                    merge_seq.push(stream_no);
                    if last_stream.is_some() && last_stream != Some(stream_no) {
                        switches += 1;
                    }
                    last_stream = Some(stream_no);
                    deliver!(&pkt, Some(fi), clean, false, false);
                    if ctx.is_none() {
                        flights.remove(fi);
                    }
                }
                "cont" => {
                    // ab=1: continue a transfer the sender has abandoned (its frag id was taken by a newer PDU)
                    if op.get_u("ab") == 1 {
                        if abandoned.is_empty() {
                            continue;
                        }
                        let ix = op.get_u("fl") as usize % abandoned.len();
                        let f = abandoned.remove(ix);
                        // two transfers on one frag id: the receiver can not tell their fragments apart, so the newer
                        // transfer on that id (or on its slot) has no delivery expectation any more
                        for g in flights.iter_mut() {
                            if g.fid as usize % slots == f.fid as usize % slots {
                                g.tainted = true;
                            }
                        }
                        flights.push(f);
                        ex.st.inc("probe.abandoned_transfer_continued");
                    }
                    if flights.is_empty() {
                        continue;
                    }
                    let fi = if op.get_u("ab") == 1 { flights.len() - 1 } else { op.get_u("fl") as usize % flights.len() };
                    let buf_len = (op.get_u("buf") as usize).min(70_000);
                    let flip = op.get_u("flip") as usize;
                    let before = canary(buf_len, opi as u8);
                    let mut buf = before.clone();
                    let ctx = flights[fi].ctx;
                    let prev = tx_frag_preview(&flights[fi].pdu, &ctx, &before);
                    let res = tx_encap_frag(&enc, &flights[fi].pdu, &ctx, &mut buf);
                    ex.st.inc("lib_calls");
                    ex.log.s(res.class());
                    ex.log.u(res.n().unwrap_or(0) as u64);
                    if let TxRes::Panic(m, l) = &res {
                        ex.st.inc("aborted_by_panic");
                        let _ = ex.report(Violation::new("C09", "C09.panic", format!("encap_frag:{}", crate::core::panic_site(m, l)), format!("{} at {}", m, l)));
                        stop!();
                    }
                    let f = &flights[fi];
                    let em = Emitted { call: Call::EncapFrag, pdu: &f.pdu, ptype: f.ptype, label: Lab::ReUse, fid: f.fid, exts: &[], ctx: Some(ctx), before: &before, after: &buf, res: &res };
                    let (v6, parsed) = mon::check_c06(&em);
                    // bytes written behind a well-formed packet concern C06 alone: reported there, and the packet goes on
                    // through every other oracle as the well-formed packet it is
                    let v6 = match v6 {
                        Some(v) if v.clause == "C06.wrote_beyond_reported_length" => {
                            if ex.report(v) {
                                stop!();
                            }
                            None
                        }
                        other => other,
                    };
                    ex.st.inc(mon::c18_cell(Call::EncapFrag, &prev, &res, parsed.as_ref(), false));
                    if let Some(v) = mon::check_c18(Call::EncapFrag, &prev, &res, parsed.as_ref(), false, f.ptype, buf_len, f.pdu.len()) {
                        if ex.report(v) {
                            stop!();
                        }
                    }
                    if let Some(v) = v6 {
                        let (site, detail) = (v.site.clone(), v.detail.clone());
                        let _ = ex.report(v);
                        if let Some(n) = res.n() {
                            if n <= buf.len() && !flights[fi].tainted && !flights[fi].must_reject {
                                let r = rx.decap(&buf[..n]);
                                let want = if matches!(res, TxRes::Complete(_)) { "completed" } else { "fragmented" };
                                if !(r.class() == want && r.consumed() == Some(n)) {
                                    let prop_rt: &'static str = if flights[fi].has_ext { "C13" } else { "C02" };
                                    let _ = ex.report(Violation::new(prop_rt, if prop_rt == "C02" { "C02.not_delivered" } else { "C13.not_delivered" }, format!("malformed_emission:{}", site), format!("the packet reported by encap_frag ({} bytes) is not accepted by the receiver as {} ({}): {}", n, want, r.class(), detail)));
                                }
                            }
                        }
                        if ex.target == "C10" {
                            if let Some(n) = res.n() {
                                if n <= buf.len() {
                                    if let Some(d) = frame_walk_after(&buf[..n]) {
                                        let _ = ex.report(Violation::new("C10", "C10.emitted_packet_breaks_frame_walk", format!("encap_frag:{}", mon::size_regime(buf_len, flights[fi].pdu.len())), d));
                                    }
                                }
                            }
                        }
                        ex.st.inc("aborted_by_malformed_emission");
                        stop!();
                    }
                    if let Some(v) = mon::check_c11_cont(&f.pdu, &ctx, buf_len, &res, parsed.as_ref(), &buf) {
                        if ex.report(v) {
                            stop!();
                        }
                    }
                    if buf_len >= 13 {
                        flights[fi].calls_ge13 += 1;
                        if let TxRes::Err(EncapError::ErrorSizeBuffer) = &res {
                            if ex.report(Violation::new("C02", "C02.rejects_13_byte_buffer", "encap_frag", format!("buffer {} rejected", buf_len))) {
                                stop!();
                            }
                        } else if let TxRes::Err(e) = &res {
                            // the context came from the library itself and the PDU fits the total length: nothing
                            // but a too-small buffer can stand between this transfer and its completion
                            if ex.report(Violation::new("C02", "C02.continuation_refused", format!("encap_frag:{:?}", e), format!("encap_frag refused a {}-byte buffer with {:?} for a transfer in progress ({} of {} bytes sent)", buf_len, e, ctx.len_pdu_frag(), flights[fi].pdu.len()))) {
                                stop!();
                            }
                        }
                        let f = &flights[fi];
                        let bound = 1 + (f.pdu.len() - f.first_payload.min(f.pdu.len())) as u32 + 1;
                        if f.calls_ge13 > bound {
                            if ex.report(Violation::new("C02", "C02.no_completion_within_bound", "encap_frag", format!("{} calls with >=13-byte buffers, bound {}", f.calls_ge13, bound))) {
                                stop!();
                            }
                        }
                    }
                    let n = match res.n() {
                        Some(n) => n,
                        None => {
                            ex.st.inc("tx_err");
                            continue;
                        }
                    };
                    let parsed = parsed.unwrap();
                    if parsed.kind == Kind::End && parsed.payload.is_empty() {
                        ex.st.inc("probe.crc_only_end_packet");
                    }
                    if parsed.gse_len == 4095 {
                        ex.st.inc("probe.gse_len_4095");
                    }
                    let mut pkt = buf[..n].to_vec();
                    let mut clean = true;
                    if flip > 0 {
                        let bit = (flip - 1) % (pkt.len() * 8);
                        pkt[bit / 8] ^= 0x80 >> (bit % 8);
                        clean = false;
                        flights[fi].tainted = true;
                        ex.st.inc("fault.flip");
                    }
                    let sn = flights[fi].stream_no;
                    merge.u(sn as u64);
                    merge_seq.push(sn);
                    if last_stream.is_some() && last_stream != Some(sn) {
                        switches += 1;
                    }
                    last_stream = Some(sn);
                    let done = matches!(res, TxRes::Complete(_));
                    if let TxRes::Frag(_, c2) = &res {
                        flights[fi].ctx = *c2;
                    }
                    deliver!(&pkt, Some(fi), clean, false, false);
                    if done {
                        flights.remove(fi);
                    }
                }
                "crc" => {
                    // the calculator on its own, on inputs neither party would pass it (PDUs of 0..3 bytes, total
                    // lengths unrelated to the data, protocol types of any range): "for every input"
                    let len = (op.get_u("len") as usize).min(65_535);
                    let pdu = pdu_bytes(len, op.get_u("seed"));
                    let label = op.get_h("label");
                    let rc = RecCrc::new(true);
                    use dvb_gse_rust::crc::CrcCalculator;
                    let r = crate::core::guarded(|| rc.calculate_crc32(&pdu, op.get_u("ptype") as u16, op.get_u("total") as u16, label));
                    ex.st.inc("lib_calls");
                    ex.st.inc("probe.crc_called_directly");
                    if len < 4 {
                        ex.st.inc("probe.crc_of_pdu_shorter_than_4_bytes");
                    }
                    match r {
                        Err((m, l)) => {
                            if ex.report(Violation::new("C12", "C12.default_crc_panics", crate::core::panic_site(&m, &l), format!("{} at {} (pdu {} bytes, label {} bytes)", m, l, len, label.len()))) {
                                stop!();
                            }
                        }
                        Ok(_) => {
                            let calls: Vec<CrcCall> = std::mem::take(&mut rc.log.borrow_mut().calls);
                            for c in calls {
                                ex.st.inc("crc_calls");
                                ex.log.u(c.result as u64);
                                if c.result != c.expected {
                                    let v = Violation::new("C12", "C12.default_crc_value", format!("direct:label{}:{}", c.label.len(), if c.pdu_len == 0 { "empty" } else { "nonempty" }), format!("DefaultCrc returned {:08x}, reference {:08x} (pdu {} bytes, ptype {:#06x}, total {})", c.result, c.expected, c.pdu_len, c.ptype, c.total_len));
                                    if ex.report(v) {
                                        stop!();
                                    }
                                }
                            }
                            for r in rc.log.borrow().reach.iter() {
                                ex.st.cov("crc_table_index_x_position_class", *r as u64);
                            }
                        }
                    }
                }
                "stray" => {
                    if op.has("matrix") {
                        ex.st.inc("enumerated_stray_position_kind_runs");
                    }
                    // harness-made packet, not produced by the sender
                    let kind = match op.get_u("kind") % 4 {
                        0 => Kind::Complete,
                        1 => Kind::First,
                        2 => Kind::Inter,
                        _ => Kind::End,
                    };
                    let fid = op.get_u("fid") as u8;
                    let len = (op.get_u("len") as usize).min(4000);
                    let payload = pdu_bytes(len, op.get_u("seed"));
                    let lab = Lab::dec(op.get_h("lab"));
                    let d = Desc { kind, lt: if matches!(kind, Kind::Inter | Kind::End) { LT_REUSE } else { lab.lt() }, frag_id: fid, total_len: op.get_u("total") as u16, ptype: 0x0800, label: lab.bytes(), exts: &[], final_mandatory: false, payload: &payload, crc: op.get_u("crc") as u32 };
                    let pkt = wire::serialise(&d, None);
                    // effect on flights: same id => legitimately altered; a first fragment claims its slot
                    for f in flights.iter_mut() {
                        let same = f.fid == fid;
                        let alias = f.fid as usize % slots == fid as usize % slots;
                        match kind {
                            Kind::Inter | Kind::End => {
                                if same {
                                    f.tainted = true;
                                } else if alias {
                                    ex.st.inc("probe.aliasing_stray_on_open_slot");
                                }
                            }
                            Kind::First => {
                                if alias {
                                    f.tainted = true;
                                    ex.st.inc("probe.first_fragment_claims_aliased_slot");
                                }
                            }
                            Kind::Complete => {}
                        }
                    }
                    // start/complete strays move the label memories of the receiver only: the sender's
                    // substituted re-use packets would now resolve differently -> taint label expectations
                    // A start/complete stray carries its own label (the receiver's memory legitimately changes) and a
                    // malformed continuation stray legitimately clears it: the sender, which knows nothing about strays,
                    // is re-synchronised around those (equivalent to a frame boundary). A well-formed continuation stray
                    // of an unknown or aliasing id must leave label re-use intact (C07): no re-synchronisation.
                    let changes_labels = matches!(kind, Kind::Complete | Kind::First) || (kind == Kind::Inter && len == 0);
                    if changes_labels {
                        enc.reset_last_label();
                        led.reset();
                        rx.reset();
                        if let Some(b) = bare.as_mut() {
                            b.reset_last_label();
                        }
                    }
                    ex.st.inc("fault.stray");
                    ex.st.inc(match kind {
                        Kind::Complete => "fault.stray_complete",
                        Kind::First => "fault.stray_first",
                        Kind::Inter => "fault.stray_inter",
                        Kind::End => "fault.stray_end",
                    });
                    merge.u(1000 + kind as u64);
                    deliver!(&pkt, None, false, changes_labels, changes_labels);
                }
                "frame" => {
                    ex.st.inc("frames");
                    if let Some(w) = walker.as_mut() {
                        let pad = (op.get_u("pad") as usize).min(9000);
                        let tail = op.get_h("tail");
                        let mut fr = frame.clone();
                        fr.extend(std::iter::repeat(0u8).take(pad));
                        fr.extend_from_slice(tail);
                        if walker_ok {
                            let mut off = 0usize;
                            let mut ix = 0usize;
                            walked_max = walked_max.max(frame_pkts.len());
                            while ix < frame_pkts.len() {
                                let (o, l, iso, clean, resync, resync_before) = frame_pkts[ix].clone();
                                if resync_before {
                                    w.reset();
                                }
                                if off != o {
                                    break;
                                }
                                let pk = w.peek(&fr[off..]);
                                if let Err((m, l)) = &pk {
                                    if ex.report(Violation::new("C19", "C19.peek_panic", crate::core::panic_site(m, l), format!("{} at {}", m, l))) {
                                        stop!();
                                    }
                                }
                                let r = w.decap(&fr[off..]);
                                ex.st.inc("lib_calls");
                                let (obs, _) = observe(&r);
                                ex.log.s(obs.class);
                                ex.log.u(obs.consumed as u64);
                                let (kind, lt, _) = wire::header(&fr[off..]).unwrap();
                                let site = format!("{}:lt{}:{}{}", kind.name(), lt, iso.class, if iso.err.is_empty() { String::new() } else { format!(":{}", iso.err) });
                                if obs.class == "panic" {
                                    ex.st.inc("aborted_by_panic");
                                    let _ = ex.report(Violation::new("C05", "C05.panic", format!("decap:{}", obs.err), "panic in frame walk".to_string()));
                                    stop!();
                                }
                                // C19: peek on a packet followed by further bytes equals peek on the packet alone
                                if clean {
                                    let alone = w.peek(&fr[off..off + l]);
                                    if let (Ok(a), Ok(b)) = (&alone, &pk) {
                                        if a != b {
                                            if ex.report(Violation::new("C19", "C19.peek_depends_on_following_bytes", format!("{}:lt{}", kind.name(), lt), format!("alone {:?}, in frame {:?}", a, b))) {
                                                stop!();
                                            }
                                        }
                                    }
                                }
                                let frame_level = obs.class == "err" && !per_packet_rejection(&obs.err);
                                let same = obs.class == iso.class && obs.err == iso.err && obs.label == iso.label && obs.ptype == iso.ptype && obs.pdu_len == iso.pdu_len && obs.pdu_hash == iso.pdu_hash && obs.exts == iso.exts;
                                if !same && clean {
                                    if ex.target == "C07" {
                                        if ex.report(Violation::new("C07", "C07.frame_walk_loses_packets", site.clone(), format!("a sender-produced packet is treated differently when walked in a frame that also carries strays: alone {} {} ; in frame at offset {}: {} {}", iso.class, iso.err, off, obs.class, obs.err))) {
                                            stop!();
                                        }
                                    }
                                    if ex.report(Violation::new("C10", "C10.outcome_depends_on_following_bytes", site.clone(), format!("alone: {} {} ; in frame at offset {}: {} {}", iso.class, iso.err, off, obs.class, obs.err))) {
                                        stop!();
                                    }
                                    walker_ok = false;
                                    absorb(w, r);
                                    break;
                                }
                                if !same {
                                    // corrupted packet whose fate depends on trailing bytes: allowed, stop comparing
                                    walker_ok = false;
                                    ex.st.inc("walker_desync_after_corrupt_packet");
                                    absorb(w, r);
                                    break;
                                }
                                if obs.consumed != l && ex.target == "C07" && (obs.class != "err" || per_packet_rejection(&obs.err)) && obs.consumed > l {
                                    // a stray (or any packet) rejected per packet must not swallow the packets that follow it
                                    if ex.report(Violation::new("C07", "C07.frame_walk_loses_packets", site.clone(), format!("packet of {} bytes at offset {} ({} {}) consumed {} bytes of the frame: the packets of other reassemblies behind it are lost", l, off, obs.class, obs.err, obs.consumed))) {
                                        stop!();
                                    }
                                }
                                if obs.consumed != l {
                                    // a corrupted length field changes the packet's own length: compare with the isolated run
                                    // (SizePduBuffer is used both per packet (oversize) and per frame (truncated extension chain): ambiguous on corrupted packets)
                                    if clean || (!frame_level && obs.class != "padding" && obs.err != "SizePduBuffer" && obs.consumed != iso.consumed) {
                                        if ex.report(Violation::new("C10", "C10.consumed_ne_own_length", site.clone(), format!("packet of {} bytes at offset {}, consumed {} (frame {} bytes)", l, off, obs.consumed, fr.len()))) {
                                            stop!();
                                        }
                                    }
                                    walker_ok = false;
                                    ex.st.inc("walker_desync_frame_level_error");
                                    absorb(w, r);
                                    break;
                                }
                                if obs.class == "err" {
                                    ex.st.inc("probe.rejected_packet_walked");
                                    // per rejection class named by C10, and only when packets follow in the frame
                                    if ix + 1 < frame_pkts.len() {
                                        ex.st.inc(match obs.err.as_str() {
                                            "Crc" => "probe.rejected_then_walked_on.bad_crc",
                                            "Mem.UndefinedId" => "probe.rejected_then_walked_on.unknown_fragment_id",
                                            "Mem.Underflow" => "probe.rejected_then_walked_on.no_storage",
                                            "SizePduBuffer" => "probe.rejected_then_walked_on.storage_too_small",
                                            "UnknownMandatoryHeader" => "probe.rejected_then_walked_on.unknown_mandatory_extension",
                                            "NoLabelSaved" => "probe.rejected_then_walked_on.unresolvable_re_use_label",
                                            "TotalLength" => "probe.rejected_then_walked_on.total_length",
                                            _ => "probe.rejected_then_walked_on.other",
                                        });
                                    }
                                }
                                absorb(w, r);
                                if resync {
                                    w.reset();
                                }
                                off += l;
                                ix += 1;
                            }
                            if walker_ok && ix == frame_pkts.len() && tail.is_empty() && pad >= 2 {
                                let r = w.decap(&fr[off..]);
                                ex.st.inc("lib_calls");
                                let (obs, _) = observe(&r);
                                if obs.class != "padding" || obs.consumed != fr.len() - off {
                                    if ex.report(Violation::new("C10", "C10.padding", format!("{}:{}", obs.class, obs.err), format!("{} zero bytes after the last packet: {} {} consumed {}", pad, obs.class, obs.err, obs.consumed))) {
                                        stop!();
                                    }
                                }
                                ex.st.inc("probe.padding_walked");
                                absorb(w, r);
                            }
                        }
                        w.reset();
                    }
                    frame.clear();
                    frame_pkts.clear();
                    enc.reset_last_label();
                    led.reset();
                    rx.reset();
                    if let Some(b) = bare.as_mut() {
                        b.reset_last_label();
                    }
                }
                "prov" => {
                    // the application tops the receiver's storage up (also while reassemblies are pending: the free
                    // list can then be full although slots hold buffers)
                    if let Ok(true) = rx.provision(maxpdu) {
                        accepted_bufs += 1;
                        ex.st.inc("probe.storage_topped_up_mid_run");
                    } else {
                        ex.st.inc("probe.top_up_refused_free_list_full");
                        // a refused buffer stays with the application: it is not part of the receiver's storage
                        rx.app.pop();
                    }
                    if let Some(w) = walker.as_mut() {
                        if w.provision(maxpdu) != Ok(true) {
                            w.app.pop();
                        }
                    }
                    if let Some(b) = bare.as_mut() {
                        b.provision_drop_refused(maxpdu);
                    }
                }
                "enable" => {
                    enc.enable_re_use_label();
                    led.cfg(true, 0);
                }
                "disable" => {
                    enc.disable_re_use_label();
                    led.cfg(false, 0);
                }
                "max" => {
                    let n = op.get_u("n") as u8;
                    enc.enable_re_use_label_with_max_consecutive(n);
                    led.cfg(true, n);
                }
                _ => {}
            }
            // abstract state coverage
            {
                let g = rx.led.borrow();
                let mut sh = H64::new();
                sh.u(led.enabled as u64);
                sh.u((led.max.min(3)) as u64);
                sh.u(match led.last {
                    None => 0,
                    Some(Lab::L6(_)) => 1,
                    Some(Lab::L3(_)) => 2,
                    _ => 3,
                });
                sh.u(g.n_attached() as u64);
                sh.u((g.n_inside() - g.n_attached()).min(6) as u64);
                sh.u(flights.len().min(5) as u64);
                ex.st.cov("state", sh.0);
            }
            let _ = nops;
        }
        ex.st.cov("merge", merge.0);
        if target == "C07" && merge_seq.len() <= 6 {
            // canonical merge words of the small shapes (streams numbered by first appearance): 3+10+10+15 = 38
            let mut ids: Vec<u32> = vec![];
            let mut word: Vec<u8> = vec![];
            for s in &merge_seq {
                let ix = match ids.iter().position(|x| x == s) {
                    Some(i) => i,
                    None => {
                        ids.push(*s);
                        ids.len() - 1
                    }
                };
                word.push(ix as u8);
            }
            let mut counts: Vec<usize> = (0..ids.len()).map(|i| word.iter().filter(|w| **w as usize == i).count()).collect();
            counts.sort();
            if matches!(counts.as_slice(), [2, 2] | [2, 3] | [3, 3] | [2, 2, 2]) && flights.iter().all(|f| f.abandoned) {
                let mut h = H64::new();
                h.b(&word);
                ex.st.cov("merge_small_shapes_canonical_of_38", h.0);
            }
        }
        if keep_crc {
            for r in txlog.borrow().reach.iter().chain(rx.crc.borrow().reach.iter()) {
                ex.st.cov("crc_table_index_x_position_class", *r as u64);
            }
        }
        if target == "C04" || target == "C15" {
            ex.st.cov("history5", hist5.0);
        }
        ex.st.nontrivial = match target {
            "C07" => compared >= 1 && stream_no >= 2 && switches >= 1,
            "C10" => walked_max >= 2,
            "C13" => compared_ext >= 1,
            _ => compared >= 1,
        };
        ex.st.add("compared_packets", compared as u64);
        ex.st.log = ex.log.0;
        ex.viol.take()
    }
}

/// C10 consequence of an emission the wire monitor rejected: lay the reported bytes in a frame, followed by a
/// well-formed complete packet and padding, and walk it with a fresh receiver. The following packet must be seen.
fn frame_walk_after(reported: &[u8]) -> Option<String> {
    let good_payload = [0xC1u8, 0xC2, 0xC3];
    let good = wire::serialise(&Desc { kind: Kind::Complete, lt: LT_BCAST, frag_id: 0, total_len: 0, ptype: 0x0800, label: &[], exts: &[], final_mandatory: false, payload: &good_payload, crc: 0 }, None);
    let mut fr = reported.to_vec();
    fr.extend_from_slice(&good);
    fr.extend_from_slice(&[0, 0, 0, 0]);
    let mut w = RxNode::new(2, 70_000, ExtTable::default(), false);
    for _ in 0..3 {
        let _ = w.provision(70_000);
    }
    let r1 = w.decap(&fr);
    let c1 = match r1.consumed() {
        Some(c) => c,
        None => return Some("decap panicked on the emitted bytes".to_string()),
    };
    let d1 = format!("{} consumed {}", r1.class(), c1);
    absorb(&mut w, r1);
    if c1 != reported.len() {
        return Some(format!("the receiver consumes {} bytes for a packet the sender reported as {} bytes ({}): the packet laid behind it is not found", c1, reported.len(), d1));
    }
    match w.decap(&fr[c1..]) {
        RxRes::Ok(DecapStatus::CompletedPkt(b, md), n) if n == good.len() && md.pdu_len() == 3 && b[..3] == good_payload => None,
        other => Some(format!("after the emitted packet ({}) the next packet of the frame is not delivered: {}", d1, other.class())),
    }
}

pub mod gen {
    use super::*;

    pub const L6A: Lab = Lab::L6([0x02, 0x11, 0x22, 0x33, 0x44, 0x55]);
    pub const L6B: Lab = Lab::L6([0xDE, 0xAD, 0xBE, 0xEF, 0x00, 0x01]);
    pub const L3A: Lab = Lab::L3([0x0A, 0x0B, 0x0C]);
    pub const L3B: Lab = Lab::L3([0x00, 0x00, 0x01]);

    pub fn label(rng: &mut Rng, with_reuse: bool) -> Lab {
        if rng.chance(1, 12) {
            return special_label(rng);
        }
        let n = if with_reuse { 6 } else { 5 };
        match rng.below(n) {
            0 => L6A,
            1 => L6B,
            2 => L3A,
            3 => L3B,
            4 => Lab::Bcast,
            _ => Lab::ReUse,
        }
    }
    pub fn special_label(rng: &mut Rng) -> Lab {
        match rng.below(6) {
            0 => Lab::L3([0, 0, 0]),
            1 => Lab::L6([0, 0, 0, 0, 0, 1]),
            2 => Lab::L6([0xFF; 6]),
            3 => Lab::L3([0xFF; 3]),
            4 => Lab::L6([0x80, 0, 0, 0, 0, 0]),
            _ => Lab::L3([0, 0, 0x80]),
        }
    }
    pub fn addr_label(rng: &mut Rng) -> Lab {
        if rng.chance(1, 8) {
            return special_label(rng);
        }
        match rng.below(5) {
            0 => L6A,
            1 => L6B,
            2 => L3A,
            3 => L3B,
            _ => {
                if rng.chance(1, 2) {
                    let b = rng.bytes(6);
                    let mut a = [0u8; 6];
                    a.copy_from_slice(&b);
                    a[0] |= 1;
                    Lab::L6(a)
                } else {
                    let b = rng.bytes(3);
                    Lab::L3([b[0], b[1], b[2]])
                }
            }
        }
    }
    pub fn ptype(rng: &mut Rng) -> u16 {
        match rng.below(6) {
            0 => 0x0600,
            1 => 0xFFFF,
            2 => 0x0800,
            3 => 0x86DD,
            _ => rng.range(0x0600, 0xFFFF) as u16,
        }
    }
    /// PDU length classes for complete packets (label length l)
    pub fn len_complete(rng: &mut Rng, l: usize) -> usize {
        let top = 4093 - l;
        match rng.below(7) {
            0 => rng.usize_in(0, 3),
            1 => top - rng.usize_in(0, 8).min(top),
            2 => (4093 - rng.usize_in(0, 7)).min(4093),
            3 => rng.usize_in(1, 64),
            4 => rng.usize_in(0, top),
            5 => (top as i64 + rng.range(0, 16) as i64 - 8).clamp(0, 4100) as usize,
            _ => rng.usize_in(0, 1500),
        }
    }
    pub fn len_any(rng: &mut Rng, l: usize) -> usize {
        let top = 65533 - l;
        match rng.below(10) {
            0 => rng.usize_in(0, 20),
            1 => rng.usize_in(4080, 4110),
            2 => top - rng.usize_in(0, 6),
            3 => rng.usize_in(60_000, top),
            4 | 5 => rng.usize_in(20, 300),
            6 => rng.usize_in(300, 5000),
            7 => rng.usize_in(8000, 9000),
            _ => rng.usize_in(0, 2000),
        }
    }
    /// buffer-size classes for a call that still has `remaining` payload bytes to carry
    pub fn buf_size(rng: &mut Rng, remaining: usize, hdr: usize) -> usize {
        match rng.below(12) {
            0 => rng.usize_in(0, 6),
            1 => rng.usize_in(7, 16),
            2 | 3 => rng.usize_in(17, 200),
            4 => rng.usize_in(4089, 4105),
            5 => rng.usize_in(4098, 70_000),
            6 => hdr + remaining + rng.usize_in(0, 4),          // payload fits, CRC may not
            7 => (hdr + remaining).saturating_sub(rng.usize_in(1, 4)),
            8 => hdr + remaining + 4 + rng.usize_in(0, 3),      // exactly the end packet and a bit
            9 => rng.usize_in(200, 1500),
            10 => 13 + rng.usize_in(0, 3),
            _ => rng.usize_in(1500, 4097),
        }
    }

    fn submit(len: usize, seed: u64, ptype: u16, lab: &Lab, fid: u8, buf: usize, exts: &[(u16, Vec<u8>)]) -> Op {
        let mut o = Op::new("submit").u("len", len as u64).u("seed", seed).u("ptype", ptype as u64).h("lab", lab.enc()).u("fid", fid as u64).u("buf", buf as u64);
        if !exts.is_empty() {
            o = o.h("exts", enc_exts(exts));
        }
        o
    }
    fn cont(fl: usize, buf: usize) -> Op {
        Op::new("cont").u("fl", fl as u64).u("buf", buf as u64)
    }
    fn cfg(slots: usize, maxpdu: usize, nbuf: usize, mode: u64, table: &ExtTable) -> Op {
        // shadow / minsize are drawn from the run's own parameters (no PRNG here): a third of the lock-step runs carry
        // a shadow receiver on the bare types; the memory's minimum storage size is the buffer size, or well below it
        let k = (slots * 7 + maxpdu * 13 + nbuf * 3) as u64;
        let shadow = if mode == 0 && k % 3 == 0 { 1 } else { 0 };
        // two lock-step runs in five hand every clean packet to the receiver followed by further bytes
        let trail = if mode == 0 && k % 5 < 2 { 1 } else { 0 };
        let minsize = if k % 4 == 1 { (maxpdu / 3).max(1) } else { maxpdu };
        let mut o = Op::new("cfg").u("slots", slots as u64).u("maxpdu", maxpdu as u64).u("nbuf", nbuf as u64).u("mode", mode).u("shadow", shadow).u("minsize", minsize as u64).u("trail", trail);
        if !table.entries.is_empty() {
            o = o.h("table", enc_table(table));
        }
        o
    }

    pub fn opt_ext(rng: &mut Rng) -> (u16, Vec<u8>) {
        let h = rng.range(1, 5) as u16;
        let id = (h << 8) | rng.below(256) as u16;
        let n = wire::opt_ext_len(id).unwrap();
        (id, rng.bytes(n))
    }

    /// extension chain + protocol type + sender view table
    pub fn ext_chain(rng: &mut Rng, table: &mut ExtTable) -> (Vec<(u16, Vec<u8>)>, u16) {
        let n = rng.usize_in(1, 4);
        let mut exts = vec![];
        let final_mand = rng.chance(1, 3);
        for i in 0..n {
            let last = i + 1 == n;
            if last && final_mand {
                // final mandatory: id in a dedicated range 0x80..0x9F
                let id = 0x80 + rng.below(32) as u16;
                let dl = match table.lookup(id) {
                    MExt::Final(k) => k as usize,
                    _ => {
                        let k = rng.usize_in(0, 8);
                        table.entries.retain(|e| e.0 != id);
                        table.entries.push((id, MExt::Final(k as u8)));
                        k
                    }
                };
                exts.push((id, rng.bytes(dl)));
            } else if rng.chance(1, 4) {
                // non-final mandatory: ids 0x01..0x3F
                let id = 1 + rng.below(63) as u16;
                let dl = match table.lookup(id) {
                    MExt::NonFinal(k) => k as usize,
                    _ => {
                        let k = rng.usize_in(0, 8);
                        table.entries.retain(|e| e.0 != id);
                        table.entries.push((id, MExt::NonFinal(k as u8)));
                        k
                    }
                };
                exts.push((id, rng.bytes(dl)));
            } else {
                exts.push(opt_ext(rng));
            }
        }
        let pt = if final_mand { exts.last().unwrap().0 } else { ptype(rng) };
        (exts, pt)
    }

    pub fn generate(target: &str, idx: u64, rng: &mut Rng, tier: Tier) -> Program {
        let _ = tier;
        match target {
            "C01" => gen_c01(rng),
            "C12" if idx % 10 == 9 => {
                // the calculator alone, on arbitrary inputs
                let mut ops = vec![];
                for _ in 0..rng.usize_in(5, 40) {
                    let len = match rng.below(8) {
                        0 => rng.usize_in(0, 3),
                        1 => rng.usize_in(65_530, 65_535),
                        2 => rng.usize_in(4090, 4100),
                        _ => rng.usize_in(0, 300),
                    };
                    let ll = *rng.pick(&[0usize, 3, 6]);
                    let total = match rng.below(3) {
                        0 => (len + 2 + ll) as u64 & 0xFFFF,
                        1 => *rng.pick(&[0u64, 1, 0x00FF, 0x0100, 0x7FFF, 0x8000, 0xFFFF]),
                        _ => rng.below(65_536),
                    };
                    let ptype = match rng.below(3) {
                        0 => *rng.pick(&[0u64, 0x00FF, 0x0100, 0x05FF, 0x0600, 0x0800, 0xFFFF]),
                        _ => rng.below(65_536),
                    };
                    let label = match rng.below(4) {
                        0 => vec![0u8; ll],
                        1 => vec![0xFFu8; ll],
                        _ => rng.bytes(ll),
                    };
                    ops.push(Op::new("crc").u("len", len as u64).u("seed", rng.next()).u("ptype", ptype).u("total", total).h("label", label));
                }
                Program { scenario: "flow", cfg: cfg(1, 16, 1, 0, &ExtTable::default()), ops }
            }
            "C12" => {
                // extension-bearing fragmented PDUs (label possibly substituted) take another CRC call site
                match rng.below(7) {
                    0 | 1 => gen_c13(rng),
                    2 => gen_c07(rng, u64::MAX), // several streams, restarts on the same id with other metadata
                    3 => gen_c04(rng, false),    // re-use configuration changes (bounded re-use) around fragmented PDUs
                    _ => gen_c02(rng, target),
                }
            }
            "C11" => {
                if rng.chance(1, 4) {
                    gen_c13(rng)
                } else {
                    gen_c02(rng, target)
                }
            }
            "C02" | "C18" => gen_c02(rng, target),
            "C04" | "C15" => gen_c04(rng, target == "C15"),
            "C07" => gen_c07(rng, idx),
            "C10" => match rng.below(8) {
                // lock-step runs in which clean packets are followed by further bytes and a shadow receiver gets
                // them alone (see cfg: trail / shadow)
                0 => gen_c13(rng),
                1 => gen_c02(rng, "C02"),
                _ => gen_c10(rng),
            },
            // the peek is compared on every sender-produced packet of any lock-step run: frames (c10), extension
            // chains fragmented at every offset and long PDUs (c13), interleaved streams (c07), size corners (c02)
            "C19" => match rng.below(6) {
                0 | 1 => gen_c10(rng),
                2 | 3 => gen_c13(rng),
                4 => gen_c07(rng, u64::MAX),
                _ => gen_c02(rng, "C02"),
            },
            "C13" => gen_c13(rng),
            "C06" => match rng.below(4) {
                0 => gen_c01(rng),
                1 => gen_c13(rng),
                _ => gen_c02(rng, "C06"),
            },
            _ => gen_c02(rng, target),
        }
    }

    fn gen_c01(rng: &mut Rng) -> Program {
        let n = rng.usize_in(3, 40);
        let mut ops = vec![];
        let big_storage = rng.chance(1, 3);
        let mut maxlen = 1usize;
        let disabled = rng.chance(1, 3);
        if disabled {
            ops.push(Op::new("disable"));
        }
        let favourite = addr_label(rng);
        let mut deferred = 0usize;
        for _ in 0..n {
            match rng.below(12) {
                0 => ops.push(Op::new("frame")),
                1 => match rng.below(3) {
                    0 => ops.push(Op::new("enable")),
                    1 => ops.push(Op::new("disable")),
                    _ => ops.push(Op::new("max").u("n", *rng.pick(&[1u64, 2, 3, 255]))),
                },
                2 => {
                    // a refused call (encap or encap_ext: buffer too small / PDU too long) right before valid traffic
                    let lab = if rng.chance(2, 3) { favourite } else { label(rng, false) };
                    let e = [opt_ext(rng)];
                    let with_ext = rng.chance(1, 2);
                    let (len, buf) = if rng.chance(1, 2) { (rng.usize_in(0, 50), rng.usize_in(0, 8)) } else { (65_530 + rng.usize_in(0, 20), rng.usize_in(100, 5000)) };
                    ops.push(submit(len, rng.next(), ptype(rng), &lab, rng.below(256) as u8, buf, if with_ext { &e } else { &[] }));
                }
                _ => {
                    let lab = if rng.chance(1, 2) { favourite } else { label(rng, false) };
                    let l = lab.len();
                    let len = len_complete(rng, l);
                    // the label may be substituted (written length 0): exact size for either case
                    let exact = 4 + l + len;
                    let buf = match rng.below(8) {
                        0 => exact,
                        1 => exact + 1,
                        2 => 4 + len, // exact if substituted
                        3 => 4097,
                        4 => rng.usize_in(4098, 70_000),
                        5 => exact.saturating_sub(1),
                        _ => exact + rng.usize_in(0, 64),
                    };
                    maxlen = maxlen.max(len);
                    ops.push(submit(len, rng.next(), ptype(rng), &lab, rng.below(256) as u8, buf, &[]));
                    // finish a possible fragmentation (storage is released), usually at once, sometimes only after the
                    // next packets (end fragments then arrive between complete packets of other labels)
                    if rng.chance(3, 4) {
                        ops.push(cont(0, 4097));
                        ops.push(cont(0, 4097));
                    } else {
                        deferred += 2;
                    }
                    if deferred > 0 && rng.chance(1, 2) {
                        for _ in 0..deferred {
                            ops.push(cont(0, 4097));
                        }
                        deferred = 0;
                    }
                }
            }
        }
        let maxpdu = if big_storage { 70_000 } else { maxlen + rng.usize_in(0, 1) };
        let slots = rng.usize_in(1, 4);
        Program { scenario: "flow", cfg: cfg(slots, maxpdu.max(1), slots + 2, 0, &ExtTable::default()), ops }
    }

    fn gen_c02(rng: &mut Rng, target: &str) -> Program {
        let ntransfers = rng.usize_in(1, 4);
        let mut ops = vec![];
        let mut maxlen = 1usize;
        // a label "planted" while the previous transfer was in flight (see below): the next transfer carries it
        let mut planted: Option<Lab> = None;
        for _ in 0..ntransfers {
            let lab0 = match planted.take() {
                Some(p) => p,
                None => label(rng, false),
            };
            // all label kinds: one transfer in ten passes the explicit re-use marker (resolved by the small complete
            // packet sent just before it, which carries the label)
            let explicit_reuse = lab0.is_addr() && rng.chance(1, 10);
            let lab = if explicit_reuse { Lab::ReUse } else { lab0 };
            let l = lab.len();
            let big = rng.chance(1, 50);
            let len = if big {
                rng.usize_in(60_000, 65533 - l)
            } else if rng.chance(1, 40) {
                // the middle of the range
                rng.usize_in(9_000, 60_000)
            } else {
                len_any(rng, l).min(if rng.chance(9, 10) { 9000 } else { 65533 - l })
            };
            maxlen = maxlen.max(len);
            let fid = rng.below(256) as u8;
            let seed = rng.next();
            let pt = ptype(rng);
            // optionally make the first fragment's label a substituted re-use: send a small complete packet first
            if explicit_reuse || (lab.is_addr() && rng.chance(1, 4)) {
                ops.push(submit(rng.usize_in(0, 8), rng.next(), pt, &lab0, 0, 4097, &[]));
            }
            // first call; sometimes preceded by the same call on a buffer that is refused as too small (the transfer
            // then starts with the next buffer)
            if rng.chance(1, 8) {
                ops.push(submit(len, seed, pt, &lab, fid, rng.usize_in(0, 6 + l), &[]));
            }
            let mut b0 = buf_size(rng, len, 13);
            if target == "C18" && rng.chance(1, 8) {
                b0 = rng.usize_in(0, 70_000);
            }
            let ptx = if target == "C18" && rng.chance(1, 6) { rng.below(0x700) as u16 } else { pt };
            ops.push(submit(len, seed, ptx, &lab, fid, b0, &[]));
            // one transfer in eight: a small complete packet with an address label goes out between the first and the
            // later packets of this transfer, and the next transfer carries that label - its first fragment is then
            // written with the re-use label, which the receiver has to resolve to the label of that complete packet
            // whatever the end packet of this transfer (which carries no label) was the end of
            if rng.chance(1, 8) {
                let pl = *rng.pick(&[L6A, L6B, L3A, L3B]);
                ops.push(submit(rng.usize_in(0, 8), rng.next(), ptype(rng), &pl, fid.wrapping_add(1), 4097, &[]));
                planted = Some(pl);
            }
            // continuation schedule: enough calls to finish
            let mut est_rem = len as i64 - (b0 as i64 - 13).max(0);
            let mut guard = 0;
            while est_rem >= 0 && guard < 60 {
                let b = buf_size(rng, est_rem.max(0) as usize, 3);
                ops.push(cont(0, b));
                if b >= 3 {
                    est_rem -= (b as i64 - 3).min(4094).max(0);
                    if b as i64 - 3 >= est_rem + 4 + (b as i64 - 3).min(4094) {
                        // likely finished
                    }
                }
                guard += 1;
                if est_rem <= 0 && b >= 7 {
                    break;
                }
            }
            // safety net: big buffers finish whatever is left (clamped per packet by the sender)
            let extra = len / 997 + 3;
            for _ in 0..extra {
                ops.push(cont(0, if rng.chance(1, 2) { 4097 } else { rng.usize_in(1000, 70_000) }));
            }
            if planted.is_none() && rng.chance(1, 3) {
                ops.push(Op::new("frame"));
            }
        }
        // one slot per frag id (256) is a natural configuration: sampled rarely (258 buffers to provision)
        let slots = if rng.chance(1, 60) { 256 } else { rng.usize_in(1, 4) };
        let maxpdu = maxlen + rng.usize_in(0, 2);
        Program { scenario: "flow", cfg: cfg(slots, maxpdu, (slots + 2).min(8), 0, &ExtTable::default()), ops }
    }

    /// Saturating run (one run in forty): the same address label several hundred times in a row with re-use enabled and
    /// the maximum at 254 / 255 / a small value, so that the boundary packet (the one that has to carry the full label
    /// again, or the wrap of the 8-bit counter) is produced with the receiver attached; a few fragmented PDUs, failing
    /// calls and explicit re-use labels are sprinkled in, none of which may disturb the label either side remembers.
    fn gen_c04_saturating(rng: &mut Rng) -> Program {
        let lab = *rng.pick(&[L6A, L6B, L3A, L3B, Lab::L3([0, 0, 0])]);
        let other = *rng.pick(&[L6B, L3B, Lab::Bcast]);
        let mut ops = vec![Op::new("enable"), Op::new("max").u("n", *rng.pick(&[254u64, 255, 255, 254, 0, 3, 127, 128]))];
        let n = rng.usize_in(250, 530);
        let mut fid: u8 = rng.below(256) as u8;
        for i in 0..n {
            fid = fid.wrapping_add(1);
            match rng.below(60) {
                0 => ops.push(submit(5, rng.next(), ptype(rng), &lab, fid, rng.usize_in(0, 3), &[])), // fails: too small
                1 => ops.push(submit(5, rng.next(), ptype(rng), &Lab::ReUse, fid, 4097, &[])),          // explicit re-use
                2 => {
                    ops.push(submit(rng.usize_in(30, 90), rng.next(), ptype(rng), &lab, fid, 13 + rng.usize_in(4, 20), &[]));
                    ops.push(cont(0, 4097));
                    ops.push(cont(0, 4097));
                }
                3 if i > 200 && rng.chance(1, 4) => ops.push(submit(3, rng.next(), ptype(rng), &other, fid, 4097, &[])),
                _ => ops.push(submit(*rng.pick(&[0usize, 1, 3, 8]), rng.next(), ptype(rng), &lab, fid, 4097, &[])),
            }
        }
        for _ in 0..3 {
            ops.push(cont(0, 4097));
        }
        Program { scenario: "flow", cfg: cfg(8, 1100, 10, 0, &ExtTable::default()), ops }
    }

    fn gen_c04(rng: &mut Rng, long_runs: bool) -> Program {
        if rng.chance(1, 40) {
            return gen_c04_saturating(rng);
        }
        let n = if long_runs && rng.chance(1, 20) { rng.usize_in(300, 700) } else { rng.usize_in(3, 60) };
        let mut ops = vec![];
        // labels: the standard four, or (one run in three) a confusable set - same first three bytes, labels that
        // differ in their last byte only, the all-zero 3-byte label, a 6-byte label that starts with zeros
        let alphabet = if rng.chance(1, 3) {
            [Lab::L6([0x0A, 0x0B, 0x0C, 1, 2, 3]), Lab::L6([0x0A, 0x0B, 0x0C, 1, 2, 4]), *rng.pick(&[L3A, Lab::L3([0, 0, 0])]), *rng.pick(&[Lab::L3([0x0A, 0x0B, 0x0D]), Lab::L3([0, 0, 1])]), Lab::Bcast, Lab::ReUse]
        } else if rng.chance(1, 6) {
            [Lab::L6([0, 0, 0, 0, 0, 1]), Lab::L6([0, 0, 0, 0, 1, 0]), Lab::L3([0, 0, 0]), L3B, Lab::Bcast, Lab::ReUse]
        } else {
            [L6A, L6B, L3A, L3B, Lab::Bcast, Lab::ReUse]
        };
        // per-run bias towards one label so that re-use actually happens
        let fav = *rng.pick(&alphabet[..4]);
        let mut fid: u8 = rng.below(256) as u8;
        for _ in 0..n {
            match rng.below(20) {
                0 => ops.push(Op::new("frame")),
                1 => ops.push(Op::new("enable")),
                2 => ops.push(Op::new("disable")),
                3 => ops.push(Op::new("max").u("n", *rng.pick(&[0u64, 1, 1, 2, 2, 3, 254, 255]))),
                4 | 5 => ops.push(cont(rng.below(4) as usize, *rng.pick(&[3usize, 7, 10, 20, 100, 4097, 5000]))),
                7 if rng.chance(1, 3) => {
                    // the sender starts X, takes its frag id for Y before X is finished (Y supersedes X in the
                    // receiver), and still emits what is left of X: fragments the receiver has to refuse without
                    // touching its label memory, because the PDUs that follow are sent with a compressed label
                    let la = *rng.pick(&alphabet[..4]);
                    let lb = *rng.pick(&alphabet[..4]);
                    let lx = rng.usize_in(30, 120);
                    let ly = if rng.chance(1, 3) { lx } else { rng.usize_in(30, 120) };
                    fid = fid.wrapping_add(1);
                    ops.push(submit(lx, rng.next(), ptype(rng), &la, fid, 13 + rng.usize_in(4, 20), &[]));
                    ops.push(submit(ly, rng.next(), ptype(rng), &lb, fid, 13 + rng.usize_in(4, 20), &[]));
                    for _ in 0..rng.usize_in(1, 2) {
                        ops.push(Op::new("cont").u("fl", 0).u("buf", *rng.pick(&[9u64, 20, 4097, 4097])).u("ab", 1));
                    }
                    // the next PDUs carry Y's label (compressed when re-use is on)
                    ops.push(submit(*rng.pick(&[0usize, 5, 20]), rng.next(), ptype(rng), &lb, fid.wrapping_add(50), 4097, &[]));
                    ops.push(cont(0, 4097));
                    ops.push(cont(0, 4097));
                }
                6 if rng.chance(1, 3) => {
                    // a fragmented PDU is started and abandoned; the label memories are emptied (frame boundary or a
                    // broadcast packet); the same PDU is sent again on the same frag id, this time with another label
                    // (often an explicit re-use that nothing precedes); then it is continued to its end
                    let lab0 = *rng.pick(&alphabet[..4]);
                    let len = rng.usize_in(30, 120);
                    let seed = rng.next();
                    let pt = ptype(rng);
                    let b0 = 13 + rng.usize_in(4, 20);
                    fid = fid.wrapping_add(1);
                    if rng.chance(1, 2) {
                        ops.push(submit(3, rng.next(), pt, &lab0, fid.wrapping_add(100), 4097, &[]));
                    }
                    ops.push(submit(len, seed, pt, &lab0, fid, b0, &[]));
                    if rng.chance(1, 2) {
                        ops.push(Op::new("frame"));
                    } else {
                        ops.push(submit(2, rng.next(), pt, &Lab::Bcast, fid.wrapping_add(101), 4097, &[]));
                    }
                    let lab1 = *rng.pick(&[Lab::ReUse, Lab::ReUse, Lab::Bcast, alphabet[3], alphabet[1]]);
                    // same first-fragment payload: header sizes differ with the label, adjust the buffer
                    // (the first label may have been substituted, i.e. written with length 0: try both alignments)
                    let b1 = if rng.chance(1, 2) { b0 + lab1.len() } else { (b0 + lab1.len()).saturating_sub(lab0.len()).max(7) };
                    ops.push(submit(len, seed, pt, &lab1, fid, b1, &[]));
                    let nfl = rng.below(4) as usize;
                    ops.push(cont(nfl, 4097));
                    ops.push(cont(0, 4097));
                    ops.push(cont(1, 4097));
                }
                _ => {
                    let lab = if rng.chance(3, 5) { fav } else { *rng.pick(&alphabet) };
                    let len = *rng.pick(&[0usize, 1, 5, 20, 100, 1000]);
                    // outcome class of the call: succeed complete / fragment / fail
                    let (lenx, ptx, labx, buf) = match rng.below(12) {
                        0 => (len, ptype(rng), lab, rng.usize_in(0, 6)),                  // too small: fails
                        1 => (70_000, ptype(rng), lab, 100),                             // PDU too long: fails
                        2 => (len, rng.range(0x100, 0x5FF) as u16, lab, 4097),           // bad protocol type: fails
                        3 => (len, ptype(rng), Lab::L6([0; 6]), 4097),                   // zero label: fails
                        4 | 5 => (len.max(20), ptype(rng), lab, 13 + rng.usize_in(0, 8)), // fragments
                        6 => (len, ptype(rng), lab, 4 + len + rng.usize_in(0, 7)),        // fits only if substituted / nearly
                        _ => (len, ptype(rng), lab, 4097),
                    };
                    fid = fid.wrapping_add(1);
                    // some PDUs go through encap_ext (optional extensions only: every receiver can parse them)
                    if rng.chance(1, 8) {
                        let e = [opt_ext(rng)];
                        let extra = e[0].1.len() + 2;
                        ops.push(submit(lenx, rng.next(), ptx, &labx, fid, buf + if rng.chance(1, 2) { extra } else { 0 }, &e));
                    } else {
                        ops.push(submit(lenx, rng.next(), ptx, &labx, fid, buf, &[]));
                    }
                }
            }
        }
        // drain flights
        for _ in 0..6 {
            ops.push(cont(0, 4097));
        }
        Program { scenario: "flow", cfg: cfg(8, 1100, 10, 0, &ExtTable::default()), ops }
    }

    /// all order-preserving merges of streams with `shape[i]` packets each, in lexicographic order
    pub fn merges(shape: &[usize]) -> Vec<Vec<usize>> {
        fn rec(left: &mut Vec<usize>, cur: &mut Vec<usize>, out: &mut Vec<Vec<usize>>) {
            if left.iter().all(|l| *l == 0) {
                out.push(cur.clone());
                return;
            }
            for i in 0..left.len() {
                if left[i] > 0 {
                    left[i] -= 1;
                    cur.push(i);
                    rec(left, cur, out);
                    cur.pop();
                    left[i] += 1;
                }
            }
        }
        let mut out = vec![];
        rec(&mut shape.to_vec(), &mut vec![], &mut out);
        out
    }
    pub const SMALL_SHAPES: [&[usize]; 4] = [&[2, 2], &[2, 3], &[3, 3], &[2, 2, 2]];
    /// number of merges of the small shapes: 6 + 10 + 20 + 90
    pub const SMALL_MERGES: u64 = 126;

    fn gen_c07(rng: &mut Rng, idx: u64) -> Program {
        // the first runs enumerate every merge of the small shapes (8 stray/size variations each)
        // after the 8 sampled variants of every small merge: the stray position x kind x (aliasing or not) matrix of
        // every small merge, one stray per run (8 positions x 4 kinds x 2 = 64 runs per merge)
        let matrix: Option<(usize, u64, bool)> = if idx >= SMALL_MERGES * 8 && idx < SMALL_MERGES * 72 {
            let v = (idx - SMALL_MERGES * 8) / SMALL_MERGES;
            Some(((v % 8) as usize, (v / 8) % 4, v / 32 == 1))
        } else {
            None
        };
        let forced: Option<(Vec<usize>, Vec<usize>)> = if idx < SMALL_MERGES * 72 {
            let mut m = idx % SMALL_MERGES;
            let mut r = None;
            for sh in SMALL_SHAPES.iter() {
                let all = merges(sh);
                if (m as usize) < all.len() {
                    r = Some((sh.to_vec(), all[m as usize].clone()));
                    break;
                }
                m -= all.len() as u64;
            }
            r
        } else {
            None
        };
        let slots = match &forced {
            Some((sh, _)) => rng.usize_in(sh.len(), 4),
            // mostly 2..4 slots (aliasing is frequent there); one run in six a larger memory, including moduli that
            // are not powers of two and the 8-bit boundary
            None => {
                if rng.chance(1, 6) {
                    *rng.pick(&[5usize, 7, 8, 16, 100, 255, 256])
                } else {
                    rng.usize_in(2, 4)
                }
            }
        };
        let k = match &forced {
            Some((sh, _)) => sh.len(),
            None => rng.usize_in(2, slots.min(4)),
        };
        // distinct slots
        let mut slot_of: Vec<usize> = (0..slots).collect();
        for i in (1..slot_of.len()).rev() {
            let j = rng.below(i as u64 + 1) as usize;
            slot_of.swap(i, j);
        }
        let mut streams = vec![]; // (fid, len, nfrag, lab, ptype, seed)
        // header extensions of a stream's first fragment (the receiver knows every mandatory id used): a sixth of
        // the streams; chains of 1..4 entries of every kind
        let mut table = ExtTable::default();
        let mut sx: Vec<Option<(Vec<(u16, Vec<u8>)>, u16)>> = vec![];
        let big = forced.is_none() && rng.chance(1, 20);
        let mut maxlen = 1;
        for s in 0..k {
            let fid = (slot_of[s] + slots * rng.usize_in(0, (255 - slot_of[s]) / slots)) as u8;
            let nfrag = match &forced {
                Some((sh, _)) => sh[s],
                None => rng.usize_in(2, 5),
            };
            let len = if big { rng.usize_in(3000, 9000) } else { rng.usize_in(nfrag * 2, 400) };
            // every piece has to fit one packet
            let nfrag = if big { nfrag.max(len / 2500 + 2) } else { nfrag };
            maxlen = maxlen.max(len);
            streams.push((fid, len, nfrag, label(rng, false), ptype(rng), rng.next()));
            sx.push(if rng.chance(1, 6) { Some(ext_chain(rng, &mut table)) } else { None });
        }
        let pct = rng.chance(1, 2);
        let mut prio: Vec<u64> = (0..k).map(|_| rng.next()).collect();
        let mut left: Vec<usize> = streams.iter().map(|s| s.2).collect(); // packets left
        let mut started = vec![false; k];
        let mut rem: Vec<usize> = streams.iter().map(|s| s.1).collect();
        let mut order_in_flights: Vec<usize> = vec![]; // stream index per flight slot (mirror of executor's table)
        let mut ops = vec![];
        let mut used_fids: Vec<u8> = streams.iter().map(|s| s.0).collect();
        let total: usize = left.iter().sum();
        let mut step = 0usize;
        let restart_run = forced.is_none() && rng.chance(1, 5);
        let mut restarted = false;
        let claim_run = forced.is_none() && !restart_run && rng.chance(1, 4);
        let mut claimed = false;
        while left.iter().any(|l| *l > 0) {
            // stray injection
            let do_stray = match matrix {
                Some((pos, _, _)) => step == pos,
                None => rng.chance(1, 4),
            };
            if do_stray {
                let kind = match matrix {
                    Some((_, k, _)) => k,
                    None => rng.below(4),
                };
                let sfid = match match matrix {
                    Some((_, _, true)) => 0,
                    Some(_) => 1,
                    None => rng.below(3),
                } {
                    0 => {
                        // aliasing an open slot with a different id
                        let s = rng.below(used_fids.len() as u64) as usize;
                        let base = used_fids[s] as usize % slots;
                        let mut f = (base + slots * rng.usize_in(0, (255 - base) / slots)) as u8;
                        if used_fids.contains(&f) {
                            f = f.wrapping_add(slots as u8);
                        }
                        f
                    }
                    _ => rng.below(256) as u8,
                };
                let allow_claim = rng.chance(1, 8) || matrix.is_some();
                if !used_fids.contains(&sfid) && (kind != 1 || allow_claim || !used_fids.iter().any(|u| *u as usize % slots == sfid as usize % slots)) {
                    let lab = label(rng, false);
                    let mut o = Op::new("stray").u("kind", kind).u("fid", sfid as u64).u("len", rng.range(1, 40)).u("seed", rng.next()).h("lab", lab.enc()).u("total", rng.range(0, 300)).u("crc", rng.next() & 0xFFFF_FFFF);
                    if matrix.is_some() {
                        o = o.u("matrix", 1);
                    }
                    ops.push(o);
                }
            }
            // restart: a new PDU on the id of a stream in flight (the sender abandons the old PDU)
            if restart_run && !restarted && rng.chance(1, 3) {
                let c: Vec<usize> = (0..left.len()).filter(|s| started[*s] && left[*s] > 0).collect();
                if !c.is_empty() {
                    // often with the free list topped up to its limit while the slots hold their buffers
                    if rng.chance(1, 2) {
                        for _ in 0..rng.usize_in(1, slots + 2) {
                            ops.push(Op::new("prov"));
                        }
                    }
                    let s = *rng.pick(&c);
                    let fid = streams[s].0;
                    let retransmit = rng.chance(1, 2);
                    let nfrag = if retransmit { streams[s].2 } else { rng.usize_in(2, 4) };
                    let len = if retransmit { streams[s].1 } else { rng.usize_in(nfrag * 2, 300) };
                    maxlen = maxlen.max(len);
                    left[s] = 0;
                    order_in_flights.retain(|x| *x != s);
                    if retransmit {
                        // the abandoned PDU is sent again from its start: same label, protocol type, length, content
                        let old = streams[s];
                        streams.push(old);
                        let oldx = sx[s].clone();
                        sx.push(oldx);
                    } else {
                        streams.push((fid, len, nfrag, label(rng, false), ptype(rng), rng.next()));
                        sx.push(if rng.chance(1, 6) { Some(ext_chain(rng, &mut table)) } else { None });
                    }
                    left.push(nfrag);
                    started.push(false);
                    rem.push(len);
                    prio.push(rng.next());
                    used_fids.push(fid);
                    restarted = true;
                }
            }
            // claim: a new PDU on a *different* id that shares the slot of a stream in flight. The old reassembly is
            // legitimately replaced (its remaining packets become strays of an unknown id); the claimer must arrive.
            if claim_run && !claimed && rng.chance(1, 3) {
                let c: Vec<usize> = (0..left.len()).filter(|s| started[*s] && left[*s] > 0).collect();
                if !c.is_empty() {
                    let s = *rng.pick(&c);
                    let mut fid = (streams[s].0 as usize % slots + slots * rng.usize_in(0, (255 - streams[s].0 as usize % slots) / slots)) as u8;
                    let mut guard = 0;
                    while used_fids.contains(&fid) && guard < 300 {
                        fid = fid.wrapping_add(slots as u8);
                        if fid as usize % slots != streams[s].0 as usize % slots {
                            fid = (streams[s].0 as usize % slots) as u8;
                        }
                        guard += 1;
                    }
                    if !used_fids.contains(&fid) {
                        let nfrag = rng.usize_in(2, 4);
                        let len = rng.usize_in(nfrag * 2, 300);
                        maxlen = maxlen.max(len);
                        streams.push((fid, len, nfrag, label(rng, false), ptype(rng), rng.next()));
                        sx.push(None);
                        left.push(nfrag);
                        started.push(false);
                        rem.push(len);
                        prio.push(rng.next());
                        used_fids.push(fid);
                        claimed = true;
                    }
                }
            }
            // pick next stream
            let cands: Vec<usize> = (0..left.len()).filter(|s| left[*s] > 0).collect();
            if cands.is_empty() {
                break;
            }
            let s = if let Some((_, m)) = &forced {
                m[step.min(m.len() - 1)]
            } else if pct {
                if rng.chance(1, (total as u64 / 2).max(2)) {
                    let c = *rng.pick(&cands);
                    prio[c] = rng.next();
                }
                *cands.iter().max_by_key(|c| prio[**c]).unwrap()
            } else {
                *rng.pick(&cands)
            };
            let (fid, len, _nfrag, lab, pt, seed) = streams[s];
            if !started[s] {
                // first fragment: carries a share of the payload; a sixth of the streams carry optional extensions
                let share = (len / streams[s].2).max(1);
                let (exts, pt): (Vec<(u16, Vec<u8>)>, u16) = match &sx[s] {
                    Some((e, p)) => (e.clone(), *p),
                    None => (vec![], pt),
                };
                let extlen: usize = exts.iter().map(|e| e.1.len() + 2).sum();
                let buf = 7 + lab.len() + extlen + share;
                ops.push(submit(len, seed, pt, &lab, fid, buf, &exts));
                started[s] = true;
                rem[s] = len - share.min(len);
                order_in_flights.push(s);
            } else {
                let fl = order_in_flights.iter().position(|x| *x == s).unwrap();
                if left[s] == 1 {
                    ops.push(cont(fl, 7 + rem[s] + rng.usize_in(0, 10)));
                    order_in_flights.remove(fl);
                } else {
                    let share = (rem[s] / left[s]).max(1).min(rem[s].saturating_sub(1).max(1));
                    ops.push(cont(fl, 3 + share));
                    rem[s] -= share.min(rem[s]);
                }
            }
            left[s] -= 1;
            step += 1;
        }
        // a third of the runs also walk the packets (strays included) laid back to back in frames
        let mode = if rng.chance(1, 3) { 1 } else { 0 };
        if mode == 1 {
            let nfr = rng.usize_in(0, 2);
            for _ in 0..nfr {
                let at = rng.usize_in(0, ops.len());
                ops.insert(at, Op::new("frame").u("pad", rng.range(0, 6)));
            }
            ops.push(Op::new("frame").u("pad", rng.range(0, 40)));
        }
        // storage: the maximum, or exactly one buffer per slot (free list empty while every slot is busy)
        let nbuf = if rng.chance(1, 3) { slots } else { slots + 2 };
        Program { scenario: "flow", cfg: cfg(slots, maxlen + 50, nbuf, mode, &table), ops }
    }

    fn gen_c10(rng: &mut Rng) -> Program {
        let slots = rng.usize_in(1, 4);
        let mut ops = vec![];
        let nframes = rng.usize_in(1, 5);
        let mut table = ExtTable::default();
        let mut maxlen = 64usize;
        let with_ext = rng.chance(1, 3);
        let corrupt = rng.chance(1, 2);
        let mut fid = rng.below(256) as u8;
        let mut open = 0usize;
        for _ in 0..nframes {
            let npk = rng.usize_in(1, 12);
            for _ in 0..npk {
                let flip = if corrupt && rng.chance(1, 6) { 1 + rng.below(4000) } else { 0 };
                if open > 0 && rng.chance(1, 2) {
                    let b = *rng.pick(&[4usize, 5, 7, 9, 20, 60, 300, 4097, 4097, 6000, 70_000]);
                    let mut o = cont(rng.below(4) as usize, b);
                    if flip > 0 {
                        o = o.u("flip", flip);
                    }
                    ops.push(o);
                    if b >= 300 {
                        open = open.saturating_sub(1);
                    }
                } else {
                    let wr = rng.chance(1, 6);
                    let lab = label(rng, wr);
                    let huge = rng.chance(1, 25);
                    let len = if huge {
                        rng.usize_in(4090, 20_000)
                    } else {
                        match rng.below(5) {
                            0 => rng.usize_in(0, 4),
                            1 => rng.usize_in(1000, 3000),
                            _ => rng.usize_in(1, 200),
                        }
                    };
                    maxlen = maxlen.max(len);
                    let frag = huge || rng.chance(1, 3);
                    let buf = if huge { *rng.pick(&[20usize, 4097, 6000, 70_000]) } else if frag { 13 + rng.usize_in(0, len.min(30)) } else { 4097 };
                    fid = fid.wrapping_add(rng.range(1, 3) as u8);
                    let (exts, pt) = if with_ext && rng.chance(1, 2) { ext_chain(rng, &mut table) } else { (vec![], ptype(rng)) };
                    let mut o = submit(len, rng.next(), pt, &lab, fid, buf + exts.iter().map(|e| e.1.len() + 2).sum::<usize>(), &exts);
                    if flip > 0 {
                        o = o.u("flip", flip);
                    }
                    ops.push(o);
                    if frag {
                        open += 1;
                    }
                }
            }
            let pad = match rng.below(5) {
                0 => 0,
                1 => 1,
                2 => 2,
                3 => rng.range(3, 40),
                _ => rng.range(40, 3000),
            };
            let mut o = Op::new("frame").u("pad", pad);
            if rng.chance(1, 5) {
                let tl = rng.usize_in(1, 40);
                o = o.h("tail", rng.bytes(tl));
            }
            ops.push(o);
        }
        // receiver table: knows all, or lacks some (then packets are rejected for unknown mandatory ext)
        let mut rxt = table.clone();
        if !rxt.entries.is_empty() && rng.chance(1, 3) {
            let k = rng.below(rxt.entries.len() as u64) as usize;
            rxt.entries.remove(k);
        }
        // storage sometimes smaller than some PDUs: oversize rejections
        let maxpdu = if rng.chance(1, 4) { (maxlen / 2).max(8) } else { maxlen + 8 };
        // storage sometimes scarce: packets rejected for lack of storage in the middle of a frame
        let nbuf = match rng.below(4) {
            0 => rng.usize_in(0, 1),
            1 => rng.usize_in(1, slots),
            _ => slots + 2,
        };
        Program { scenario: "flow", cfg: cfg(slots, maxpdu, nbuf, 1, &rxt), ops }
    }

    fn gen_c13(rng: &mut Rng) -> Program {
        let mut table = ExtTable::default();
        let mut ops = vec![];
        let n = rng.usize_in(1, 6);
        let mut maxlen = 16;
        let mut fid = rng.below(256) as u8;
        // one run in twelve is a signalling run: the only mandatory ids are 0x81 / 0x82, final and without data, as the
        // crate's SignalisationMandatoryExtensionHeaderManager knows them (the shadow receiver then runs on it);
        // plain encap with such a protocol type is the same packet without a chain
        let signalling = rng.chance(1, 12);
        if signalling {
            table.entries.push((0x81, MExt::Final(0)));
            table.entries.push((0x82, MExt::Final(0)));
        }
        for _ in 0..n {
            let (exts, pt) = if signalling {
                let id = *rng.pick(&[0x81u16, 0x82]);
                let mut e: Vec<(u16, Vec<u8>)> = (0..rng.usize_in(0, 2)).map(|_| opt_ext(rng)).collect();
                if e.is_empty() && rng.chance(1, 2) {
                    (vec![], id) // plain encap
                } else {
                    e.push((id, vec![]));
                    (e, id)
                }
            } else {
                ext_chain(rng, &mut table)
            };
            // any label, the explicit re-use marker included (resolvable only right after a labelled packet)
            let lab = if rng.chance(1, 10) { Lab::ReUse } else { label(rng, false) };
            let len = if rng.chance(1, 100) {
                rng.usize_in(5000, 65_000)
            } else if rng.chance(1, 60) {
                // around the largest PDU the 16-bit total length allows (the extensions are not counted in it)
                (65_533 - lab.len()).saturating_sub(rng.usize_in(0, 3)) + rng.usize_in(0, 2)
            } else {
                *rng.pick(&[0usize, 1, 2, 7, 30, 100, 600, 4000, 4090]) + rng.usize_in(0, 5)
            };
            maxlen = maxlen.max(len);
            let extlen: usize = exts.iter().map(|e| e.1.len() + 2).sum();
            let hdr = 2 + 3 + 2 + lab.len() + extlen;
            // fragmentation at every offset inside and after the extension area
            let buf = match rng.below(6) {
                0 => rng.usize_in(0, hdr + 2),
                1 => hdr + rng.usize_in(0, 6),
                2 => hdr + len / 2,
                3 => 4 + lab.len() + extlen + len + rng.usize_in(0, 3),
                4 => 4097,
                _ => rng.usize_in(hdr, hdr + len + 10),
            };
            fid = fid.wrapping_add(1);
            // inconsistent combinations sometimes
            let ptx = match rng.below(16) {
                0 => rng.below(0x100) as u16,             // < 0x100 with whatever the last extension is
                1 => rng.range(0x100, 0x5FF) as u16,     // forbidden range
                2 => exts.last().map(|e| e.0).unwrap_or(pt), // equal to the last extension's id (legal only for a final mandatory one)
                _ => pt,
            };
            ops.push(submit(len, rng.next(), ptx, &lab, fid, buf, &exts));
            let k = rng.usize_in(1, 4);
            for _ in 0..k {
                ops.push(cont(0, *rng.pick(&[4usize, 7, 8, 30, 200, 4097])));
            }
            for _ in 0..(len / 4000 + 1) {
                ops.push(cont(0, 4097));
            }
            if rng.chance(1, 4) {
                ops.push(Op::new("frame"));
            }
        }
        // receiver: knows all / some / none
        let mut rxt = table.clone();
        match if signalling { 3 } else { rng.below(4) } {
            0 => rxt.entries.clear(),
            1 => {
                if !rxt.entries.is_empty() {
                    let k = rng.below(rxt.entries.len() as u64) as usize;
                    rxt.entries.remove(k);
                }
            }
            _ => {}
        }
        Program { scenario: "flow", cfg: cfg(rng.usize_in(1, 4), maxlen + 4, 6, 0, &rxt), ops }
    }
}
