//! `memsim`: SimpleGseMemory driven directly, side by side with an executable reference model
//! (a bag of free buffers + one optional saved context per slot). Serves C17.
//!
//! cfg: slots maxpdu
//! ops: prov size | newpdu | newfrag fid | take fid | save ix | drop ix (caller discards a held context: not a memory op)

use crate::core::{guarded, panic_site, Scenario, Stats, Tier, Violation};
use crate::program::{Op, Program};
use crate::rng::{Rng, H64};
use dvb_gse_rust::gse_decap::{DecapContext, DecapMemoryError, GseDecapMemory, SimpleGseMemory};
use dvb_gse_rust::label::Label;

pub struct MemSim;

fn tag_byte(tag: u32, i: usize) -> u8 {
    (tag as u8).wrapping_mul(37).wrapping_add(i as u8).wrapping_add((tag >> 8) as u8) ^ 0x6D
}
fn make_buf(tag: u32, len: usize) -> Box<[u8]> {
    (0..len).map(|i| tag_byte(tag, i)).collect::<Vec<u8>>().into_boxed_slice()
}
/// identify a buffer by content; None if the content was modified
fn tag_of(b: &[u8], tags: &[(u32, usize)]) -> Option<u32> {
    for (t, l) in tags {
        if *l == b.len() && b.iter().enumerate().all(|(i, x)| *x == tag_byte(*t, i)) {
            return Some(*t);
        }
    }
    None
}
fn make_ctx(fid: u8, cid: u16) -> DecapContext {
    DecapContext::new(Label::ThreeBytesLabel([cid as u8, (cid >> 8) as u8, fid]), 0x0800 ^ cid, fid, cid.wrapping_mul(3).wrapping_add(7), cid, cid % 2 == 0, vec![])
}

#[derive(Clone, Debug)]
struct Slot {
    fid: u8,
    ctx: DecapContext,
    tag: u32,
}

impl Scenario for MemSim {
    fn name(&self) -> &'static str {
        "memsim"
    }
    fn tag(&self) -> u64 {
        4
    }
    fn serves(&self) -> &'static [&'static str] {
        &["C17"]
    }
    fn budget(&self, target: &str, tier: Tier) -> u64 {
        match (target, tier) {
            ("C17", Tier::Quick) => 2_000_000,
            ("C17", Tier::Thorough) => 40_000_000,
            _ => 0,
        }
    }
    fn rule(&self) -> &'static str {
        "seeded histories of provision/new_pdu/new_frag/take_frag/save_frag on the real SimpleGseMemory in lock-step with a bag+slots reference model (1..4 slots, aliasing and non-aliasing ids, buffer sizes below/at/above the configured size); non-trivial = the history contains a take or new_frag on an occupied or aliased slot; distinct = distinct program hashes; op-sequence prefixes of length <= 5 are counted in coverage_sets.prefix5; the first 8 x 12^d runs (d = 4 quick, 5 thorough) enumerate every sequence of d operations over a 12-letter alphabet for 1..4 slots from an empty and from an exactly full free list (counter enumerated_op_sequences)"
    }
    fn components_real(&self) -> &'static [&'static str] {
        &["SimpleGseMemory::{new,provision_storage,new_pdu,new_frag,take_frag,save_frag}"]
    }
    fn components_stub(&self) -> &'static [&'static str] {
        &["caller issuing memory operations", "reference model RefMem"]
    }

    fn generate(&self, _target: &str, idx: u64, rng: &mut Rng, tier: Tier) -> Program {
        // bounded-exhaustive part: every sequence of `depth` operations over a 12-letter alphabet (provision at and
        // below the size, new_pdu, new_frag / take_frag on an id, its neighbour and an id aliasing it, save of the
        // two oldest held contexts, drop) for 1..4 slots, starting from an empty or an exactly full free list
        let depth: u32 = if tier == Tier::Quick { 4 } else { 5 };
        let per = 12u64.pow(depth);
        if idx < per * 8 {
            let cfgi = idx / per;
            let mut code = idx % per;
            let slots = 1 + (cfgi % 4) as usize;
            let full = cfgi / 4 == 1;
            let maxpdu = 4usize;
            // ids chosen so that the aliasing one wraps around the 8-bit id space
            let a = (256 - slots) as u8;
            let ids = [a, a.wrapping_add(1), a.wrapping_add(slots as u8)];
            let mut ops = vec![];
            if full {
                for _ in 0..slots + 2 {
                    ops.push(Op::new("prov").u("size", maxpdu as u64));
                }
            }
            for _ in 0..depth {
                let l = code % 12;
                code /= 12;
                ops.push(match l {
                    0 => Op::new("prov").u("size", maxpdu as u64),
                    1 => Op::new("prov").u("size", maxpdu as u64 - 1),
                    2 => Op::new("newpdu"),
                    3 | 4 | 5 => Op::new("newfrag").u("fid", ids[(l - 3) as usize] as u64),
                    6 | 7 | 8 => Op::new("take").u("fid", ids[(l - 6) as usize] as u64),
                    9 => Op::new("save").u("ix", 0),
                    10 => Op::new("save").u("ix", 1),
                    _ => Op::new("drop").u("ix", 0),
                });
            }
            return Program { scenario: "memsim", cfg: Op::new("cfg").u("slots", slots as u64).u("maxpdu", maxpdu as u64).u("enum", 1), ops };
        }
        let slots = rng.usize_in(1, 4);
        let maxpdu = *rng.pick(&[2usize, 4, 16]);
        let n = if rng.chance(1, 10) { rng.usize_in(30, 80) } else { rng.usize_in(3, 25) };
        let base = rng.below(256) as u8;
        let ids: Vec<u8> = vec![base, base.wrapping_add(1), base.wrapping_add(slots as u8), base.wrapping_add(2 * slots as u8), rng.below(256) as u8];
        let mut ops = vec![];
        // usually start with some storage
        for _ in 0..rng.usize_in(0, slots + 3) {
            ops.push(Op::new("prov").u("size", maxpdu as u64 + rng.below(2)));
        }
        for _ in 0..n {
            match rng.below(10) {
                0 | 1 => ops.push(Op::new("prov").u("size", *rng.pick(&[maxpdu as u64 - 1, maxpdu as u64, maxpdu as u64 + 1, maxpdu as u64 + 5]))),
                2 => ops.push(Op::new("newpdu")),
                3 | 4 => ops.push(Op::new("newfrag").u("fid", *rng.pick(&ids) as u64)),
                5 | 6 => ops.push(Op::new("take").u("fid", *rng.pick(&ids) as u64)),
                7 | 8 => ops.push(Op::new("save").u("ix", rng.below(4))),
                _ => ops.push(Op::new("drop").u("ix", rng.below(4))),
            }
        }
        Program { scenario: "memsim", cfg: Op::new("cfg").u("slots", slots as u64).u("maxpdu", maxpdu as u64), ops }
    }

    fn execute(&self, p: &Program, _target: &str, st: &mut Stats) -> Option<Violation> {
        let slots = (p.cfg.get_u("slots") as usize).clamp(1, 8);
        let maxpdu = (p.cfg.get_u("maxpdu") as usize).clamp(1, 4096);
        let mut mem = SimpleGseMemory::new(slots, maxpdu, 0, 0);
        // model
        let mut bag: Vec<u32> = vec![];
        let mut table: Vec<Option<Slot>> = vec![None; slots];
        let mut tags: Vec<(u32, usize)> = vec![];
        let mut next_tag = 1u32;
        let mut next_cid = 1u16;
        // caller-held contexts
        let mut held: Vec<(DecapContext, Box<[u8]>, u32)> = vec![];
        let mut held_bufs: Vec<Box<[u8]>> = vec![];
        let mut max_accepted_free: i64 = -1;
        let mut min_refused_free: i64 = i64::MAX;
        let mut log = H64::new();
        let mut interesting = false;
        let mut prefix = H64::new();
        if p.cfg.get_u("enum") == 1 {
            st.inc("enumerated_op_sequences");
        }
        macro_rules! bad {
            ($clause:expr, $site:expr, $detail:expr) => {{
                st.log = log.0;
                return Some(Violation::new("C17", $clause, $site, $detail));
            }};
        }
        for (i, op) in p.ops.iter().enumerate() {
            log.s(op.name);
            if i < 5 {
                prefix.s(op.name);
                prefix.u(match op.name {
                    "prov" => (op.get_u("size") as i64 - maxpdu as i64).signum() as u64,
                    "newfrag" | "take" => op.get_u("fid") % slots as u64,
                    _ => 0,
                });
                st.cov("prefix5", prefix.0);
            }
            st.inc("lib_calls");
            match op.name {
                "prov" => {
                    let size = (op.get_u("size") as usize).clamp(1, 8192); // zero-length buffers have no identity (assumption: storage length >= 1)
                    let tag = next_tag;
                    next_tag += 1;
                    tags.push((tag, size));
                    let b = make_buf(tag, size);
                    let free = bag.len() as i64;
                    let r = match guarded(|| mem.provision_storage(b)) {
                        Ok(r) => r,
                        Err((m, l)) => bad!("C17.panic", format!("provision:{}", panic_site(&m, &l)), m),
                    };
                    match r {
                        Ok(()) => {
                            if size < maxpdu {
                                bad!("C17.provision_accepts_too_small", "provision", format!("buffer of {} bytes accepted, configured size {}", size, maxpdu));
                            }
                            max_accepted_free = max_accepted_free.max(free);
                            bag.push(tag);
                        }
                        Err(DecapMemoryError::StorageOverflow(b)) => {
                            if tag_of(&b, &tags) != Some(tag) {
                                bad!("C17.provision_returns_other_buffer", "overflow", "StorageOverflow did not hand back the same buffer".to_string());
                            }
                            min_refused_free = min_refused_free.min(free);
                            st.inc("probe.provision_refused_full");
                        }
                        Err(DecapMemoryError::BufferTooSmall(b)) => {
                            if tag_of(&b, &tags) != Some(tag) {
                                bad!("C17.provision_returns_other_buffer", "too_small", "BufferTooSmall did not hand back the same buffer".to_string());
                            }
                            if size >= maxpdu {
                                bad!("C17.provision_refuses_adequate_buffer", "too_small", format!("buffer of {} bytes refused as too small, configured size {}", size, maxpdu));
                            }
                            st.inc("probe.provision_refused_too_small");
                        }
                        Err(e) => bad!("C17.provision_error_without_buffer", "provision", format!("{:?}", e)),
                    }
                    if max_accepted_free >= min_refused_free {
                        bad!("C17.capacity_not_a_threshold", "provision", format!("a buffer was accepted with {} free buffers but one was refused as full with {}", max_accepted_free, min_refused_free));
                    }
                    // the capacity must allow at least one buffer per slot (otherwise the memory is unusable)
                    if min_refused_free < slots as i64 {
                        bad!("C17.capacity_below_slots", "provision", format!("free list reported full with {} buffers for {} slots", min_refused_free, slots));
                    }
                }
                "newpdu" => {
                    let r = match guarded(|| mem.new_pdu()) {
                        Ok(r) => r,
                        Err((m, l)) => bad!("C17.panic", format!("new_pdu:{}", panic_site(&m, &l)), m),
                    };
                    match r {
                        Ok(b) => {
                            let t = tag_of(&b, &tags);
                            match t.and_then(|t| bag.iter().position(|x| *x == t)) {
                                Some(ix) => {
                                    bag.remove(ix);
                                }
                                None => bad!("C17.new_pdu_not_from_bag", if bag.is_empty() { "bag_empty" } else { "foreign_or_modified" }, format!("new_pdu returned a buffer (tag {:?}) that is not one of the {} free buffers, or its content was modified", t, bag.len())),
                            }
                            held_bufs.push(b);
                        }
                        Err(_) => {
                            if !bag.is_empty() {
                                bad!("C17.new_pdu_fails_with_free_buffers", "new_pdu", format!("{} buffers are free", bag.len()));
                            }
                            st.inc("probe.new_pdu_underflow");
                        }
                    }
                }
                "newfrag" => {
                    let fid = op.get_u("fid") as u8;
                    let cid = next_cid;
                    next_cid = next_cid.wrapping_add(1);
                    let ctx = make_ctx(fid, cid);
                    let sl = fid as usize % slots;
                    let r = match guarded(|| mem.new_frag(ctx.clone())) {
                        Ok(r) => r,
                        Err((m, l)) => bad!("C17.panic", format!("new_frag:{}", panic_site(&m, &l)), m),
                    };
                    match (&table[sl], r) {
                        (Some(s), Ok((c, b))) => {
                            interesting = true;
                            st.inc(if s.fid == fid { "probe.new_frag_replaces_same_id" } else { "probe.new_frag_replaces_aliasing_id" });
                            if c != ctx {
                                bad!("C17.new_frag_context", "occupied", "new_frag did not return the context it was given".to_string());
                            }
                            if tag_of(&b, &tags) != Some(s.tag) {
                                bad!("C17.new_frag_does_not_reuse_slot_buffer", "occupied", format!("slot {} held buffer tag {}, new_frag returned tag {:?}", sl, s.tag, tag_of(&b, &tags)));
                            }
                            let t = s.tag;
                            table[sl] = None;
                            held.push((c, b, t));
                        }
                        (Some(_), Err(e)) => bad!("C17.new_frag_fails_on_occupied_slot", "occupied", format!("{:?}", e)),
                        (None, Ok((c, b))) => {
                            if c != ctx {
                                bad!("C17.new_frag_context", "empty_slot", "new_frag did not return the context it was given".to_string());
                            }
                            let t = tag_of(&b, &tags);
                            match t.and_then(|t| bag.iter().position(|x| *x == t)) {
                                Some(ix) => {
                                    bag.remove(ix);
                                }
                                None => bad!("C17.new_frag_not_from_bag", if bag.is_empty() { "bag_empty" } else { "foreign_or_modified" }, format!("new_frag returned buffer tag {:?}, free buffers {:?}", t, bag)),
                            }
                            held.push((c, b, t.unwrap()));
                        }
                        (None, Err(_)) => {
                            if !bag.is_empty() {
                                bad!("C17.new_frag_fails_with_free_buffers", "empty_slot", format!("{} buffers are free", bag.len()));
                            }
                            st.inc("probe.new_frag_underflow");
                        }
                    }
                }
                "take" => {
                    let fid = op.get_u("fid") as u8;
                    let sl = fid as usize % slots;
                    let r = match guarded(|| mem.take_frag(fid)) {
                        Ok(r) => r,
                        Err((m, l)) => bad!("C17.panic", format!("take_frag:{}", panic_site(&m, &l)), m),
                    };
                    let stored_same = table[sl].as_ref().map(|s| s.fid == fid).unwrap_or(false);
                    if table[sl].is_some() {
                        interesting = true;
                        st.inc(if stored_same { "probe.take_stored_id" } else { "probe.take_aliasing_id" });
                    }
                    match r {
                        Ok((c, b)) => {
                            if !stored_same {
                                bad!("C17.take_frag_returns_unsaved_id", if table[sl].is_some() { "aliasing" } else { "empty" }, format!("take_frag({}) returned a context although nothing is saved under that id", fid));
                            }
                            let s = table[sl].take().unwrap();
                            if c != s.ctx {
                                bad!("C17.take_frag_context", "stored", "returned context differs from the one last saved under that id".to_string());
                            }
                            if tag_of(&b, &tags) != Some(s.tag) {
                                bad!("C17.take_frag_buffer", "stored", format!("returned buffer tag {:?}, saved tag {} (or content modified)", tag_of(&b, &tags), s.tag));
                            }
                            held.push((c, b, s.tag));
                        }
                        Err(e) => {
                            if stored_same {
                                bad!("C17.take_frag_fails_on_stored_id", "stored", format!("take_frag({}) failed although a context is saved under that id", fid));
                            }
                            // the statement names the error of a miss
                            if !matches!(e, DecapMemoryError::UndefinedId) {
                                bad!("C17.take_frag_miss_reports_another_error", if table[sl].is_some() { "aliasing" } else { "empty" }, format!("take_frag({}) on an id nothing is saved under reported {:?} instead of an undefined id", fid, std::mem::discriminant(&e)));
                            }
                            // memory must be unchanged: verified by the continued lock-step comparison and the final drain
                        }
                    }
                }
                "save" => {
                    if held.is_empty() {
                        continue;
                    }
                    let ix = op.get_u("ix") as usize % held.len();
                    let (c, b, t) = held.remove(ix);
                    let sl = c.frag_id as usize % slots;
                    let fid = c.frag_id;
                    let cc = c.clone();
                    let r = match guarded(|| mem.save_frag((c, b))) {
                        Ok(r) => r,
                        Err((m, l)) => bad!("C17.panic", format!("save_frag:{}", panic_site(&m, &l)), m),
                    };
                    match (table[sl].is_some(), r) {
                        (true, Ok(())) => bad!("C17.save_into_occupied_slot_accepted", "save_frag", format!("slot {} already holds a context", sl)),
                        (true, Err(_)) => {
                            st.inc("probe.save_refused_occupied");
                            // context and buffer are gone with the call (the error value carries nothing)
                        }
                        (false, Ok(())) => table[sl] = Some(Slot { fid, ctx: cc, tag: t }),
                        (false, Err(e)) => bad!("C17.save_into_empty_slot_refused", "save_frag", format!("{:?}", e)),
                    }
                }
                "drop" => {
                    if !held.is_empty() {
                        let ix = op.get_u("ix") as usize % held.len();
                        held.remove(ix);
                    }
                }
                _ => {}
            }
            let mut sh = H64::new();
            sh.u(bag.len().min(6) as u64);
            sh.u(table.iter().filter(|s| s.is_some()).count() as u64);
            sh.u(held.len().min(3) as u64);
            st.cov("state", sh.0);
        }
        // final drain: the memory must contain exactly what the model says
        for sl in 0..slots {
            if let Some(s) = table[sl].clone() {
                match guarded(|| mem.take_frag(s.fid)) {
                    Ok(Ok((c, b))) => {
                        if c != s.ctx || tag_of(&b, &tags) != Some(s.tag) {
                            st.log = log.0;
                            return Some(Violation::new("C17", "C17.final_drain_context", "take_frag", format!("slot {} returned a different context or buffer at the end", sl)));
                        }
                    }
                    _ => {
                        st.log = log.0;
                        return Some(Violation::new("C17", "C17.final_drain_missing_context", "take_frag", format!("context saved under id {} (slot {}) is gone at the end of the history: an earlier operation changed the memory", s.fid, sl)));
                    }
                }
            } else {
                // nothing may be retrievable from an empty slot under any id mapping to it
                for k in 0..(256 + slots - 1 - sl) / slots {
                    let id = (sl + k * slots) as u8;
                    if let Ok(Ok(_)) = guarded(|| mem.take_frag(id)) {
                        st.log = log.0;
                        return Some(Violation::new("C17", "C17.final_drain_phantom_context", "take_frag", format!("id {} retrievable from a slot the model holds empty", id)));
                    }
                }
            }
        }
        let mut n = 0;
        loop {
            match guarded(|| mem.new_pdu()) {
                Ok(Ok(b)) => {
                    n += 1;
                    let t = tag_of(&b, &tags);
                    if !t.map(|t| bag.contains(&t)).unwrap_or(false) {
                        st.log = log.0;
                        return Some(Violation::new("C17", "C17.final_drain_foreign_buffer", "new_pdu", format!("buffer tag {:?} not in the model's free bag {:?}", t, bag)));
                    }
                }
                _ => break,
            }
            if n > 64 {
                break;
            }
        }
        if n != bag.len() {
            st.log = log.0;
            return Some(Violation::new("C17", "C17.final_drain_free_count", if n < bag.len() { "missing" } else { "extra" }, format!("{} free buffers drained, model has {}", n, bag.len())));
        }
        let _ = held_bufs;
        st.nontrivial = interesting;
        st.log = log.0;
        None
    }
}
