//! Machinery self-tests that need library access (the determinism self-test is tools/selftest_determinism.sh).

use crate::core::{guarded, Scenario, Tier};
use crate::nodes::*;
use crate::rng::{mix, Rng};
use crate::wire::dec_table;
use dvb_gse_rust::crc::DefaultCrc;
use dvb_gse_rust::gse_decap::{DecapError, DecapMemoryError, DecapStatus, Decapsulator, GseDecapMemory, SimpleGseMemory};

fn summarise(r: &Result<Result<(DecapStatus, usize), (DecapError, usize)>, (String, String)>) -> String {
    match r {
        Ok(Ok((DecapStatus::CompletedPkt(b, md), n))) => format!("completed {} {} {:?} {:#06x} {}", n, md.pdu_len(), md.label(), md.protocol_type(), crate::wire::hex(&b[..md.pdu_len().min(b.len()).min(16)])),
        Ok(Ok((DecapStatus::FragmentedPkt(md), n))) => format!("fragmented {} {:?} {:#06x}", n, md.label(), md.protocol_type()),
        Ok(Ok((DecapStatus::Padding, n))) => format!("padding {}", n),
        Ok(Err((e, n))) => format!("err {} {}", n, err_class(e)),
        Err((m, _)) => format!("panic {}", m),
    }
}

/// With no fault configured, the wrapped receiver (LedgerMemory / RecordingCrc) and a bare receiver
/// (SimpleGseMemory / DefaultCrc) must behave identically on the same programs.
pub fn wrappers_transparent(all: &[Box<dyn Scenario>], seed: u64, n: u64) -> i32 {
    let sc = all.iter().find(|s| s.name() == "rxsim").unwrap();
    let mut compared = 0u64;
    for target in ["C03", "C08", "C16", "C05"] {
        for i in 0..n {
            let mut rng = Rng::new(mix(seed, sc.tag(), i + 1_000_000));
            let p = sc.generate(target, i + 100_000, &mut rng, Tier::Quick);
            if p.cfg.get_u("nbhd") == 1 || p.cfg.get_u("mfenum") == 1 {
                continue;
            }
            let slots = (p.cfg.get_u("slots") as usize).clamp(1, 8);
            let maxpdu = (p.cfg.get_u("maxpdu") as usize).clamp(1, 70_000);
            let bufsize = (p.cfg.get_u("bufsize") as usize).clamp(maxpdu, 140_000);
            let nbuf = (p.cfg.get_u("nbuf") as usize).min(slots + 2);
            let table = dec_table(p.cfg.get_h("table"));
            let mut a = RxNode::new(slots, maxpdu, table.clone(), false);
            let mut b = Decapsulator::new(SimpleGseMemory::new(slots, maxpdu, 0, 0), DefaultCrc {}, TableManager { table });
            let mut b_app: Vec<Box<[u8]>> = vec![];
            for _ in 0..nbuf {
                let _ = a.provision(bufsize);
                let _ = b.provision_storage(vec![0u8; bufsize.max(1)].into_boxed_slice());
            }
            for op in &p.ops {
                match op.name {
                    "feed" => {
                        let bytes = op.get_h("hex");
                        let ra = {
                            let d = &mut a.dec;
                            guarded(|| d.decap(bytes))
                        };
                        let rb = guarded(|| b.decap(bytes));
                        let (sa, sb) = (summarise(&ra), summarise(&rb));
                        compared += 1;
                        if sa != sb {
                            println!("WRAPPER-NOT-TRANSPARENT target={} run={} wrapped: {} bare: {}", target, i, sa, sb);
                            return 1;
                        }
                        match ra {
                            Ok(Ok((DecapStatus::CompletedPkt(x, _), _))) => a.app.push(x),
                            Ok(Err((DecapError::ErrorMemory(DecapMemoryError::StorageOverflow(x)), _))) => a.app.push(x),
                            _ => {}
                        }
                        match rb {
                            Ok(Ok((DecapStatus::CompletedPkt(x, _), _))) => b_app.push(x),
                            Ok(Err((DecapError::ErrorMemory(DecapMemoryError::StorageOverflow(x)), _))) => b_app.push(x),
                            _ => {}
                        }
                    }
                    "prov" => {
                        let size = (op.get_u("size") as usize).clamp(1, 140_000);
                        let ra = a.provision(size).unwrap_or(false);
                        let rb = match b.provision_storage(vec![0u8; size].into_boxed_slice()) {
                            Ok(()) => true,
                            Err(DecapMemoryError::StorageOverflow(x)) | Err(DecapMemoryError::BufferTooSmall(x)) => {
                                b_app.push(x); // the application keeps a refused buffer, as RxNode does
                                false
                            }
                            Err(_) => false,
                        };
                        if ra != rb {
                            println!("WRAPPER-NOT-TRANSPARENT provision target={} run={}", target, i);
                            return 1;
                        }
                    }
                    "ret" => {
                        let k = (op.get_u("n") as usize).min(16);
                        a.give_back(k);
                        for _ in 0..k {
                            if let Some(x) = b_app.pop() {
                                match b.provision_storage(x) {
                                    Ok(()) => {}
                                    Err(DecapMemoryError::StorageOverflow(x)) | Err(DecapMemoryError::BufferTooSmall(x)) => {
                                        b_app.push(x);
                                        break;
                                    }
                                    Err(_) => break,
                                }
                            } else {
                                break;
                            }
                        }
                    }
                    "reset" => {
                        a.reset();
                        b.reset_last_label();
                    }
                    _ => {} // memfault / probe / sweep / walk: not part of this comparison
                }
            }
        }
    }
    println!("wrappers transparent: {} decap results identical between wrapped and bare receivers", compared);
    0
}
