//! Batch runner, minimiser, replay, known findings, evidence writer.

use crate::core::{Scenario, Stats, Tier, Violation};
use crate::json::J;
use crate::program::{parse_text, Op, Program, Val};
use crate::rng::{mix, Rng};
use std::collections::BTreeMap;
use std::sync::atomic::{AtomicU64, Ordering};
use std::sync::Mutex;
use std::time::Instant;

pub const DEFAULT_SEED: u64 = 20260928;

#[derive(Clone, Debug)]
pub struct Known {
    pub prop: String,
    pub clause: String,
    pub site: String, // trailing '*' = prefix match
    pub status: String, // known | fixed
    pub what: String,
    pub commit: String,
}

impl Known {
    pub fn matches(&self, v: &Violation) -> bool {
        if self.status != "known" || self.prop != v.prop || self.clause != v.clause {
            return false;
        }
        if let Some(p) = self.site.strip_suffix('*') {
            v.site.starts_with(p)
        } else {
            self.site == v.site
        }
    }
}

pub fn load_known(path: &str) -> Result<Vec<Known>, String> {
    let text = match std::fs::read_to_string(path) {
        Ok(t) => t,
        Err(_) => return Ok(vec![]),
    };
    let j = crate::json::parse(&text)?;
    let arr = j.get("findings").and_then(|a| a.as_arr()).ok_or("known_findings.json: no findings array")?;
    let mut out = vec![];
    for e in arr {
        let g = |k: &str| e.get(k).and_then(|x| x.as_str()).unwrap_or("").to_string();
        out.push(Known { prop: g("property"), clause: g("clause"), site: g("site"), status: g("status"), what: g("what"), commit: g("commit") });
    }
    Ok(out)
}

/// A run is declared hung when, after HANG_WALL_S seconds of wall-clock time, its thread goes on to burn another
/// HANG_CPU_S seconds of *CPU time* without finishing (a library call that never returns spins; a run that is merely
/// starved on a loaded machine accumulates no CPU time and is left alone). Wall-clock alone is used only when the
/// per-thread CPU time can not be read (no /proc), with a much larger limit.
pub const HANG_WALL_S: u64 = 5;
pub const HANG_CPU_S: u64 = 30;
pub const HANG_WALL_FALLBACK_S: u64 = 900;
pub const HANG_LIMIT_S: u64 = HANG_CPU_S;

/// CPU time (user + system, in clock ticks of 1/100 s) of a thread of this process, or of the whole process (tid 0)
fn cpu_ticks(tid: u64) -> Option<u64> {
    let path = if tid == 0 { "/proc/self/stat".to_string() } else { format!("/proc/self/task/{}/stat", tid) };
    let t = std::fs::read_to_string(path).ok()?;
    let rest = &t[t.rfind(')')? + 1..];
    let f: Vec<&str> = rest.split_whitespace().collect();
    let ut: u64 = f.get(11)?.parse().ok()?;
    let st: u64 = f.get(12)?.parse().ok()?;
    Some(ut + st)
}

fn own_tid() -> u64 {
    std::fs::read_link("/proc/thread-self").ok().and_then(|p| p.file_name().and_then(|n| n.to_str().and_then(|s| s.parse().ok()))).unwrap_or(0)
}

/// A run that does not finish: write its program as the replay file, print the violation, exit 1.
fn report_hang(sc: &dyn Scenario, target: &'static str, tier: Tier, seed: u64, idx: u64) -> ! {
    let mut rng = Rng::new(mix(seed, sc.tag(), idx));
    let p = sc.generate(target, idx, &mut rng, tier);
    let verif_dir = std::env::var("VERIF_DIR").unwrap_or_else(|_| "/verif".to_string());
    let dir = format!("{}/replays", verif_dir);
    let _ = std::fs::create_dir_all(&dir);
    let path = format!("{}/{}-{}-{}-{}-hang.replay", dir, target, sc.name(), seed, idx);
    let header = vec![
        ("property".to_string(), target.to_string()),
        ("clause".to_string(), "hang".to_string()),
        ("site".to_string(), "timeout".to_string()),
        ("detail".to_string(), format!("run did not finish within {} s of CPU time: a library call does not return (not minimised)", HANG_LIMIT_S)),
        ("seed".to_string(), seed.to_string()),
        ("run".to_string(), idx.to_string()),
    ];
    let _ = std::fs::write(&path, p.to_text(&header));
    println!("violation: property={} clause=hang site=timeout", target);
    println!("detail: scenario={} run={} did not finish within {} s of CPU time (a library call does not return)", sc.name(), idx, HANG_LIMIT_S);
    println!("VIOLATION property={} replay={}", target, path);
    std::process::exit(1);
}

pub struct Found {
    pub scenario: usize,
    pub idx: u64,
    pub v: Violation,
    pub p: Program,
}

pub struct BatchOut {
    pub stats: Stats,
    pub runs: u64,
    pub nontrivial_hashes: Vec<u64>,
    pub found: Option<Found>,
    pub known_hits: BTreeMap<usize, u64>,
    pub log_xor: u64,
}

/// Run `n` runs of one scenario on `jobs` worker threads. Output does not depend on `jobs`.
pub fn run_batch(sc: &dyn Scenario, sc_ix: usize, target: &'static str, tier: Tier, seed: u64, n: u64, jobs: usize, known: &[Known]) -> BatchOut {
    let next = AtomicU64::new(0);
    let min_bad = AtomicU64::new(u64::MAX);
    let results: Mutex<Vec<(Stats, Vec<u64>, Option<Found>, BTreeMap<usize, u64>, u64, u64)>> = Mutex::new(vec![]);
    let chunk = 64u64.min((n / (jobs as u64 * 4)).max(1));
    // watchdog: a library call that never returns would hang the check; every property presupposes that
    // the calls return, so a run stuck for HANG_LIMIT_S seconds is reported as a violation of the target.
    let cur: Vec<AtomicU64> = (0..jobs).map(|_| AtomicU64::new(0)).collect();
    let since: Vec<AtomicU64> = (0..jobs).map(|_| AtomicU64::new(0)).collect();
    let tids: Vec<AtomicU64> = (0..jobs).map(|_| AtomicU64::new(0)).collect();
    let t_batch = Instant::now();
    let done = std::sync::atomic::AtomicBool::new(false);
    let active = AtomicU64::new(jobs as u64);
    std::thread::scope(|s| {
        s.spawn(|| {
            // (run marked, CPU ticks of its thread when it was marked)
            let mut mark: Vec<(u64, u64)> = vec![(0, 0); jobs];
            while !done.load(Ordering::Relaxed) && active.load(Ordering::Relaxed) > 0 {
                std::thread::sleep(std::time::Duration::from_millis(250));
                let now = t_batch.elapsed().as_millis() as u64;
                for w in 0..jobs {
                    let c = cur[w].load(Ordering::Relaxed);
                    let t0 = since[w].load(Ordering::Relaxed);
                    if c == 0 || now.saturating_sub(t0) <= HANG_WALL_S * 1000 {
                        mark[w] = (0, 0);
                        continue;
                    }
                    let tid = tids[w].load(Ordering::Relaxed);
                    match if tid != 0 { cpu_ticks(tid) } else { None } {
                        Some(ticks) => {
                            if mark[w].0 != c {
                                mark[w] = (c, ticks);
                            } else if ticks.saturating_sub(mark[w].1) > HANG_CPU_S * 100 && cur[w].load(Ordering::Relaxed) == c {
                                report_hang(sc, target, tier, seed, c - 1);
                            }
                        }
                        None => {
                            if now.saturating_sub(t0) > HANG_WALL_FALLBACK_S * 1000 && cur[w].load(Ordering::Relaxed) == c {
                                report_hang(sc, target, tier, seed, c - 1);
                            }
                        }
                    }
                }
            }
        });
        for wix in 0..jobs {
            let (cur, since, active, t_batch, tids) = (&cur, &since, &active, &t_batch, &tids);
            let (next, min_bad, results) = (&next, &min_bad, &results);
            s.spawn(move || {
                tids[wix].store(own_tid(), Ordering::Relaxed);
                let mut agg = Stats::default();
                let mut hashes: Vec<u64> = vec![];
                let mut found: Option<Found> = None;
                let mut kh: BTreeMap<usize, u64> = BTreeMap::new();
                let mut logx = 0u64;
                let mut runs = 0u64;
                loop {
                    let start = next.fetch_add(chunk, Ordering::Relaxed);
                    if start >= n {
                        break;
                    }
                    for i in start..(start + chunk).min(n) {
                        if i > min_bad.load(Ordering::Relaxed) {
                            continue;
                        }
                        since[wix].store(t_batch.elapsed().as_millis() as u64, Ordering::Relaxed);
                        cur[wix].store(i + 1, Ordering::Relaxed);
                        let mut rng = Rng::new(mix(seed, sc.tag(), i));
                        let p = sc.generate(target, i, &mut rng, tier);
                        let mut st = Stats::default();
                        let v = sc.execute(&p, target, &mut st);
                        cur[wix].store(0, Ordering::Relaxed);
                        runs += 1;
                        logx ^= st.log.wrapping_mul(i.wrapping_mul(2).wrapping_add(1));
                        if st.nontrivial {
                            hashes.push(p.hash());
                        }
                        agg.merge(&st);
                        if let Some(v) = v {
                            if let Some(k) = known.iter().position(|k| k.matches(&v)) {
                                *kh.entry(k).or_insert(0) += 1;
                            } else {
                                let better = found.as_ref().map(|f| i < f.idx).unwrap_or(true);
                                if better {
                                    found = Some(Found { scenario: sc_ix, idx: i, v, p });
                                }
                                min_bad.fetch_min(i, Ordering::Relaxed);
                            }
                        }
                    }
                }
                results.lock().unwrap().push((agg, hashes, found, kh, logx, runs));
                active.fetch_sub(1, Ordering::Relaxed);
            });
        }
    });
    done.store(true, Ordering::Relaxed);
    let mut out = BatchOut { stats: Stats::default(), runs: 0, nontrivial_hashes: vec![], found: None, known_hits: BTreeMap::new(), log_xor: 0 };
    for (agg, hashes, found, kh, logx, runs) in results.into_inner().unwrap() {
        out.stats.merge(&agg);
        out.nontrivial_hashes.extend(hashes);
        out.runs += runs;
        out.log_xor ^= logx;
        for (k, v) in kh {
            *out.known_hits.entry(k).or_insert(0) += v;
        }
        if let Some(f) = found {
            if out.found.as_ref().map(|g| f.idx < g.idx).unwrap_or(true) {
                out.found = Some(f);
            }
        }
    }
    out
}

// ---------------------------------------------------------------------------------------------
// minimisation (delta debugging over ops, then argument shrinking)

pub fn minimise(sc: &dyn Scenario, target: &'static str, p: &Program, sig: &str, max_exec: usize) -> (Program, usize) {
    let mut execs = 0usize;
    let mut cur = p.clone();
    let mut test = |q: &Program, execs: &mut usize| -> bool {
        *execs += 1;
        let mut st = Stats::default();
        match sc.execute(q, target, &mut st) {
            Some(v) => v.sig() == sig,
            None => false,
        }
    };
    // 1. delete op chunks
    let mut chunk = (cur.ops.len() / 2).max(1);
    while chunk >= 1 && execs < max_exec {
        let mut i = 0;
        let mut progressed = false;
        while i < cur.ops.len() && execs < max_exec {
            let mut q = cur.clone();
            let end = (i + chunk).min(q.ops.len());
            q.ops.drain(i..end);
            if test(&q, &mut execs) {
                cur = q;
                progressed = true;
            } else {
                i += chunk;
            }
        }
        if chunk == 1 && !progressed {
            break;
        }
        if chunk > 1 {
            chunk /= 2;
        } else if !progressed {
            break;
        }
    }
    // 2. shrink arguments
    let shrink_op = |get: &dyn Fn(&Program) -> &Op, set: &dyn Fn(&mut Program, Op), cur: &mut Program, execs: &mut usize, test: &mut dyn FnMut(&Program, &mut usize) -> bool| {
        let nargs = get(cur).args.len();
        for a in 0..nargs {
            if *execs >= max_exec {
                return;
            }
            let v = get(cur).args[a].1.clone();
            match v {
                Val::U(x) if x > 0 => {
                    // try 0, then binary search downwards
                    let mut lo = 0u64; // candidate
                    let mut hi = x; // known failing
                    let mut o = get(cur).clone();
                    o.args[a].1 = Val::U(0);
                    let mut q = cur.clone();
                    set(&mut q, o);
                    if test(&q, execs) {
                        *cur = q;
                        continue;
                    }
                    for _ in 0..20 {
                        if hi - lo <= 1 || *execs >= max_exec {
                            break;
                        }
                        let mid = lo + (hi - lo) / 2;
                        let mut o = get(cur).clone();
                        o.args[a].1 = Val::U(mid);
                        let mut q = cur.clone();
                        set(&mut q, o);
                        if test(&q, execs) {
                            *cur = q;
                            hi = mid;
                        } else {
                            lo = mid;
                        }
                    }
                }
                Val::H(b) if !b.is_empty() => {
                    // try truncations from the end (halving)
                    let mut len = b.len();
                    let mut step = len / 2;
                    while step >= 1 && *execs < max_exec {
                        if len > step {
                            let mut o = get(cur).clone();
                            let mut nb = match &o.args[a].1 {
                                Val::H(x) => x.clone(),
                                _ => vec![],
                            };
                            nb.truncate(len - step);
                            o.args[a].1 = Val::H(nb);
                            let mut q = cur.clone();
                            set(&mut q, o);
                            if test(&q, execs) {
                                *cur = q;
                                len -= step;
                                continue;
                            }
                        }
                        step /= 2;
                    }
                }
                _ => {}
            }
        }
    };
    shrink_op(&|p: &Program| &p.cfg, &|p: &mut Program, o: Op| p.cfg = o, &mut cur, &mut execs, &mut test);
    let nops = cur.ops.len();
    for i in 0..nops {
        shrink_op(&|p: &Program| &p.ops[i], &|p: &mut Program, o: Op| p.ops[i] = o, &mut cur, &mut execs, &mut test);
    }
    // 3. one more single-op deletion pass
    let mut i = 0;
    while i < cur.ops.len() && execs < max_exec {
        let mut q = cur.clone();
        q.ops.remove(i);
        if test(&q, &mut execs) {
            cur = q;
        } else {
            i += 1;
        }
    }
    (cur, execs)
}

// ---------------------------------------------------------------------------------------------

pub fn find_scenario<'a>(all: &'a [Box<dyn Scenario>], name: &str) -> Option<&'a dyn Scenario> {
    all.iter().find(|s| s.name() == name).map(|b| b.as_ref())
}

/// Replay a file; returns (exit code, printed signature)
pub fn replay_file(all: &[Box<dyn Scenario>], path: &str, quiet: bool) -> i32 {
    let text = match std::fs::read_to_string(path) {
        Ok(t) => t,
        Err(e) => {
            eprintln!("HARNESS-ERROR cannot read {}: {}", path, e);
            return 2;
        }
    };
    let rf = match parse_text(&text) {
        Ok(r) => r,
        Err(e) => {
            eprintln!("HARNESS-ERROR cannot parse {}: {}", path, e);
            return 2;
        }
    };
    let sc = match find_scenario(all, rf.program.scenario) {
        Some(s) => s,
        None => {
            eprintln!("HARNESS-ERROR unknown scenario {}", rf.program.scenario);
            return 2;
        }
    };
    let prop = crate::program::intern(rf.header.get("property").map(|s| s.as_str()).unwrap_or(""));
    let mut st = Stats::default();
    // a replay of a non-terminating run must itself terminate: execute under a watchdog
    let finished = std::sync::atomic::AtomicBool::new(false);
    let result = std::thread::scope(|s| {
        s.spawn(|| {
            let t0 = Instant::now();
            let c0 = cpu_ticks(0);
            while !finished.load(Ordering::Relaxed) {
                std::thread::sleep(std::time::Duration::from_millis(100));
                // CPU time of the process (this replay is its only work), wall-clock only without /proc
                let hung = match (c0, cpu_ticks(0)) {
                    (Some(a), Some(b)) => t0.elapsed().as_secs() > HANG_WALL_S && b.saturating_sub(a) > (HANG_CPU_S + HANG_WALL_S) * 100,
                    _ => t0.elapsed().as_secs() > HANG_WALL_FALLBACK_S,
                };
                if hung {
                    println!("SIG {}|hang|timeout", prop);
                    if !quiet {
                        println!("replayed: property={} clause=hang site=timeout", prop);
                        println!("VIOLATION property={} replay={}", prop, path);
                    }
                    std::process::exit(1);
                }
            }
        });
        let r = sc.execute(&rf.program, prop, &mut st);
        finished.store(true, Ordering::Relaxed);
        r
    });
    match result {
        Some(v) => {
            println!("SIG {}", v.sig());
            if !quiet {
                println!("replayed: property={} clause={} site={}", v.prop, v.clause, v.site);
                println!("detail: {}", v.detail);
                println!("VIOLATION property={} replay={}", v.prop, path);
            }
            1
        }
        None => {
            println!("SIG none");
            if !quiet {
                println!("replay of {} shows no violation of {} (log {:016x})", path, prop, st.log);
            }
            0
        }
    }
}

pub struct CheckOut {
    pub code: i32,
}

pub struct PropInfo {
    pub id: &'static str,
    pub level: &'static str,
    pub assumptions: &'static [&'static str],
}

pub fn run_check(all: &[Box<dyn Scenario>], info: &PropInfo, tier: Tier, seed: u64, jobs: usize, verif_dir: &str, budget_scale: f64) -> i32 {
    let t0 = Instant::now();
    let target = info.id;
    let known = match load_known(&format!("{}/known_findings.json", verif_dir)) {
        Ok(k) => k,
        Err(e) => {
            eprintln!("HARNESS-ERROR {}", e);
            return 2;
        }
    };
    let mut total_runs = 0u64;
    let mut all_hashes: Vec<u64> = vec![];
    let mut agg = Stats::default();
    let mut found: Option<Found> = None;
    let mut known_hits: BTreeMap<usize, u64> = BTreeMap::new();
    let mut per_scenario = vec![];
    let mut samples = vec![];
    let mut rules = vec![];
    let mut real: Vec<&str> = vec![];
    let mut stub: Vec<&str> = vec![];
    let mut log_xor = 0u64;
    for (ix, sc) in all.iter().enumerate() {
        let n0 = sc.budget(target, tier);
        if n0 == 0 {
            continue;
        }
        let n = ((n0 as f64 * budget_scale) as u64).max(1);
        let ts = Instant::now();
        let out = run_batch(sc.as_ref(), ix, target, tier, seed, n, jobs, &known);
        let secs = ts.elapsed().as_secs_f64();
        total_runs += out.runs;
        log_xor ^= out.log_xor.rotate_left(ix as u32);
        all_hashes.extend(out.nontrivial_hashes.iter().map(|h| h ^ (sc.tag().wrapping_mul(0x9E37_79B9_7F4A_7C15))));
        agg.merge(&out.stats);
        for (k, v) in out.known_hits {
            *known_hits.entry(k).or_insert(0) += v;
        }
        per_scenario.push(
            J::obj()
                .set("scenario", J::s(sc.name()))
                .set("runs", J::i(out.runs as i128))
                .set("wall_s", J::Num(secs))
                .set("runs_per_hour", J::i(if secs > 0.0 { (out.runs as f64 / secs * 3600.0) as i128 } else { 0 }))
                .set("first_run_seed", J::i(mix(seed, sc.tag(), 0) as i128))
                .set("last_run_seed", J::i(mix(seed, sc.tag(), n - 1) as i128)),
        );
        rules.push(format!("[{}] {}", sc.name(), sc.rule()));
        for r in sc.components_real() {
            if !real.contains(r) {
                real.push(r);
            }
        }
        for r in sc.components_stub() {
            if !stub.contains(r) {
                stub.push(r);
            }
        }
        // samples: first runs, regenerated (cheap, deterministic)
        for i in 0..3u64.min(n) {
            let mut rng = Rng::new(mix(seed, sc.tag(), i));
            let p = sc.generate(target, i, &mut rng, tier);
            let mut st = Stats::default();
            let v = sc.execute(&p, target, &mut st);
            samples.push(
                J::obj()
                    .set("scenario", J::s(sc.name()))
                    .set("run", J::i(i as i128))
                    .set("run_seed", J::i(mix(seed, sc.tag(), i) as i128))
                    .set("program", J::s(p.summary(14)))
                    .set("ops", J::i(p.ops.len() as i128))
                    .set("outcome", J::s(match &v {
                        None => format!("held; nontrivial={} log={:016x}", st.nontrivial, st.log),
                        Some(v) => format!("violation {}", v.sig()),
                    })),
            );
        }
        if let Some(f) = out.found {
            if found.is_none() {
                found = Some(f);
            }
        }
    }
    if total_runs == 0 {
        eprintln!("HARNESS-ERROR no scenario serves {}", target);
        return 2;
    }
    all_hashes.sort_unstable();
    all_hashes.dedup();
    let distinct = all_hashes.len() as u64;

    // known findings lines
    for (k, n) in &known_hits {
        let e = &known[*k];
        println!("KNOWN-FINDING: property={} {} [clause={} site={} hits={}]", e.prop, e.what, e.clause, e.site, n);
    }

    let mut code = 0;
    let mut violations = 0;
    if let Some(f) = found {
        violations = 1;
        let sc = all[f.scenario].as_ref();
        let sig = f.v.sig();
        // the executor may propose an equivalent concrete program (one case of an enumerative op)
        let mut start = f.p.clone();
        if let Some(r) = &f.v.reduced {
            let mut st = Stats::default();
            if sc.execute(r, target, &mut st).map(|v| v.sig() == sig).unwrap_or(false) {
                start = (**r).clone();
            }
        }
        let (minp, execs) = minimise(sc, target, &start, &sig, 2500);
        // re-execute the minimised program for the final detail
        let mut st = Stats::default();
        let v2 = sc.execute(&minp, target, &mut st).unwrap_or(f.v.clone());
        let dir = format!("{}/replays", verif_dir);
        let _ = std::fs::create_dir_all(&dir);
        let path = format!("{}/{}-{}-{}-{}.replay", dir, target, sc.name(), seed, f.idx);
        let header = vec![
            ("property".to_string(), target.to_string()),
            ("clause".to_string(), v2.clause.to_string()),
            ("site".to_string(), v2.site.clone()),
            ("detail".to_string(), v2.detail.clone()),
            ("seed".to_string(), seed.to_string()),
            ("run".to_string(), f.idx.to_string()),
            ("run_seed".to_string(), mix(seed, sc.tag(), f.idx).to_string()),
            ("original_ops".to_string(), f.p.ops.len().to_string()),
            ("minimised_ops".to_string(), minp.ops.len().to_string()),
            ("minimiser_executions".to_string(), execs.to_string()),
        ];
        if let Err(e) = std::fs::write(&path, minp.to_text(&header)) {
            eprintln!("HARNESS-ERROR cannot write replay {}: {}", path, e);
            return 2;
        }
        // fresh-process replay must reproduce the same signature
        let exe = std::env::current_exe().unwrap();
        let outp = std::process::Command::new(exe).arg("replay").arg(&path).arg("--quiet").output();
        match outp {
            Ok(o) => {
                let so = String::from_utf8_lossy(&o.stdout);
                let want = format!("SIG {}", sig);
                if so.lines().any(|l| l.trim() == want) {
                    println!("violation: property={} clause={} site={}", v2.prop, v2.clause, v2.site);
                    println!("detail: {}", v2.detail);
                    println!("scenario={} seed={} run={} ops {} -> {} ({} minimiser executions)", sc.name(), seed, f.idx, f.p.ops.len(), minp.ops.len(), execs);
                    println!("VIOLATION property={} replay={}", target, path);
                    code = 1;
                } else {
                    eprintln!("HARNESS-ERROR fresh-process replay of {} did not reproduce {} (got: {})", path, sig, so.trim());
                    return 2;
                }
            }
            Err(e) => {
                eprintln!("HARNESS-ERROR cannot spawn replay: {}", e);
                return 2;
            }
        }
    }

    // evidence
    let wall = t0.elapsed().as_secs_f64();
    let mut cov = J::obj()
        .set("evaluations", J::i(total_runs as i128))
        .set("distinct_nontrivial", J::i(distinct as i128))
        .set("rule", J::s(rules.join(" || ")))
        .set("samples", J::Arr(samples))
        .set("runs_per_hour", J::i(if wall > 0.0 { (total_runs as f64 / wall * 3600.0) as i128 } else { 0 }))
        .set("scenarios", J::Arr(per_scenario))
        .set("event_log_digest", J::s(format!("{:016x}", log_xor)))
        .set("jobs", J::i(jobs as i128));
    // counters: split into faults / probes / other by prefix
    let mut faults = BTreeMap::new();
    let mut nf = BTreeMap::new();
    let mut probes = BTreeMap::new();
    let mut counters = BTreeMap::new();
    for (k, v) in &agg.c {
        if let Some(r) = k.strip_prefix("fault.") {
            faults.insert(r.to_string(), *v);
        } else if let Some(r) = k.strip_prefix("nofire.") {
            nf.insert(r.to_string(), *v);
        } else if let Some(r) = k.strip_prefix("probe.") {
            probes.insert(r.to_string(), *v);
        } else {
            counters.insert(k.to_string(), *v);
        }
    }
    for sc in all.iter() {
        if sc.budget(target, tier) > 0 {
            for pr in sc.expected_probes(target) {
                probes.entry(pr.to_string()).or_insert(0);
            }
        }
    }
    let zero: Vec<J> = probes.iter().filter(|(_, v)| **v == 0).map(|(k, _)| J::s(k.clone())).collect();
    cov.put("faults_fired", J::from_counts(&faults));
    cov.put("faults_configured_not_fired", J::from_counts(&nf));
    cov.put("probes", J::from_counts(&probes));
    cov.put("probes_at_zero", J::Arr(zero));
    cov.put("counters", J::from_counts(&counters));
    let mut covsets = BTreeMap::new();
    for (k, s) in &agg.cover {
        covsets.insert(k.to_string(), s.len() as u64);
    }
    if let Some(s) = agg.cover.get("state") {
        cov.put("states", J::i(s.len() as i128));
    }
    if let Some(s) = agg.cover.get("transition") {
        cov.put("transitions", J::i(s.len() as i128));
    }
    cov.put("coverage_sets", J::from_counts(&covsets));
    cov.put("simulated_time", J::s("the library has no clock; discrete stand-ins are counters.frames / counters.packets / counters.lib_calls"));
    cov.put("components", J::obj().set("real", J::Arr(real.iter().map(|s| J::s(*s)).collect())).set("stub", J::Arr(stub.iter().map(|s| J::s(*s)).collect())));
    cov.put("other_property_violations_seen_not_reported", J::from_counts(&agg.other));
    let kh: Vec<J> = known_hits.iter().map(|(k, n)| J::obj().set("site", J::s(known[*k].site.clone())).set("clause", J::s(known[*k].clause.clone())).set("hits", J::i(*n as i128))).collect();
    cov.put("known_findings_hit", J::Arr(kh));
    let ev = J::obj()
        .set("property_id", J::s(target))
        .set("tier", J::s(if tier == Tier::Quick { "quick" } else { "thorough" }))
        .set("seed", J::i(seed as i128))
        .set("level", J::s(info.level))
        .set("coverage", cov)
        .set("assumptions", J::Arr(info.assumptions.iter().map(|s| J::s(*s)).collect()))
        .set("wall_s", J::Num(wall))
        .set("violations", J::i(violations));
    let epath = format!("{}/evidence/{}.json", verif_dir, target);
    let _ = std::fs::create_dir_all(format!("{}/evidence", verif_dir));
    if let Err(e) = std::fs::write(&epath, ev.to_string_pretty()) {
        eprintln!("HARNESS-ERROR cannot write evidence {}: {}", epath, e);
        return 2;
    }
    println!(
        "{} {} seed={} runs={} distinct_nontrivial={} wall={:.1}s digest={:016x} -> {}",
        target,
        if tier == Tier::Quick { "quick" } else { "thorough" },
        seed,
        total_runs,
        distinct,
        wall,
        log_xor,
        if code == 0 { "held" } else { "VIOLATED" }
    );
    code
}
