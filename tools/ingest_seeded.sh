#!/usr/bin/env bash
# tools/ingest_seeded.sh <ID> <k> [tier]
# Confirms a sub-agent's seeded change (/tmp/wt/<ID>/out/patch_<k>.diff + demo) in a scratch worktree of /repo
# (compiles, existing tests pass, demo fails with / passes without the change), then runs every claimed check
# against it using a scratch copy of the harness pointed at that worktree (so /repo is never touched), and stores
# everything under /verif/seeded/<ID>_<k>/.  Scratch dirs are removed at the end.
set -u
id="$1"; k="$2"; tier="${3:-quick}"
wt="${SEED_WT:-/tmp/wt}"; tag="${SEED_TAG:-}"
src=$wt/$id/out
[ -f "$src/patch_$k.diff" ] || { echo "no patch $src/patch_$k.diff"; exit 2; }
work=$(mktemp -d /tmp/seed_${id}_${k}.XXXX)
cleanup() { git -C /repo worktree remove --force "$work/repo" >/dev/null 2>&1; rm -rf "$work"; }
trap cleanup EXIT
git -C /repo worktree add -q --detach "$work/repo" HEAD || exit 2
cd "$work/repo"
demo=$(ls $src/demo_${id}_$k.rs 2>/dev/null | head -1)
res="$work/result.txt"; : > $res
export CARGO_NET_OFFLINE=true
# 1. original tree: demo passes
cp "$demo" tests/ 2>/dev/null
dname=$(basename "$demo" .rs)
if cargo test --offline --test "$dname" >"$work/demo_orig.log" 2>&1; then echo "demo_on_original=pass" >> $res; else echo "demo_on_original=FAIL" >> $res; fi
# 2. with the change: compiles, existing tests pass, demo fails
if ! git apply "$src/patch_$k.diff" 2>"$work/apply.log"; then echo "patch_applies=NO" >> $res; cat $res; mkdir -p /verif/seeded/${id}_${tag}$k; cp $res /verif/seeded/${id}_${tag}$k/REJECTED.txt; exit 3; fi
echo "patch_applies=yes" >> $res
rm -f tests/$dname.rs
if cargo test --offline --no-fail-fast >"$work/tests_mut.log" 2>&1; then echo "existing_tests_with_change=pass" >> $res; else echo "existing_tests_with_change=FAIL" >> $res; fi
grep -E "^test result" "$work/tests_mut.log" | tr '\n' ' ' >> $res; echo >> $res
cp "$demo" tests/
if cargo test --offline --test "$dname" >"$work/demo_mut.log" 2>&1; then echo "demo_with_change=pass(NOT A DEMONSTRATION)" >> $res; else echo "demo_with_change=fail" >> $res; fi
rm -f tests/$dname.rs
# 3. run the checks against it (scratch copy of the harness)
mkdir -p "$work/sim" "$work/vd"
rsync -a --exclude target /verif/sim/ "$work/sim/"
sed -i "s|path = \"/repo\"|path = \"$work/repo\"|" "$work/sim/Cargo.toml"
cp /verif/known_findings.json "$work/vd/"
( cd "$work/sim" && cargo build --release --offline >"$work/build.log" 2>&1 ) || { echo "harness_build=FAIL" >> $res; tail -20 "$work/build.log"; }
bin="$work/sim/target/release/gsesim"
props=$(python3 -c "import json;print(' '.join(c['property_id'] for c in json.load(open('/verif/MANIFEST.json'))['checks']))")
# SEED_PROPS=own limits the run to the change's own property (fast triage); SEED_PROPS="C01 C04" to a list
if [ "${SEED_PROPS:-}" = own ]; then props="$id"; elif [ -n "${SEED_PROPS:-}" ]; then props="$SEED_PROPS"; fi
caught=""; silent=""
for p in $props; do
  out=$(VERIF_DIR="$work/vd" "$bin" check $p $tier 2>&1); rc=$?
  if [ $rc -eq 1 ]; then caught="$caught $p"; echo "[$p] $(echo "$out" | grep -E '^violation:' | head -1)" >> $res; echo "[$p] $(echo "$out" | grep -E '^detail:' | head -1 | cut -c1-300)" >> $res
  elif [ $rc -eq 0 ]; then silent="$silent $p"; else echo "[$p] rc=$rc $(echo "$out" | tail -2)" >> $res; fi
done
echo "caught_by=[$caught ] silent=[$silent ] tier=$tier" >> $res
target_caught=no; echo " $caught " | grep -q " $id " && target_caught=yes
echo "target_property_check_catches=$target_caught" >> $res
# 4. store
dst=/verif/seeded/${id}_${tag}$k; mkdir -p $dst
cp "$src/patch_$k.diff" $dst/patch.diff; cp "$demo" $dst/; cp "$src/meta_$k.json" $dst/meta_agent.json 2>/dev/null
cp $res $dst/confirmation.txt
mkdir -p $dst/replays; cp "$work"/vd/replays/*.replay $dst/replays/ 2>/dev/null
python3 - "$dst" "$id" "$k" <<'PY'
import json,sys,os
dst,id,k=sys.argv[1:4]
conf=open(dst+'/confirmation.txt').read()
try: agent=json.load(open(dst+'/meta_agent.json'))
except Exception: agent={}
meta={"property":id,"variant":int(k),"summary":agent.get("summary",""),"needs_to_manifest":agent.get("needs_to_manifest",""),
 "confirmed":{l.split('=')[0]:l.split('=',1)[1] for l in conf.splitlines() if '=' in l and not l.startswith('[') and not l.startswith('test result')},
 "what_was_run":"tools/ingest_seeded.sh: scratch worktree of /repo HEAD; cargo test --offline (existing suite) with the change; demo with and without the change; every claimed check (quick tier unless stated) from a scratch copy of /verif/sim built against the changed worktree"}
json.dump(meta,open(dst+'/meta.json','w'),indent=1)
PY
cat $res | tail -8
