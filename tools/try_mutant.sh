#!/usr/bin/env bash
# tools/try_mutant.sh <patch> [tier] [prop ...]
# Applies a property-breaking patch to /repo, runs the listed checks (default: all claimed), prints
# which of them report a VIOLATION, and ALWAYS restores /repo afterwards. Never commits anything.
set -u
patch="$(readlink -f "$1")"; shift
tier="${1:-quick}"; [ $# -gt 0 ] && shift
props=("$@")
if [ ${#props[@]} -eq 0 ]; then
  props=($(python3 -c "import json;print(' '.join(c['property_id'] for c in json.load(open('/verif/MANIFEST.json'))['checks']))"))
fi
cd /repo || exit 2
if [ -n "$(git status --porcelain --untracked-files=no)" ]; then echo "HARNESS-ERROR /repo has uncommitted changes" >&2; exit 2; fi
restore() { git -C /repo checkout -- . ; }
trap restore EXIT
if ! git apply "$patch"; then echo "PATCH-DOES-NOT-APPLY $patch"; exit 3; fi
caught=(); missed=(); errors=()
for p in "${props[@]}"; do
  out=$(cd /verif && VERIF_MUTANT_RUN=1 ./check "$p" "$tier" 2>&1); rc=$?
  if [ $rc -eq 1 ] && echo "$out" | grep -q "^VIOLATION property=$p "; then
    caught+=("$p"); echo "$out" | grep -E "^(violation:|detail:)" | head -2 | sed "s/^/   [$p] /"
  elif [ $rc -eq 0 ]; then missed+=("$p")
  else errors+=("$p:rc=$rc"); echo "$out" | tail -3 | sed "s/^/   [$p] /"
  fi
done
echo "MUTANT $(basename "$patch"): caught_by=[${caught[*]:-}] silent=[${missed[*]:-}] errors=[${errors[*]:-}]"
