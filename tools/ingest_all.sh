#!/usr/bin/env bash
# ingest every sub-agent output not yet ingested
for d in /tmp/wt/C??; do id=$(basename $d); for k in 1 2 3; do
  if [ -f $d/out/patch_$k.diff ] && [ ! -d /verif/seeded/${id}_$k ]; then echo "== $id $k"; /verif/tools/ingest_seeded.sh $id $k quick 2>&1 | grep -E "caught_by|target_property|demo_|existing_tests|patch_applies=NO"; fi
done; done
