#!/usr/bin/env bash
# ingest every sub-agent output not yet ingested. Env: SEED_WT (default /tmp/wt), SEED_TAG (default empty, e.g. r2_)
wt="${SEED_WT:-/tmp/wt}"; tag="${SEED_TAG:-}"
for d in $wt/C??; do id=$(basename $d); for k in 1 2 3; do
  if [ -f $d/out/patch_$k.diff ] && [ -f $d/out/meta_$k.json ] && [ ! -d /verif/seeded/${id}_${tag}$k ]; then echo "== $id $k"; /verif/tools/ingest_seeded.sh $id $k quick 2>&1 | grep -E "caught_by|target_property|patch_applies=NO"; fi
done; done
