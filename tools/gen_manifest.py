#!/usr/bin/env python3
"""Regenerates /verif/MANIFEST.json from the table below (kept in one place so it stays valid)."""
import json, sys
CLAIMED = {
 # id: (category, technique, text, note, design_ref)
 "C01": ("exploration", "deterministic protocol simulation (fault-free lock-step Tx/Rx), seeded search over label histories and size schedules",
         "Seeded lock-step simulation of real Encapsulator and Decapsulator over label histories, re-use configuration changes, frame resets and boundary-biased sizes; checks delivery equality and the must-be-complete predicate on every complete packet. Sampling, not proof; the weakest level is claimed because the property can fail without any fault or interleaving.",
         "Trusts the harness' independent wire parser and expectation ledger; PDU <= 4093, buffers <= 70000.", "6/C01"),
 "C02": ("exploration", "deterministic protocol simulation with a seeded buffer-size scheduler",
         "Seeded buffer-size schedules (0..70000 bytes per call, tiny / >4097 / payload-but-no-CRC classes) drive encap + encap_frag; every produced packet is fed in order to a real decapsulator; delivery equality, consumed==reported and the bounded-progress clause are checked.",
         "Sampling of schedules; PDU lengths to 65533; storage sufficient by construction.", "6/C02"),
 "C04": ("exploration", "deterministic protocol simulation of sender/receiver label state machines over call histories incl. failing calls; receiver-alone runs with junk",
         "Lock-step histories over labels, failing calls, configuration changes and frame resets checked against an intended-label ledger; receiver clause checked with an allowed-resolution set under interleaved rejected/malformed packets.",
         "Small label alphabet; histories to 700 ops.", "6/C04"),
 "C06": ("exploration", "wire monitor on every packet the simulated sender emits; independent ETSI TS 102 606 parser/serialiser; canary buffers",
         "Every Ok result of encap / encap_frag / encap_ext in the simulation is parsed by an independent codec, re-serialised from the observed split and compared byte for byte; canary bytes beyond the reported length must be untouched.",
         "The independent codec is the trusted base.", "6/C06"),
 "C07": ("exploration", "deterministic simulation with a seeded merge scheduler (uniform and PCT-like) and stray-packet injector",
         "2..4 fragmented PDUs on separately tracked fragment ids are merged in seeded order-preserving interleavings with stray packets (unknown and aliasing ids) at any position; exactly-once intact delivery with own metadata is checked per stream.",
         "Interleavings are sampled; distinct merge words are reported.", "6/C07"),
 "C10": ("exploration", "deterministic simulation: framer + real receivers (frame walker vs isolated exact-slice receiver; packet followed by further bytes vs shadow receiver fed the packet alone)",
         "Frames of back-to-back sender packets with padding/garbage are walked by consumed lengths and compared packet by packet with an isolated receiver fed exact slices, including rejected packets of the listed classes.",
         "Corruptions limited to one bit flip per packet in this scenario.", "6/C10"),
 "C11": ("exploration", "deterministic simulation of the sender under seeded buffer-size schedules and arbitrary context positions",
         "Context advance, slice partition, end-CRC placement, no-empty-fragment and >=7-byte progress are checked at every continuation call.",
         "Sampling; PDU to 65535.", "6/C11"),
 "C12": ("exploration", "recording CRC seam on both simulated parties + wire trailer check against a CRC generated from the polynomial + the calculator called on arbitrary inputs",
         "Every CRC call either party makes through the public CrcCalculator seam is compared with a bitwise-derived CRC-32/MPEG-2; trailers of end packets are recomputed from the first fragment's fields.",
         "Pure clause is checked on the inputs the simulation produces.", "6/C12"),
 "C13": ("exploration", "deterministic simulation of encap_ext/decap with seeded extension chains, buffer schedules and manager tables",
         "Extension chains (optional H-LEN classes, non-final and final mandatory) round-trip through real code with receivers knowing all/some/none of the mandatory ids; constructor swept over all ids x data lengths 0..10.",
         "Constructor sweep is plain enumeration and labelled so.", "6/C13"),
 "C15": ("exploration", "deterministic simulation of the sender alone with a wire-level policy monitor over call/config/reset histories (bounded-exhaustive call sequences, then seeded)",
         "Policy bounds are read from the label-type bits of each emitted start/complete packet over histories incl. counter wrap.",
         "Counts only substituted re-use packets; max 0 = unlimited.", "6/C15"),
 "C18": ("exploration", "planner monitor: previews called before every simulated encap/encap_frag",
         "encap_preview / encap_frag_preview are compared with the real call for every simulated sender call (sizes to 70000, protocol types 0..0xFFFF).",
         "Skipped when a re-use substitution cannot be excluded.", "6/C18"),
 "C19": ("exploration", "receiver-side peek monitor before every simulated decap (exact slice and inside frames)",
         "get_label_or_frag_id is compared with the wire and with decap's association for every sender-produced packet, alone and followed by further bytes.",
         "", "6/C19"),
 "C03": ("fault_enumeration", "deterministic simulation with link fault injection (drop/dup/swap/flip/burst/truncate/field replacement/splice, refused first fragments inside trains) + complete single-fault and field-value neighbourhoods of sampled base trains + bursts derived from the reference CRC by GF(2) elimination",
         "Faulted fragment trains and crafted trains are fed to the real receiver; every completion is checked against an independent reassembly + CRC oracle evaluated on the bytes actually received.",
         "Double faults sampled; single-fault neighbourhoods of sampled bases enumerated; the burst / truncation clause is asserted where the harness knows the original packet. One known finding (K1) is recorded in known_findings.json and reported as KNOWN-FINDING.", "6/C03"),
 "C05": ("fault_enumeration", "deterministic simulation: receiver driven to history-reached states (re-established after every disturbing input), then link noise (systematic sweeps incl. every truncation + random + mutated) with storage faults and stored-context corruption at the memory seam",
         "No panic, consumed bounds and walker termination for decap and peek across receiver state classes; small input sub-spaces enumerated completely.",
         "Sweeps are enumeration and labelled so.", "6/C05"),
 "C08": ("fault_enumeration", "deterministic simulation with a ledger memory wrapper at the GseDecapMemory seam, injected memory faults (underflow, overflow, undefined id, refused save, corrupted stored context) incl. each trait call failed in turn",
         "Buffer conservation ledger + audit through the trait after every call, across rejection classes and memory faults.",
         "MemoryCorrupted from save_frag carries no buffer: excluded.", "6/C08"),
 "C09": ("exploration", "deterministic simulation of the sender with a shadow twin and bad-request fault injection",
         "No panic, buffer unchanged on Err, behavioural equality with a twin that never saw the failed call, must-fail classes.",
         "", "6/C09"),
 "C16": ("exploration", "deterministic simulation: arbitrary faulty receiver history, then faults stop and a probe transfer must succeed (bounded liveness)",
         "Probe complete packet or fragmented PDU must be delivered within its own packets after any prefix.",
         "", "6/C16"),
 "C17": ("exploration", "component-level simulation of SimpleGseMemory against an executable bag+slots reference model (bounded-exhaustive operation sequences, then seeded)",
         "Lock-step refinement check over seeded op histories, 1..4 slots, aliasing ids.",
         "", "6/C17"),
}
NA = [
 {"property_id": "C14", "reason": "Pure bijection on one 16-bit word: no state, party, schedule or fault; deciding it is exhaustive enumeration of 65536 words and 16x4096 triples, which is not deterministic simulation. See DESIGN.md section 7."},
 {"property_id": "C20", "reason": "Stateless utils test-helper serialisers that no simulated party calls; a pure function of one packet description, nothing to schedule or fault. See DESIGN.md section 7."},
]
def main():
    enabled = sys.argv[1:]  # ids to include (default all)
    ids = enabled or sorted(CLAIMED)
    checks = []
    for i in ids:
        cat, tech, text, note, ref = CLAIMED[i]
        checks.append({
            "property_id": i,
            "quick_cmd": f"./check {i} quick",
            "thorough_cmd": f"./check {i} thorough",
            "evidence_file": f"/verif/evidence/{i}.json",
            "replay_cmd_template": "./check replay {path}",
            "engine": "gsesim",
            "level_claimed": {"category": cat, "text": text, "design_ref": f"DESIGN.md section {ref}"},
            "level_note": (note + " " if note else "") + "Real library code from /repo's working tree; application, link, scheduler and seam wrappers are harness code; seeded sampling is evidence, not proof.",
            "technique": tech,
        })
    na = list(NA)
    for i in sorted(CLAIMED):
        if i not in ids:
            na.append({"property_id": i, "reason": "check not built yet in this revision of /verif (planned: DESIGN.md section 6); not claimed until it runs"})
    m = {
        "version": 1,
        "setup_cmd": "cd /verif/sim && CARGO_NET_OFFLINE=true cargo build --release --offline",
        "hooks": {
            "guard": "--cfg dvb_gse_rust_verif",
            "enable": "no hooks are needed: the harness reaches the code through public traits (GseDecapMemory, CrcCalculator, MandatoryHeaderExtensionManager) and the pub Decapsulator::memory field; nothing in /repo is guarded",
            "baseline_off_cmd": "cd /repo && cargo test --workspace --no-fail-fast --offline",
            "source_commits": [],
            "add_only": True,
        },
        "engines": [{"name": "gsesim", "path": "/verif/sim", "serves_properties": ids,
                     "kind_free_text": "deterministic protocol simulator with fault injection: real Encapsulator/Decapsulator/SimpleGseMemory/DefaultCrc joined by a simulated link; one PRNG decides every choice; programs are explicit op lists (replay = program), delta-debugging minimiser, fresh-process replay"}],
        "checks": checks,
        "not_applicable": na,
        "notes": "VERIF_SEED selects the base seed (default 20260928); exit 2 = harness error (never reported as a violation). known_findings.json: 17 defects found by the checks and repaired in /repo (status fixed: suppress nothing) and 1 recorded known finding (K1, C03 burst clause, design-level: the C03 check prints a KNOWN-FINDING line for it and exits 0). A run or replay stuck for 20 s is reported as a violation (clause=hang). See DESIGN.md sections 8.3, 10 and 13.",
    }
    json.dump(m, open("/verif/MANIFEST.json", "w"), indent=1)
    print("wrote MANIFEST.json with", len(checks), "checks")
main()
