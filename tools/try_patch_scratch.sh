#!/usr/bin/env bash
# tools/try_patch_scratch.sh <patch> [tier] [scale]
# Runs every claimed check against a scratch worktree of /repo with <patch> applied, using a scratch copy of
# the harness (never touches /repo or /verif/sim/target). Prints caught_by / silent. Cleans up after itself.
set -u
patch="$(readlink -f "$1")"; tier="${2:-quick}"; scale="${3:-1}"
work=$(mktemp -d /tmp/trypatch.XXXX)
cleanup() { git -C /repo worktree remove --force "$work/repo" >/dev/null 2>&1; rm -rf "$work"; }
trap cleanup EXIT
git -C /repo worktree add -q --detach "$work/repo" HEAD || exit 2
( cd "$work/repo" && git apply "$patch" ) || { echo "PATCH-DOES-NOT-APPLY $(basename $patch)"; exit 3; }
mkdir -p "$work/sim" "$work/vd"; rsync -a --exclude target /verif/sim/ "$work/sim/"
sed -i "s|path = \"/repo\"|path = \"$work/repo\"|" "$work/sim/Cargo.toml"; cp /verif/known_findings.json "$work/vd/"
( cd "$work/sim" && CARGO_NET_OFFLINE=true cargo build --release --offline >"$work/build.log" 2>&1 ) || { echo "BUILD-FAILED $(basename $patch)"; tail -15 "$work/build.log"; exit 4; }
props=$(python3 -c "import json;print(' '.join(c['property_id'] for c in json.load(open('/verif/MANIFEST.json'))['checks']))")
# TRY_PROPS="C02 C04" limits the run to those checks
[ -n "${TRY_PROPS:-}" ] && props="$TRY_PROPS"
caught=""; silent=""; errs=""
for p in $props; do
  out=$(VERIF_DIR="$work/vd" "$work/sim/target/release/gsesim" check $p $tier --scale $scale 2>&1); rc=$?
  if [ $rc -eq 1 ]; then caught="$caught $p"; echo "   [$p] $(echo "$out" | grep -E '^violation:' | head -1)"; echo "   [$p] $(echo "$out" | grep -E '^detail:' | head -1 | cut -c1-260)"
  elif [ $rc -eq 0 ]; then silent="$silent $p"; else errs="$errs $p:rc=$rc"; echo "$out" | tail -2; fi
done
echo "PATCH $(basename $patch): caught_by=[$caught ] silent=[$silent ] errors=[$errs ]"
