#!/usr/bin/env bash
# tools/ingest_equiv.sh: run every check against each agent-written "equivalent" (/tmp/wt5/<ID>/out/equiv_<k>.diff) and
# store diff, argument and result under /verif/equivalents/agents/<ID>_<k>/ . An alarm of the property's own check must
# be analysed: either the change does break the property (keep as a seeded change) or the check is over-strict (fix it).
for d in /tmp/wt5/C??; do id=$(basename $d); for k in 1 2 3; do
  f=$d/out/equiv_$k.diff; [ -f $f ] || continue
  dst=/verif/equivalents/agents/${id}_$k; [ -d $dst ] && continue
  mkdir -p $dst; cp $f $dst/equiv.diff; cp $d/out/equiv_$k.md $dst/argument.md 2>/dev/null
  /verif/tools/try_patch_scratch.sh $f quick 0.5 > $dst/result.txt 2>&1
  own=$(grep -E "^PATCH" $dst/result.txt | grep -o "caught_by=\[[^]]*\]" | grep -c " $id " )
  echo "$id $k: $(grep -E '^PATCH|DOES-NOT|BUILD-FAILED' $dst/result.txt | sed 's/silent=.*//') own_check_alarm=$own"
done; done
