#!/usr/bin/env python3
"""Prints a markdown table of /verif/seeded/*: what each change needs, which checks catch it."""
import json,os,re,glob
rows=[]
for d in sorted(glob.glob('/verif/seeded/C*_*')):
    name=os.path.basename(d)
    try: m=json.load(open(d+'/meta.json'))
    except Exception: continue
    conf=open(d+'/confirmation.txt').read() if os.path.exists(d+'/confirmation.txt') else ''
    c=re.search(r'caught_by=\[(.*?)\]',conf); caught=c.group(1).split() if c else []
    ok = 'existing_tests_with_change=pass' in conf and 'demo_with_change=fail' in conf and 'demo_on_original=pass' in conf
    summ=(m.get('summary') or '').replace('\n',' ').replace('|','/')
    if len(summ)>230: summ=summ[:227]+'...'
    rows.append((name, 'yes' if ok else 'NO', summ, ' '.join(caught) or '-', 'yes' if m['property'] in caught else 'NO'))
print('| seeded change | confirmed (tests pass, demo fails with / passes without) | what it does | caught by (quick) | by its own property\'s check |')
print('|---|---|---|---|---|')
for r in rows: print('| '+' | '.join(r)+' |')
print()
print(f'{len(rows)} changes; {sum(1 for r in rows if r[3]!="-")} caught by at least one check; {sum(1 for r in rows if r[4]=="yes")} caught by the check of the property they were written against.')
