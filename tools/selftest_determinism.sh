#!/usr/bin/env bash
# Determinism self-test: every check is executed 4 times in separate processes
# (worker counts 1, 16, 16, 5) for several base seeds; event-log digests, run counts and the
# evidence files (minus wall-clock fields) must be identical.  Usage: tools/selftest_determinism.sh [scale] [seeds...]
set -u
scale="${1:-0.05}"; shift || true
seeds=("$@"); [ ${#seeds[@]} -eq 0 ] && seeds=(20260928 1 7777777)
cd /verif/sim && cargo build --release --offline >/dev/null 2>&1 || { echo "build failed"; exit 2; }
bin=/verif/sim/target/release/gsesim
props=$(python3 -c "import json;print(' '.join(c['property_id'] for c in json.load(open('/verif/MANIFEST.json'))['checks']))")
tmp=$(mktemp -d /tmp/gsesim_det.XXXXXX); trap "rm -rf $tmp" EXIT
fail=0; n=0
norm() { python3 - "$1" <<'PY'
import json,sys
e=json.load(open(sys.argv[1]))
e.pop('wall_s',None); c=e['coverage']
for k in ('runs_per_hour','jobs'): c.pop(k,None)
for s in c.get('scenarios',[]): s.pop('wall_s',None); s.pop('runs_per_hour',None)
print(json.dumps(e,sort_keys=True))
PY
}
for seed in "${seeds[@]}"; do
 for p in $props; do
  ref=""
  for j in 1 16 16 5; do
    d=$tmp/$seed-$p-$j-$RANDOM; mkdir -p $d; cp /verif/known_findings.json $d/
    out=$(VERIF_DIR=$d VERIF_SEED=$seed $bin check $p quick --scale $scale --jobs $j 2>&1 | tail -1)
    sig="$(echo "$out" | sed 's/wall=[0-9.]*s//') $(norm $d/evidence/$p.json | md5sum | cut -c1-12)"
    if [ -z "$ref" ]; then ref="$sig"; elif [ "$ref" != "$sig" ]; then echo "NONDETERMINISM $p seed=$seed jobs=$j"; echo "  ref: $ref"; echo "  got: $sig"; fail=1; fi
    n=$((n+1)); rm -rf $d
  done
 done
done
echo "determinism selftest: $n executions, $( [ $fail -eq 0 ] && echo all identical || echo DIFFERENCES FOUND )"
exit $fail
