#!/usr/bin/env bash
# tools/robustness.sh [seeds...]: for every confirmed seeded change, run the check of the property it was written
# against (and nothing else) under several VERIF_SEED values; prints the changes a seed misses.
set -u
seeds=("$@"); [ ${#seeds[@]} -eq 0 ] && seeds=(1 2 3)
skip="C06_r2_3 C10_r2_2 C19_r2_2 C19_r2_3 C05_r2_2 C08_r3_1"   # judged not to violate the named property (DESIGN 10); C05_r2_2 stopped violating C05 with fix 18 (a context beyond its storage is refused, no panic)
only="${ONLY:-}"
for d in /verif/seeded/C*_*; do
  name=$(basename $d); id=${name%%_*}
  echo " $skip " | grep -q " $name " && continue
  [ -n "$only" ] && ! echo " $only " | grep -q " $name " && continue
  [ -f $d/patch.diff ] || continue
  work=$(mktemp -d /tmp/robust.XXXX)
  git -C /repo worktree add -q --detach "$work/repo" HEAD || { rm -rf $work; continue; }
  if ! ( cd "$work/repo" && git apply "$d/patch.diff" 2>/dev/null ); then echo "SKIP $name (patch no longer applies)"; git -C /repo worktree remove --force "$work/repo"; rm -rf $work; continue; fi
  mkdir -p "$work/sim" "$work/vd"; rsync -a --exclude target /verif/sim/ "$work/sim/"
  sed -i "s|path = \"/repo\"|path = \"$work/repo\"|" "$work/sim/Cargo.toml"; cp /verif/known_findings.json "$work/vd/"
  ( cd "$work/sim" && CARGO_NET_OFFLINE=true cargo build --release --offline >/dev/null 2>&1 )
  res=""
  for s in "${seeds[@]}"; do
    VERIF_DIR="$work/vd" VERIF_SEED=$s "$work/sim/target/release/gsesim" check $id quick >/dev/null 2>&1; rc=$?
    res="$res seed$s=$([ $rc -eq 1 ] && echo caught || echo MISSED:rc$rc)"
  done
  echo "$name:$res"
  git -C /repo worktree remove --force "$work/repo" >/dev/null 2>&1; rm -rf "$work"
done
