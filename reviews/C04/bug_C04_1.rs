// C04 violation: a start packet whose re-use label cannot be resolved is rejected by
// `decap_first` BEFORE the reassembly memory is touched, so an older, unfinished context with the
// same fragment id survives.  The continuation fragments of the rejected PDU are then spliced onto
// that stale context and the PDU is delivered under the stale context's label - a label the sender
// never intended for it.  Because a re-use start packet carries no label bytes, the CRC-32 does
// not cover the label and cannot detect the mix-up.
use dvb_gse_rust::crc::DefaultCrc;
use dvb_gse_rust::gse_decap::{DecapError, DecapStatus, Decapsulator, GseDecapMemory, SimpleGseMemory};
use dvb_gse_rust::gse_encap::{ContextFrag, EncapMetadata, EncapStatus, Encapsulator};
use dvb_gse_rust::header_extension::SimpleMandatoryExtensionHeaderManager;
use dvb_gse_rust::label::Label;

const X: Label = Label::SixBytesLabel(*b"XXXXXX");
const Y: Label = Label::SixBytesLabel(*b"YYYYYY");
const PTYPE: u16 = 0x0800;
const FRAG_ID: u8 = 5;

fn receiver() -> Decapsulator<SimpleGseMemory, DefaultCrc, SimpleMandatoryExtensionHeaderManager> {
    // plenty of storage: 256 slots, 258 buffers of 4 KiB
    let mut memory = SimpleGseMemory::new(256, 4096, 0, 0);
    for _ in 0..258 {
        memory
            .provision_storage(vec![0u8; 4096].into_boxed_slice())
            .unwrap();
    }
    Decapsulator::new(memory, DefaultCrc {}, SimpleMandatoryExtensionHeaderManager {})
}

/// Sends one complete packet and checks that the receiver delivers it with `expected`.
fn send_complete(
    tx: &mut Encapsulator<DefaultCrc>,
    rx: &mut Decapsulator<SimpleGseMemory, DefaultCrc, SimpleMandatoryExtensionHeaderManager>,
    pdu: &[u8],
    label: Label,
    expected: Label,
) {
    let mut buf = [0u8; 200];
    let len = match tx.encap(pdu, 0, EncapMetadata::new(PTYPE, label), &mut buf) {
        Ok(EncapStatus::CompletedPkt(len)) => len as usize,
        other => panic!("complete packet expected, got {:?}", other),
    };
    match rx.decap(&buf[..len]) {
        Ok((DecapStatus::CompletedPkt(storage, md), _)) => {
            assert_eq!(md.label(), expected);
            assert_eq!(&storage[..md.pdu_len()], pdu);
            rx.provision_storage(storage).unwrap();
        }
        other => panic!("complete packet not delivered: {:?}", other),
    }
}

/// Sends the start packet of `pdu` in a 30 byte buffer and returns the packet and the context.
fn start(
    tx: &mut Encapsulator<DefaultCrc>,
    pdu: &[u8],
    label: Label,
) -> (Vec<u8>, ContextFrag) {
    let mut buf = [0u8; 30];
    match tx.encap(pdu, FRAG_ID, EncapMetadata::new(PTYPE, label), &mut buf) {
        Ok(EncapStatus::FragmentedPkt(len, ctx)) => (buf[..len as usize].to_vec(), ctx),
        other => panic!("start packet expected, got {:?}", other),
    }
}

fn scenario(reset_instead_of_broadcast: bool) {
    let mut tx = Encapsulator::new(DefaultCrc {}); // re-use enabled (default)
    let mut rx = receiver();

    // two different 60 byte PDUs with the same first 23 bytes
    let mut pdu0 = [0x11u8; 60];
    let mut pdu1 = [0x11u8; 60];
    pdu0[23..].fill(0xA0);
    pdu1[23..].fill(0xB1);
    assert_ne!(pdu0, pdu1);

    // 1. label X is established on both sides
    send_complete(&mut tx, &mut rx, b"first", X, X);

    // 2. PDU0, sent with the explicit label X (the sender turns it into a re-use label):
    //    only its start packet is ever sent (the sender gives this PDU up)
    let (pkt, ctx0) = start(&mut tx, &pdu0, X);
    assert_eq!(pkt[0] & 0xF0, 0xB0, "start packet with a re-use label");
    assert_eq!(ctx0.len_pdu_frag(), 23);
    match rx.decap(&pkt) {
        Ok((DecapStatus::FragmentedPkt(md), _)) => assert_eq!(md.label(), X),
        other => panic!("start of PDU0 rejected: {:?}", other),
    }

    // 3. the label memories are emptied on both sides
    if reset_instead_of_broadcast {
        // ... by another label followed by a frame boundary
        send_complete(&mut tx, &mut rx, b"other", Y, Y);
        tx.reset_last_label();
        rx.reset_last_label();
    } else {
        // ... by a broadcast packet of the same frame
        send_complete(&mut tx, &mut rx, b"bcast", Label::Broadcast, Label::Broadcast);
    }

    // 4. PDU1 is sent with an explicit re-use label and the (free again) fragment id 5.
    //    There is no label to re-use: the receiver rejects the start packet.
    let (pkt, ctx1) = start(&mut tx, &pdu1, Label::ReUse);
    assert_eq!(pkt[0] & 0xF0, 0xB0);
    match rx.decap(&pkt) {
        Err((DecapError::ErrorNoLabelSaved, _)) => {}
        other => panic!("start of PDU1 should be rejected (no label saved): {:?}", other),
    }

    // 5. the end packet of PDU1
    let mut buf = [0u8; 200];
    let len = match tx.encap_frag(&pdu1, &ctx1, &mut buf) {
        Ok(EncapStatus::CompletedPkt(len)) => len as usize,
        other => panic!("end packet expected, got {:?}", other),
    };
    match rx.decap(&buf[..len]) {
        Ok((DecapStatus::CompletedPkt(storage, md), _)) => {
            // what the receiver delivered is PDU1 (and not PDU0) ...
            assert_eq!(&storage[..md.pdu_len()], &pdu1[..]);
            assert_ne!(&storage[..md.pdu_len()], &pdu0[..]);
            // ... and PDU1 was never sent for label X: the packet preceding its start packet
            // carried no label (broadcast / first packet of a frame, the previous label being Y)
            assert_ne!(
                md.label(),
                X,
                "C04: PDU1 (explicit re-use label, nothing to re-use) delivered under label X"
            );
        }
        // not delivering PDU1 is the correct outcome
        _ => {}
    }
}

#[test]
fn c04_rejected_reuse_start_is_spliced_onto_stale_context_same_frame() {
    scenario(false);
}

#[test]
fn c04_rejected_reuse_start_is_spliced_onto_stale_context_previous_frame() {
    scenario(true);
}
