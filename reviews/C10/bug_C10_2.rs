// C10 violation (degenerate memory configuration): with a SimpleGseMemory created with zero
// fragment slots (a receiver that only wants complete packets), a first / intermediate / end
// packet met while walking a frame makes decap panic (remainder by zero) instead of being
// rejected for lack of storage with its own length as consumed length.

use dvb_gse_rust::crc::DefaultCrc;
use dvb_gse_rust::gse_decap::{DecapStatus, Decapsulator, GseDecapMemory, SimpleGseMemory};
use dvb_gse_rust::gse_encap::{EncapMetadata, EncapStatus, Encapsulator};
use dvb_gse_rust::header_extension::SimpleMandatoryExtensionHeaderManager;
use dvb_gse_rust::label::Label;
use std::panic::{catch_unwind, AssertUnwindSafe};

fn emitted_len(status: &EncapStatus) -> usize {
    match status {
        EncapStatus::CompletedPkt(len) => *len as usize,
        EncapStatus::FragmentedPkt(len, _) => *len as usize,
    }
}

#[test]
fn fragment_in_a_frame_with_a_zero_slot_memory() {
    // 0 fragment slots, the memory still accepts 0 + MIN_MARGIN storages for complete packets
    let mut memory = SimpleGseMemory::new(0, 100, 0, 0);
    memory
        .provision_storage(vec![0u8; 100].into_boxed_slice())
        .unwrap();
    memory
        .provision_storage(vec![0u8; 100].into_boxed_slice())
        .unwrap();
    let mut decapsulator =
        Decapsulator::new(memory, DefaultCrc {}, SimpleMandatoryExtensionHeaderManager {});

    let mut encapsulator = Encapsulator::new(DefaultCrc {});
    encapsulator.disable_re_use_label();
    let metadata = EncapMetadata::new(0x0800, Label::Broadcast);
    let pdu = [7u8; 50];

    // frame: complete packet, first fragment, end fragment, complete packet, padding
    let mut frame = vec![0u8; 200];
    let mut lens = vec![];
    let mut off = 0;
    let st = encapsulator.encap(b"one", 1, metadata, &mut frame[off..]).unwrap();
    lens.push(emitted_len(&st));
    off += lens[0];
    let st = encapsulator
        .encap(&pdu, 1, metadata, &mut frame[off..off + 30])
        .unwrap();
    let ctx = match &st {
        EncapStatus::FragmentedPkt(_, ctx) => *ctx,
        _ => unreachable!(),
    };
    lens.push(emitted_len(&st));
    off += lens[1];
    let st = encapsulator.encap_frag(&pdu, &ctx, &mut frame[off..]).unwrap();
    assert!(matches!(st, EncapStatus::CompletedPkt(_)));
    lens.push(emitted_len(&st));
    off += lens[2];
    let st = encapsulator.encap(b"two", 1, metadata, &mut frame[off..]).unwrap();
    lens.push(emitted_len(&st));
    off += lens[3];

    let mut pos = 0;
    let mut completed = vec![];
    for (idx, len) in lens.iter().enumerate() {
        let res = catch_unwind(AssertUnwindSafe(|| decapsulator.decap(&frame[pos..])));
        let res = match res {
            Ok(res) => res,
            Err(_) => panic!("decap panicked on packet {idx} of the frame instead of rejecting it"),
        };
        let consumed = match res {
            Ok((DecapStatus::CompletedPkt(pdu, md), n)) => {
                completed.push(pdu[..md.pdu_len()].to_vec());
                n
            }
            Ok((_, n)) => n,
            Err((_, n)) => n,
        };
        assert_eq!(consumed, *len, "packet {idx}");
        pos += consumed;
    }
    assert_eq!(pos, off);
    assert_eq!(completed, vec![b"one".to_vec(), b"two".to_vec()]);
    assert_eq!(
        decapsulator.decap(&frame[pos..]),
        Ok((DecapStatus::Padding, frame.len() - pos))
    );
}
