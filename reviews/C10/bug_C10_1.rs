// C10 violation (conditional on a user supplied MandatoryHeaderExtensionManager):
// a packet emitted by the Encapsulator whose (known) mandatory extension data is shorter than
// what the receiver's manager announces is rejected with consumed == remaining frame length
// instead of its own length: every packet laid behind it in the frame is never seen, and the
// consumed length depends on the bytes that follow the packet.

use dvb_gse_rust::crc::DefaultCrc;
use dvb_gse_rust::gse_decap::{DecapStatus, Decapsulator, GseDecapMemory, SimpleGseMemory};
use dvb_gse_rust::gse_encap::{EncapMetadata, EncapStatus, Encapsulator};
use dvb_gse_rust::header_extension::{
    Extension, MandatoryHeaderExt, MandatoryHeaderExtensionManager,
};
use dvb_gse_rust::label::Label;

// same kind of manager as tests/test_end_to_end.rs::test_encap_decap_complete_ext_009
#[derive(Clone, Copy)]
struct Manager;
impl MandatoryHeaderExtensionManager for Manager {
    fn is_mandatory_header_id_known(&self, id: u16) -> MandatoryHeaderExt {
        match id {
            0x0055 => MandatoryHeaderExt::NonFinal(5),
            0x0002 => MandatoryHeaderExt::Final(3),
            _ => MandatoryHeaderExt::Unknown,
        }
    }
}

fn decapsulator() -> Decapsulator<SimpleGseMemory, DefaultCrc, Manager> {
    let mut memory = SimpleGseMemory::new(4, 100, 0, 0);
    for _ in 0..4 {
        memory
            .provision_storage(vec![0u8; 100].into_boxed_slice())
            .unwrap();
    }
    Decapsulator::new(memory, DefaultCrc {}, Manager)
}

fn emitted_len(status: EncapStatus) -> usize {
    match status {
        EncapStatus::CompletedPkt(len) => len as usize,
        EncapStatus::FragmentedPkt(len, _) => len as usize,
    }
}

/// walk `frame`, return (outcome is ok, consumed) for each call until the frame is exhausted
fn walk(frame: &[u8]) -> Vec<(String, usize)> {
    let mut decap = decapsulator();
    let mut pos = 0;
    let mut seen = vec![];
    while frame.len() - pos >= 2 {
        let (what, consumed) = match decap.decap(&frame[pos..]) {
            Ok((DecapStatus::CompletedPkt(pdu, md), n)) => (
                format!("completed {:?}", &pdu[..md.pdu_len()]),
                n,
            ),
            Ok((DecapStatus::FragmentedPkt(_), n)) => ("fragment".to_string(), n),
            Ok((DecapStatus::Padding, n)) => ("padding".to_string(), n),
            Err((e, n)) => (format!("error {:?}", e), n),
        };
        seen.push((what, consumed));
        pos += consumed;
    }
    seen
}

#[test]
// packet A: encap_ext, the sender puts 3 bytes of data in the mandatory extension 0x0055,
// the receiver knows it with 5 bytes of data (Extension::new can not check mandatory sizes)
fn short_known_mandatory_extension_swallows_the_rest_of_the_frame() {
    let mut encapsulator = Encapsulator::new(DefaultCrc {});
    encapsulator.disable_re_use_label();

    let mut frame = vec![0u8; 200];
    let ext = Extension::new(0x0055, &[1, 2, 3]).unwrap();
    let len_a = emitted_len(
        encapsulator
            .encap_ext(
                b"",
                0,
                EncapMetadata::new(0x0800, Label::Broadcast),
                &mut frame,
                vec![ext],
            )
            .unwrap(),
    );
    let len_b = emitted_len(
        encapsulator
            .encap(
                b"hello",
                0,
                EncapMetadata::new(0x0800, Label::ThreeBytesLabel([1, 2, 3])),
                &mut frame[len_a..],
            )
            .unwrap(),
    );

    // packet A alone: rejected, consumes its own length
    let alone = walk(&frame[..len_a]);
    assert_eq!(alone.len(), 1);
    assert!(alone[0].0.starts_with("error"), "{:?}", alone);
    assert_eq!(alone[0].1, len_a);

    // packet A followed by packet B and padding
    let seen = walk(&frame);
    assert_eq!(
        seen[0],
        alone[0],
        "outcome of packet A depends on the bytes that follow it (its length is {len_a})"
    );
    assert_eq!(
        seen.get(1).map(|s| (s.0.as_str(), s.1)),
        Some((format!("completed {:?}", b"hello").as_str(), len_b)),
        "packet B is not seen: {:?}",
        seen
    );
    assert_eq!(
        seen.get(2).map(|s| (s.0.as_str(), s.1)),
        Some(("padding", frame.len() - len_a - len_b))
    );
}

#[test]
// packet A: encap with the id of a final mandatory extension as protocol type (supported use,
// see test_encap_decap_complete_ext_008), the PDU is shorter than the extension data the
// receiver expects
fn short_final_mandatory_extension_swallows_the_rest_of_the_frame() {
    let mut encapsulator = Encapsulator::new(DefaultCrc {});
    encapsulator.disable_re_use_label();

    let mut frame = vec![0u8; 200];
    let len_a = emitted_len(
        encapsulator
            .encap(
                &[9, 9],
                0,
                EncapMetadata::new(0x0002, Label::SixBytesLabel([9, 8, 7, 6, 5, 4])),
                &mut frame,
            )
            .unwrap(),
    );
    let len_b = emitted_len(
        encapsulator
            .encap(
                b"hello",
                0,
                EncapMetadata::new(0x0800, Label::Broadcast),
                &mut frame[len_a..],
            )
            .unwrap(),
    );

    let alone = walk(&frame[..len_a]);
    assert_eq!(alone.len(), 1);
    assert_eq!(alone[0].1, len_a);

    let seen = walk(&frame);
    assert_eq!(
        seen[0],
        alone[0],
        "outcome of packet A depends on the bytes that follow it (its length is {len_a})"
    );
    assert_eq!(
        seen.get(1).map(|s| (s.0.as_str(), s.1)),
        Some((format!("completed {:?}", b"hello").as_str(), len_b)),
        "packet B is not seen: {:?}",
        seen
    );
}
