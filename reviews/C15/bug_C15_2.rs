// C15 violation 2: packets sent with an explicit Label::ReUse are re-use packets on the wire, but
// the encapsulator does not count them in its consecutive-re-use counter. It then goes on
// substituting the re-use marker by itself although the run of consecutive re-use packets since the
// last full label has already reached the configured maximum N.
//
// Public API only.

use dvb_gse_rust::crc::DefaultCrc;
use dvb_gse_rust::gse_encap::{EncapMetadata, EncapStatus, Encapsulator};
use dvb_gse_rust::label::Label;

const LABEL_TYPE_MASK: u16 = 0x3000;
const LABEL_REUSE: u16 = 0x3000;

/// Emit one complete packet for `label`, return true when the packet on the wire carries the
/// re-use marker (label type bits = 11).
fn emit_is_reuse(enc: &mut Encapsulator<DefaultCrc>, label: Label) -> bool {
    let pdu = [0x55u8; 16];
    let mut buffer = [0u8; 64];
    let status = enc
        .encap(&pdu, 0, EncapMetadata::new(0x0800, label), &mut buffer)
        .expect("encap must succeed");
    assert!(matches!(status, EncapStatus::CompletedPkt(_)));
    let header = u16::from_be_bytes([buffer[0], buffer[1]]);
    header & LABEL_TYPE_MASK == LABEL_REUSE
}

#[test]
fn c15_explicit_re_use_packets_are_not_counted_max_1() {
    let label = Label::SixBytesLabel([1, 2, 3, 4, 5, 6]);
    let mut enc = Encapsulator::new(DefaultCrc {});
    enc.enable_re_use_label_with_max_consecutive(1);

    assert!(!emit_is_reuse(&mut enc, label), "full label");
    assert!(emit_is_reuse(&mut enc, Label::ReUse), "explicit re-use: 1st re-use packet of the run");

    // one re-use packet already follows the full label and N = 1: the encapsulator must not
    // substitute the marker by itself now
    assert!(
        !emit_is_reuse(&mut enc, label),
        "the encapsulator substituted a re-use marker: 2 consecutive re-use packets with maximum 1"
    );
}

#[test]
fn c15_explicit_re_use_packets_are_not_counted_general() {
    for n in [1u8, 2, 5, 255] {
        let label = Label::ThreeBytesLabel([7, 7, 7]);
        let mut enc = Encapsulator::new(DefaultCrc {});
        enc.enable_re_use_label_with_max_consecutive(n);
        assert!(!emit_is_reuse(&mut enc, label));

        let mut run: u32 = 0;
        let mut longest: u32 = 0;
        // alternate explicit re-use and the label itself
        for i in 0..(4 * n as u32 + 8) {
            let l = if i % 2 == 0 { Label::ReUse } else { label };
            if emit_is_reuse(&mut enc, l) {
                run += 1;
            } else {
                run = 0;
            }
            // only look at the packets for which the encapsulator itself chose the marker
            if l != Label::ReUse {
                longest = longest.max(run);
            }
        }
        assert!(
            longest <= n as u32,
            "maximum {} configured, but the encapsulator substituted the marker at position {} of a run of re-use packets",
            n,
            longest
        );
    }
}
