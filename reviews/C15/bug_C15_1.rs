// C15 violation 1: re-issuing enable_re_use_label_with_max_consecutive(N) while re-use is already
// enabled zeroes the consecutive-re-use counter but keeps the remembered label, so the run of
// consecutive re-use packets on the wire exceeds the configured maximum N (and is unbounded if the
// call is repeated).
//
// Public API only.

use dvb_gse_rust::crc::DefaultCrc;
use dvb_gse_rust::gse_encap::{EncapMetadata, EncapStatus, Encapsulator};
use dvb_gse_rust::label::Label;

const LABEL_TYPE_MASK: u16 = 0x3000;
const LABEL_REUSE: u16 = 0x3000;

/// Emit one complete packet for `label`, return true when the packet on the wire carries the
/// re-use marker (label type bits = 11) instead of the label.
fn emit_is_reuse(enc: &mut Encapsulator<DefaultCrc>, label: Label) -> bool {
    let pdu = [0x55u8; 16];
    let mut buffer = [0u8; 64];
    let status = enc
        .encap(&pdu, 0, EncapMetadata::new(0x0800, label), &mut buffer)
        .expect("encap must succeed");
    assert!(matches!(status, EncapStatus::CompletedPkt(_)));
    let header = u16::from_be_bytes([buffer[0], buffer[1]]);
    header & LABEL_TYPE_MASK == LABEL_REUSE
}

#[test]
fn c15_reconfiguring_the_same_max_lets_the_run_exceed_it() {
    let label = Label::SixBytesLabel([1, 2, 3, 4, 5, 6]);
    let mut enc = Encapsulator::new(DefaultCrc {});

    enc.enable_re_use_label_with_max_consecutive(1);
    assert!(!emit_is_reuse(&mut enc, label), "first packet carries the full label");
    assert!(emit_is_reuse(&mut enc, label), "second packet is the (only allowed) re-use");

    // same configuration again: maximum is still 1, nothing was reset, no packet in between
    enc.enable_re_use_label_with_max_consecutive(1);

    // one re-use packet is already on the wire since the last full label: with N = 1 this packet
    // has to carry the full label
    assert!(
        !emit_is_reuse(&mut enc, label),
        "2 consecutive re-use packets emitted although the configured maximum is 1"
    );
}

#[test]
fn c15_run_is_unbounded_when_max_is_reconfigured_between_packets() {
    for n in [1u8, 2, 3, 254, 255] {
        let label = Label::ThreeBytesLabel([9, 9, 9]);
        let mut enc = Encapsulator::new(DefaultCrc {});
        enc.enable_re_use_label_with_max_consecutive(n);
        assert!(!emit_is_reuse(&mut enc, label));

        let mut run: u32 = 0; // consecutive re-use packets on the wire
        let mut longest: u32 = 0;
        for _ in 0..(3 * n as u32 + 10) {
            // N stays configured all along
            enc.enable_re_use_label_with_max_consecutive(n);
            if emit_is_reuse(&mut enc, label) {
                run += 1;
            } else {
                run = 0;
            }
            longest = longest.max(run);
        }
        assert!(
            longest <= n as u32,
            "maximum {} configured, but {} consecutive re-use packets were emitted",
            n,
            longest
        );
    }
}

#[test]
fn c15_lowering_the_max_does_not_bound_the_current_run() {
    let label = Label::SixBytesLabel([1, 2, 3, 4, 5, 6]);
    let mut enc = Encapsulator::new(DefaultCrc {});
    enc.enable_re_use_label_with_max_consecutive(3);
    assert!(!emit_is_reuse(&mut enc, label));
    assert!(emit_is_reuse(&mut enc, label));
    assert!(emit_is_reuse(&mut enc, label));
    assert!(emit_is_reuse(&mut enc, label));
    // run of 3 on the wire; maximum now 1
    enc.enable_re_use_label_with_max_consecutive(1);
    assert!(
        !emit_is_reuse(&mut enc, label),
        "maximum 1 configured, this is the 4th consecutive re-use packet"
    );
}
