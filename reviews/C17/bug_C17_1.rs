// C17: a SimpleGseMemory obtained through its public `Clone` impl does not behave like
// "a bag of free buffers plus at most one saved context per slot": its free list is
// reported full although it holds fewer than `max_frag_id + 2` buffers (even zero).
use dvb_gse_rust::gse_decap::gse_decap_memory::{DecapMemoryError, GseDecapMemory, SimpleGseMemory};
use dvb_gse_rust::gse_decap::DecapContext;
use dvb_gse_rust::label::Label;

const SIZE: usize = 16;

fn buf(fill: u8) -> Box<[u8]> {
    vec![fill; SIZE].into_boxed_slice()
}

/// A fresh memory cloned before any buffer was provisioned refuses every buffer.
#[test]
fn clone_of_empty_memory_refuses_provisioning() {
    for slots in 1..=4usize {
        let original = SimpleGseMemory::new(slots, SIZE, 0, 0);
        let mut copy = original.clone();
        assert_eq!(copy, original); // same observable state ...

        // ... free list is empty: nothing to take
        assert_eq!(copy.new_pdu(), Err(DecapMemoryError::StorageUnderflow));

        // so provisioning a buffer of exactly the configured size must succeed
        // (the original accepts slots + 2 of them)
        let r = copy.provision_storage(buf(1));
        assert_eq!(r, Ok(()), "slots={slots}: clone with an EMPTY free list reports it full");
    }
}

/// Operation-level consequence: the two "equal" memories diverge on the same sequence.
#[test]
fn clone_diverges_from_original_on_same_sequence() {
    let mut original = SimpleGseMemory::new(2, SIZE, 0, 0);
    original.provision_storage(buf(1)).unwrap(); // 1 of 4 free buffers
    let mut copy = original.clone();
    assert_eq!(copy, original);

    // same sequence on both: provision one more buffer (2 of 4)
    let r_orig = original.provision_storage(buf(2));
    let r_copy = copy.provision_storage(buf(2));
    assert_eq!(r_orig, Ok(()));
    assert_eq!(r_copy, r_orig, "clone holds 1 free buffer out of 4 yet reports StorageOverflow");
}

/// After taking buffers out of a clone the free list can never grow back beyond the
/// number of buffers it held when it was cloned, so new_frag starves.
#[test]
fn clone_cannot_be_refilled() {
    let mut original = SimpleGseMemory::new(1, SIZE, 0, 0);
    let mut copy = original.clone();
    let ctx = DecapContext::new(Label::Broadcast, 0x0800, 0, 10, 0, false, vec![]);

    let _ = copy.provision_storage(buf(7));
    let _ = original.provision_storage(buf(7));
    let r_orig = original.new_frag(ctx.clone());
    let r_copy = copy.new_frag(ctx.clone());
    assert_eq!(r_orig, Ok((ctx, buf(7))));
    assert_eq!(r_copy, r_orig);
}
