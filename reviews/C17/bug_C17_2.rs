// C17 (edge of the quantification domain: a memory with 0 slots, a configuration the
// crate's own unit test `test_simple_memory_overflow` uses): every per-slot operation
// panics with a division by zero instead of following the memory-trait contract.
use dvb_gse_rust::gse_decap::gse_decap_memory::{DecapMemoryError, GseDecapMemory, SimpleGseMemory};
use dvb_gse_rust::gse_decap::DecapContext;
use dvb_gse_rust::label::Label;

const SIZE: usize = 16;

fn mem0() -> SimpleGseMemory {
    let mut m = SimpleGseMemory::new(0, SIZE, 0, 0);
    // the free list of a 0-slot memory holds MIN_MARGIN = 2 buffers
    m.provision_storage(vec![1; SIZE].into_boxed_slice()).unwrap();
    m.provision_storage(vec![2; SIZE].into_boxed_slice()).unwrap();
    m
}

/// Nothing was ever saved: take_frag must report UndefinedId and leave the memory unchanged.
#[test]
fn take_frag_on_zero_slot_memory_reports_undefined_id() {
    let mut m = mem0();
    let before = m.clone();
    assert_eq!(m.take_frag(0), Err(DecapMemoryError::UndefinedId));
    assert_eq!(m, before);
}

/// No previous context: new_frag must take a free buffer (two are free).
#[test]
fn new_frag_on_zero_slot_memory_takes_a_free_buffer() {
    let mut m = mem0();
    let ctx = DecapContext::new(Label::Broadcast, 0x0800, 5, 10, 0, false, vec![]);
    let r = m.new_frag(ctx.clone());
    match r {
        Ok((c, b)) => {
            assert_eq!(c, ctx);
            assert_eq!(b.len(), SIZE);
        }
        Err(e) => panic!("unexpected {e:?}"),
    }
}

/// There is no free slot: save_frag must refuse (an error), not panic.
#[test]
fn save_frag_on_zero_slot_memory_is_refused() {
    let mut m = mem0();
    let ctx = DecapContext::new(Label::Broadcast, 0x0800, 5, 10, 0, false, vec![]);
    let r = m.save_frag((ctx, vec![9; SIZE].into_boxed_slice()));
    assert!(r.is_err());
}
