// C16 - with a SimpleGseMemory configured with 0 reassembly slots (a "complete packets only"
// receiver, accepted by the constructor, 2 free-list places), any buffer whose header says
// first / intermediate / end fragment makes `decap` PANIC (remainder by zero) instead of
// returning an error: arbitrary input bytes kill the receiver. Public API only.
use dvb_gse_rust::crc::DefaultCrc;
use dvb_gse_rust::gse_decap::{DecapStatus, Decapsulator, GseDecapMemory, SimpleGseMemory};
use dvb_gse_rust::gse_encap::{EncapMetadata, EncapStatus, Encapsulator};
use dvb_gse_rust::header_extension::SimpleMandatoryExtensionHeaderManager;
use dvb_gse_rust::label::Label;

#[test]
fn c16_zero_slot_receiver_survives_a_garbage_fragment() {
    let mut memory = SimpleGseMemory::new(0, 100, 0, 0);
    memory.provision_storage(vec![0u8; 100].into_boxed_slice()).unwrap();
    let mut decap = Decapsulator::new(
        memory,
        DefaultCrc {},
        SimpleMandatoryExtensionHeaderManager {},
    );

    // history: 8 arbitrary bytes that happen to look like an end fragment (S=0,E=1, GSE length 6)
    let garbage = [0x70u8, 0x06, 0x2A, 0xDE, 0xAD, 0xBE, 0xEF, 0x00];
    let res = decap.decap(&garbage); // panics here: "attempt to calculate the remainder with a divisor of zero"
    assert!(res.is_err(), "an end fragment without context must be an error");

    // recovery demanded by the property
    decap.reset_last_label();
    let _ = decap.provision_storage(vec![0u8; 100].into_boxed_slice());
    let mut enc = Encapsulator::new(DefaultCrc {});
    let mut buf = vec![0u8; 200];
    let label = Label::ThreeBytesLabel([0, 0, 0]);
    let l = match enc.encap(b"after", 0, EncapMetadata::new(0x86DD, label), &mut buf) {
        Ok(EncapStatus::CompletedPkt(l)) => l as usize,
        other => panic!("unexpected {other:?}"),
    };
    match decap.decap(&buf[..l]) {
        Ok((DecapStatus::CompletedPkt(b, md), n)) => {
            assert_eq!(n, l);
            assert_eq!(&b[..md.pdu_len()], b"after");
            assert_eq!(md.label(), label);
        }
        other => panic!("valid complete packet not delivered: {other:?}"),
    }
}
