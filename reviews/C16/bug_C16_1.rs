// C16 - a receiver built on a *cloned* SimpleGseMemory can never be given a storage buffer:
// provisioning reports "free list full" (StorageOverflow) while the free list is EMPTY, so a
// valid complete packet with an explicit label is never delivered (StorageUnderflow), whatever
// the caller does. Public API only.
use dvb_gse_rust::crc::DefaultCrc;
use dvb_gse_rust::gse_decap::{
    DecapMemoryError, DecapStatus, Decapsulator, GseDecapMemory, SimpleGseMemory,
};
use dvb_gse_rust::gse_encap::{EncapMetadata, EncapStatus, Encapsulator};
use dvb_gse_rust::header_extension::SimpleMandatoryExtensionHeaderManager;
use dvb_gse_rust::label::Label;

fn valid_complete_packet(pdu: &[u8], label: Label) -> Vec<u8> {
    let mut enc = Encapsulator::new(DefaultCrc {});
    let mut buf = vec![0u8; 200];
    match enc.encap(pdu, 0, EncapMetadata::new(0x0800, label), &mut buf) {
        Ok(EncapStatus::CompletedPkt(l)) => buf[..l as usize].to_vec(),
        other => panic!("unexpected {other:?}"),
    }
}

/// Empty history. The memory is a template (4 slots, 100-byte PDUs) that is cloned for the
/// decapsulator, as one does to build several receivers from one configuration.
#[test]
fn c16_cloned_memory_recovers_with_one_buffer() {
    let template = SimpleGseMemory::new(4, 100, 0, 0);
    let mut decap = Decapsulator::new(
        template.clone(),
        DefaultCrc {},
        SimpleMandatoryExtensionHeaderManager {},
    );

    // property pre-condition: label memory reset, one buffer made available
    // (or provisioning reports that the free list is full)
    decap.reset_last_label();
    match decap.provision_storage(vec![0u8; 100].into_boxed_slice()) {
        Ok(()) => {}
        Err(DecapMemoryError::StorageOverflow(_)) => { /* "free list is full" */ }
        Err(e) => panic!("unexpected provisioning error {e:?}"),
    }

    let pdu = b"hello C16";
    let label = Label::SixBytesLabel(*b"abcdef");
    let pkt = valid_complete_packet(pdu, label);
    match decap.decap(&pkt) {
        Ok((DecapStatus::CompletedPkt(buf, md), n)) => {
            assert_eq!(n, pkt.len());
            assert_eq!(&buf[..md.pdu_len()], pdu);
            assert_eq!(md.label(), label);
        }
        other => panic!(
            "valid complete packet not delivered although provisioning said the free list is full: {other:?}"
        ),
    }
}

/// Same defect after a history: every buffer of the original sits in an unfinished train, the
/// memory is snapshotted (clone) and the receiver restarted from the snapshot.
#[test]
fn c16_snapshot_of_busy_memory_recovers_with_one_buffer() {
    let mut memory = SimpleGseMemory::new(1, 100, 0, 0);
    memory.provision_storage(vec![0u8; 100].into_boxed_slice()).unwrap();
    let mut decap = Decapsulator::new(
        memory,
        DefaultCrc {},
        SimpleMandatoryExtensionHeaderManager {},
    );
    // unfinished train on frag id 0 takes the only buffer
    let mut enc = Encapsulator::new(DefaultCrc {});
    let mut buf = vec![0u8; 30];
    let st = enc
        .encap(&[7u8; 60], 0, EncapMetadata::new(0x0800, Label::Broadcast), &mut buf)
        .unwrap();
    assert!(matches!(st, EncapStatus::FragmentedPkt(30, _)));
    assert!(matches!(decap.decap(&buf), Ok((DecapStatus::FragmentedPkt(_), 30))));

    // snapshot / restart
    let mut decap = Decapsulator::new(
        decap.memory.clone(),
        DefaultCrc {},
        SimpleMandatoryExtensionHeaderManager {},
    );
    decap.reset_last_label();
    match decap.provision_storage(vec![0u8; 100].into_boxed_slice()) {
        Ok(()) | Err(DecapMemoryError::StorageOverflow(_)) => {}
        Err(e) => panic!("unexpected provisioning error {e:?}"),
    }
    let pkt = valid_complete_packet(b"payload", Label::ThreeBytesLabel([1, 2, 3]));
    match decap.decap(&pkt) {
        Ok((DecapStatus::CompletedPkt(buf, md), _)) => assert_eq!(&buf[..md.pdu_len()], b"payload"),
        other => panic!("valid complete packet not delivered: {other:?}"),
    }
}
