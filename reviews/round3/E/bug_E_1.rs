// bug_E_1: a first fragment that is refused because it is cut short (buffer shorter than its GSE length)
// or because its GSE length cannot hold the first-fragment header does NOT supersede the pending
// reassembly of its fragment id, while every other refused first fragment does (commit 1b6bda7).
// C03, literal reading: the PDU delivered at the end fragment is not built from "the most recent first
// fragment of that fragment id".  Drop into tests/.
use dvb_gse_rust::crc::{CrcCalculator, DefaultCrc};
use dvb_gse_rust::gse_decap::{DecapStatus, Decapsulator, GseDecapMemory, SimpleGseMemory};
use dvb_gse_rust::header_extension::SimpleMandatoryExtensionHeaderManager;

fn first(fid: u8, total: u16, ptype: u16, label3: [u8; 3], payload: &[u8]) -> Vec<u8> {
    let gse_len = 1 + 2 + 2 + 3 + payload.len();
    let mut v = (0x8000u16 | 0x1000 | gse_len as u16).to_be_bytes().to_vec(); // S=1 E=0 LT=01
    v.push(fid);
    v.extend_from_slice(&total.to_be_bytes());
    v.extend_from_slice(&ptype.to_be_bytes());
    v.extend_from_slice(&label3);
    v.extend_from_slice(payload);
    v
}
fn inter(fid: u8, payload: &[u8]) -> Vec<u8> {
    let mut v = (0x3000u16 | (1 + payload.len()) as u16).to_be_bytes().to_vec();
    v.push(fid);
    v.extend_from_slice(payload);
    v
}
fn end(fid: u8, payload: &[u8], crc: u32) -> Vec<u8> {
    let mut v = (0x4000u16 | 0x3000 | (1 + payload.len() + 4) as u16).to_be_bytes().to_vec();
    v.push(fid);
    v.extend_from_slice(payload);
    v.extend_from_slice(&crc.to_be_bytes());
    v
}

fn run(seq: &[Vec<u8>]) -> usize {
    let mut mem = SimpleGseMemory::new(4, 64, 0, 0);
    mem.provision_storage(vec![0u8; 64].into_boxed_slice()).unwrap();
    mem.provision_storage(vec![0u8; 64].into_boxed_slice()).unwrap();
    let mut dec = Decapsulator::new(mem, DefaultCrc {}, SimpleMandatoryExtensionHeaderManager {});
    let mut delivered = 0;
    for p in seq {
        if let Ok((DecapStatus::CompletedPkt(..), _)) = dec.decap(p) {
            delivered += 1;
        }
    }
    delivered
}

#[test]
fn refused_first_fragment_that_is_cut_short_does_not_supersede() {
    let fid = 9u8;
    let label = [1u8, 2, 3];
    // PDU X, 12 bytes, sent as F(4) I(4) E(4)
    let x: Vec<u8> = (0x10..0x1C).collect();
    let total = (x.len() + 2 + 3) as u16;
    let crc = DefaultCrc {}.calculate_crc32(&x, 0x0800, total, &label);
    let fx = first(fid, total, 0x0800, label, &x[..4]);
    let ix = inter(fid, &x[4..8]);
    let ex = end(fid, &x[8..], crc);
    assert_eq!(run(&[fx.clone(), ix.clone(), ex.clone()]), 1, "the intact train is delivered");

    // another PDU Y starts on the same fragment id between F(X) and I(X); its first fragment is refused
    let y: Vec<u8> = (0x80..0x8C).collect();

    // reference: refused for its total length (<= payload) -> the reassembly of X is dropped, nothing is delivered
    let fy_len = first(fid, 4, 0x0800, label, &y[..4]);
    assert_eq!(run(&[fx.clone(), fy_len, ix.clone(), ex.clone()]), 0, "refused first fragment supersedes (repaired behaviour)");
    // reference: refused for a zero 6-byte label -> same
    let mut fy_zero = (0x8000u16 | (1 + 2 + 2 + 6 + 4) as u16).to_be_bytes().to_vec();
    fy_zero.push(fid);
    fy_zero.extend_from_slice(&total.to_be_bytes());
    fy_zero.extend_from_slice(&[0x08, 0x00, 0, 0, 0, 0, 0, 0]);
    fy_zero.extend_from_slice(&y[..4]);
    assert_eq!(run(&[fx.clone(), fy_zero, ix.clone(), ex.clone()]), 0, "refused first fragment supersedes (repaired behaviour)");

    // (1) the first fragment of Y loses its last byte (truncation): ErrorSizeBuffer
    let mut fy_cut = first(fid, total, 0x0800, label, &y[..4]);
    fy_cut.pop();
    let d1 = run(&[fx.clone(), fy_cut, ix.clone(), ex.clone()]);

    // (2) the first fragment of Y announces a GSE length of 7 (< 8 needed with a 3-byte label): ErrorGseLength
    let mut fy_short = (0x8000u16 | 0x1000 | 7).to_be_bytes().to_vec();
    fy_short.push(fid);
    fy_short.extend_from_slice(&total.to_be_bytes());
    fy_short.extend_from_slice(&[0x08, 0x00, 1, 2]);
    let d2 = run(&[fx.clone(), fy_short, ix.clone(), ex.clone()]);

    // the most recent first fragment of id 9 is the one of Y: F(Y) + I(X) + E(X) has neither the announced
    // length nor the CRC of the trailer, so C03 forbids a delivery at E(X)
    assert_eq!((d1, d2), (0, 0), "a PDU was completed across a refused first fragment of the same fragment id");
}
