// Harness E: the receiver under multiple faults (C03, C07, C08, C16). Public API only.
#![allow(dead_code)]
use dvb_gse_rust::crc::DefaultCrc;
use dvb_gse_rust::gse_decap::{
    DecapContext, DecapError, DecapMemoryError, DecapStatus, Decapsulator, GseDecapMemory,
    SimpleGseMemory,
};
use dvb_gse_rust::gse_encap::{EncapMetadata, EncapStatus, Encapsulator};
use dvb_gse_rust::header_extension::{
    Extension, MandatoryHeaderExt, MandatoryHeaderExtensionManager,
};
use dvb_gse_rust::label::Label;
use std::collections::BTreeMap;

// ---------------------------------------------------------------- rng
pub struct Rng(u64);
impl Rng {
    pub fn new(s: u64) -> Self {
        Rng(s.wrapping_mul(0x9E3779B97F4A7C15) ^ 0xD1B54A32D192ED03)
    }
    pub fn next(&mut self) -> u64 {
        let mut x = self.0;
        x ^= x << 13;
        x ^= x >> 7;
        x ^= x << 17;
        self.0 = x;
        x.wrapping_mul(0x2545F4914F6CDD1D)
    }
    pub fn below(&mut self, n: usize) -> usize {
        (self.next() >> 11) as usize % n.max(1)
    }
    pub fn range(&mut self, lo: usize, hi: usize) -> usize {
        lo + self.below(hi - lo + 1)
    }
    pub fn chance(&mut self, num: usize, den: usize) -> bool {
        self.below(den) < num
    }
    pub fn rbytes(&mut self, lo: usize, hi: usize) -> Vec<u8> {
        let n = self.range(lo, hi);
        self.bytes(n)
    }
    pub fn bytes(&mut self, n: usize) -> Vec<u8> {
        (0..n).map(|_| self.next() as u8).collect()
    }
}

// ---------------------------------------------------------------- independent CRC (bitwise)
pub fn crc_bits(data: &[u8], mut crc: u32) -> u32 {
    for &b in data {
        crc ^= (b as u32) << 24;
        for _ in 0..8 {
            crc = if crc & 0x8000_0000 != 0 {
                (crc << 1) ^ 0x04C1_1DB7
            } else {
                crc << 1
            };
        }
    }
    crc
}
pub fn gse_crc(total_len: u16, ptype: u16, label: &[u8], pdu: &[u8]) -> u32 {
    let mut c = crc_bits(&total_len.to_be_bytes(), 0xFFFF_FFFF);
    c = crc_bits(&ptype.to_be_bytes(), c);
    c = crc_bits(label, c);
    crc_bits(pdu, c)
}

// ---------------------------------------------------------------- extension manager used by the tests
#[derive(Clone, Copy)]
pub struct Mhem;
pub fn mhem_table(id: u16) -> Option<(bool, usize)> {
    // (final, data size)
    match id {
        0x0001 => Some((false, 0)),
        0x0002 => Some((false, 3)),
        0x0081 => Some((true, 0)),
        0x0083 => Some((true, 5)),
        _ => None,
    }
}
impl MandatoryHeaderExtensionManager for Mhem {
    fn is_mandatory_header_id_known(&self, id: u16) -> MandatoryHeaderExt {
        match mhem_table(id) {
            Some((true, n)) => MandatoryHeaderExt::Final(n as u8),
            Some((false, n)) => MandatoryHeaderExt::NonFinal(n as u8),
            None => MandatoryHeaderExt::Unknown,
        }
    }
}

// ---------------------------------------------------------------- independent wire parser (oracle side)
#[derive(Debug, Clone, PartialEq)]
pub enum Kind {
    TooShort,
    Padding,
    Truncated { s: bool, e: bool, fid: Option<u8> },
    Complete,
    First,
    Inter,
    End,
}
#[derive(Debug, Clone)]
pub struct Parsed {
    pub kind: Kind,
    pub lt: u8,
    pub gse_len: usize,
    pub fid: Option<u8>,
    pub well_formed: bool, // all the fields of its kind are present
    pub total_len: u16,
    pub ptype: u16,           // final protocol type
    pub label_wire: Vec<u8>,  // label bytes on the wire
    pub ext_ok: bool,         // extension chain parsed
    pub ext_unknown: bool,    // unknown mandatory extension met
    pub exts: Vec<(u16, Vec<u8>)>,
    pub payload: Vec<u8>,
    pub crc: u32,
}
fn lt_len(lt: u8) -> usize {
    match lt {
        0 => 6,
        1 => 3,
        _ => 0,
    }
}
/// returns (exts, final ptype, bytes used after the first type field) or Err(unknown?)
fn parse_exts(mut t: u16, rest: &[u8]) -> Result<(Vec<(u16, Vec<u8>)>, u16, usize), bool> {
    let mut off = 0usize;
    let mut exts = vec![];
    while t < 0x600 {
        let h = (t >> 8) as usize;
        let (fin, n) = if h == 0 {
            match mhem_table(t) {
                None => return Err(true),
                Some(x) => x,
            }
        } else {
            (false, [0usize, 0, 2, 4, 6, 8][h])
        };
        if rest.len() < off + n {
            return Err(false);
        }
        exts.push((t, rest[off..off + n].to_vec()));
        off += n;
        if fin {
            break;
        }
        if rest.len() < off + 2 {
            return Err(false);
        }
        t = u16::from_be_bytes([rest[off], rest[off + 1]]);
        off += 2;
    }
    Ok((exts, t, off))
}
pub fn parse(buf: &[u8]) -> Parsed {
    let mut p = Parsed {
        kind: Kind::TooShort,
        lt: 0,
        gse_len: 0,
        fid: None,
        well_formed: false,
        total_len: 0,
        ptype: 0,
        label_wire: vec![],
        ext_ok: true,
        ext_unknown: false,
        exts: vec![],
        payload: vec![],
        crc: 0,
    };
    if buf.len() < 2 {
        return p;
    }
    let h = u16::from_be_bytes([buf[0], buf[1]]);
    let s = h & 0x8000 != 0;
    let e = h & 0x4000 != 0;
    p.lt = ((h >> 12) & 3) as u8;
    p.gse_len = (h & 0xFFF) as usize;
    if !s && !e && p.lt == 0 {
        p.kind = Kind::Padding;
        return p;
    }
    let pkt_len = p.gse_len + 2;
    let fid_here = if !(s && e) && buf.len() >= 3 { Some(buf[2]) } else { None };
    if buf.len() < pkt_len {
        p.kind = Kind::Truncated { s, e, fid: fid_here };
        p.fid = fid_here;
        return p;
    }
    let pkt = &buf[..pkt_len];
    let ll = lt_len(p.lt);
    match (s, e) {
        (true, true) => {
            p.kind = Kind::Complete;
            if p.gse_len < 2 + ll {
                return p;
            }
            p.well_formed = true;
            let t = u16::from_be_bytes([pkt[2], pkt[3]]);
            p.label_wire = pkt[4..4 + ll].to_vec();
            match parse_exts(t, &pkt[4 + ll..]) {
                Ok((x, t, used)) => {
                    p.exts = x;
                    p.ptype = t;
                    p.payload = pkt[4 + ll + used..].to_vec();
                }
                Err(u) => {
                    p.ext_ok = false;
                    p.ext_unknown = u;
                }
            }
        }
        (true, false) => {
            p.kind = Kind::First;
            p.fid = if p.gse_len >= 1 { Some(pkt[2]) } else { None };
            if p.gse_len < 5 + ll {
                return p;
            }
            p.well_formed = true;
            p.total_len = u16::from_be_bytes([pkt[3], pkt[4]]);
            let t = u16::from_be_bytes([pkt[5], pkt[6]]);
            p.label_wire = pkt[7..7 + ll].to_vec();
            match parse_exts(t, &pkt[7 + ll..]) {
                Ok((x, t, used)) => {
                    p.exts = x;
                    p.ptype = t;
                    p.payload = pkt[7 + ll + used..].to_vec();
                }
                Err(u) => {
                    p.ext_ok = false;
                    p.ext_unknown = u;
                }
            }
        }
        (false, false) => {
            p.kind = Kind::Inter;
            p.fid = if p.gse_len >= 1 { Some(pkt[2]) } else { None };
            if p.gse_len < 2 {
                return p;
            }
            p.well_formed = true;
            p.payload = pkt[3..].to_vec();
        }
        (false, true) => {
            p.kind = Kind::End;
            p.fid = if p.gse_len >= 1 { Some(pkt[2]) } else { None };
            if p.gse_len < 5 {
                return p;
            }
            p.well_formed = true;
            p.payload = pkt[3..pkt_len - 4].to_vec();
            p.crc = u32::from_be_bytes(pkt[pkt_len - 4..].try_into().unwrap());
        }
    }
    p
}

// ---------------------------------------------------------------- snapshots of the real memory
#[derive(Clone, Debug, PartialEq)]
pub struct Snap {
    pub free: Vec<usize>, // sorted storage lengths (each storage has a unique length)
    pub att: BTreeMap<u8, (DecapContext, Vec<u8>)>,
}
pub fn snap(mem: &SimpleGseMemory) -> Snap {
    let mut m = mem.clone();
    let mut att = BTreeMap::new();
    for id in 0..=255u8 {
        if let Ok((c, b)) = m.take_frag(id) {
            att.insert(id, (c, b.to_vec()));
        }
    }
    let mut free = vec![];
    while let Ok(b) = m.new_pdu() {
        free.push(b.len());
    }
    free.sort();
    Snap { free, att }
}
impl Snap {
    pub fn lens(&self) -> Vec<usize> {
        let mut v = self.free.clone();
        v.extend(self.att.values().map(|(_, b)| b.len()));
        v.sort();
        v
    }
}

// ---------------------------------------------------------------- the checked receiver
pub type Dec = Decapsulator<SimpleGseMemory, DefaultCrc, Mhem>;

#[derive(Default, Debug, Clone)]
pub struct Stats {
    pub calls: u64,
    pub delivered_end: u64,
    pub delivered_complete: u64,
    pub errors: u64,
    pub handed_in_error: u64,
    pub strict_literal_only: u64, // deliveries that only the lenient reading of C03 accepts
    pub evictions_by_alias_first: u64,
    pub provision_overflow: u64,
}

pub struct Rx {
    pub dec: Dec,
    pub slots: usize,
    pub max_pdu: usize,
    pub next_len: usize,
    pub all: Vec<usize>,          // lengths of every storage ever created
    pub owned: Vec<Box<[u8]>>,    // storages the caller owns
    pub trace: Vec<Vec<u8>>,      // every buffer given to decap (one decap call each)
    pub last_label_model: Option<Label>,
    pub reuse_resolved: BTreeMap<usize, Label>,
    pub stats: Stats,
    pub check_snap: bool,
}

#[derive(Debug, Clone, PartialEq)]
pub enum Out {
    Delivered(Vec<u8>, u16, Label, Vec<Extension>),
    Frag,
    Padding,
    Err(String),
}

impl Rx {
    pub fn new(slots: usize, max_pdu: usize) -> Self {
        let mem = SimpleGseMemory::new(slots, max_pdu, 0, 0);
        Rx {
            dec: Decapsulator::new(mem, DefaultCrc {}, Mhem),
            slots,
            max_pdu,
            next_len: max_pdu,
            all: vec![],
            owned: vec![],
            trace: vec![],
            last_label_model: None,
            reuse_resolved: BTreeMap::new(),
            stats: Stats::default(),
            check_snap: true,
        }
    }
    pub fn fresh_storage(&mut self) -> Box<[u8]> {
        let l = self.next_len;
        self.next_len += 1;
        self.all.push(l);
        vec![0xEE; l].into_boxed_slice()
    }
    /// provision a brand-new storage; true when accepted
    pub fn provision_new(&mut self) -> bool {
        let b = self.fresh_storage();
        self.provision(b)
    }
    pub fn provision(&mut self, b: Box<[u8]>) -> bool {
        match self.dec.provision_storage(b) {
            Ok(()) => true,
            Err(DecapMemoryError::StorageOverflow(b)) => {
                self.stats.provision_overflow += 1;
                self.owned.push(b);
                false
            }
            Err(DecapMemoryError::BufferTooSmall(b)) => {
                self.owned.push(b);
                false
            }
            Err(e) => panic!("provision_storage lost the buffer: {:?}", e),
        }
    }
    pub fn give_back_owned(&mut self, idx: usize) -> bool {
        let b = self.owned.swap_remove(idx);
        self.provision(b)
    }
    pub fn take_one(&mut self) {
        if let Ok(b) = self.dec.new_pdu() {
            self.owned.push(b);
        }
    }
    pub fn reset(&mut self) {
        self.dec.reset_last_label();
        self.last_label_model = None;
    }
    pub fn conservation(&self, ctx: &str) {
        let s = snap(&self.dec.memory);
        let mut v = s.lens();
        v.extend(self.owned.iter().map(|b| b.len()));
        v.sort();
        let mut all = self.all.clone();
        all.sort();
        assert_eq!(v, all, "C08 conservation broken ({})", ctx);
    }

    /// one decap call on `buf`, with every per-step property check
    pub fn feed(&mut self, buf: &[u8]) -> (Out, usize) {
        let before = if self.check_snap { Some(snap(&self.dec.memory)) } else { None };
        let p = parse(buf);
        self.trace.push(buf.to_vec());
        self.stats.calls += 1;
        let res = self.dec.decap(buf);
        let mut handed: Vec<usize> = vec![];
        let (out, used) = match res {
            Ok((DecapStatus::CompletedPkt(b, m), n)) => {
                let o = Out::Delivered(
                    b[..m.pdu_len()].to_vec(),
                    m.protocol_type(),
                    m.label(),
                    m.extensions().clone(),
                );
                handed.push(b.len());
                self.owned.push(b);
                (o, n)
            }
            Ok((DecapStatus::FragmentedPkt(_), n)) => (Out::Frag, n),
            Ok((DecapStatus::Padding, n)) => (Out::Padding, n),
            Err((e, n)) => {
                self.stats.errors += 1;
                let name = format!("{:?}", e);
                if let DecapError::ErrorMemory(me) = e {
                    match me {
                        DecapMemoryError::StorageOverflow(b) | DecapMemoryError::BufferTooSmall(b) => {
                            self.stats.handed_in_error += 1;
                            handed.push(b.len());
                            self.owned.push(b);
                        }
                        _ => {}
                    }
                }
                (Out::Err(name), n)
            }
        };
        assert!(used <= buf.len().max(0) && (used > 0 || buf.is_empty()), "consumed {} of {}", used, buf.len());

        if let Some(before) = before {
            let after = snap(&self.dec.memory);
            // ---- C08: conservation over this step
            let mut a = after.lens();
            a.extend(handed.iter().cloned());
            a.sort();
            assert_eq!(a, before.lens(), "C08: step lost or duplicated a storage; pkt {:02x?} out {:?}", &buf[..buf.len().min(16)], out);
            // ---- C08: an error never shrinks what the receiver + caller hold
            if let Out::Err(_) = out {
                assert!(after.free.len() + handed.len() >= before.free.len(), "C08: error kept a buffer");
            }
            // ---- C07: isolation of the other ids
            let pid = match p.kind {
                Kind::First | Kind::Inter | Kind::End => p.fid,
                Kind::Truncated { fid, .. } => fid,
                _ => None,
            };
            for (id, v) in &before.att {
                if Some(*id) == pid {
                    continue;
                }
                let may_evict = matches!(p.kind, Kind::First)
                    && pid.map_or(false, |q| q as usize % self.slots == *id as usize % self.slots);
                match after.att.get(id) {
                    Some(w) => assert_eq!(w, v, "C07: reassembly {} altered by packet of id {:?}", id, pid),
                    None => {
                        assert!(may_evict, "C07: reassembly {} destroyed by {:?} packet of id {:?}", id, p.kind, pid);
                        self.stats.evictions_by_alias_first += 1;
                    }
                }
            }
            // no reassembly of another id may appear either
            for id in after.att.keys() {
                if Some(*id) != pid {
                    assert!(before.att.contains_key(id), "reassembly {} appeared from packet of id {:?}", id, pid);
                }
            }
        }

        // ---- C03 oracle on the trace
        if let Out::Delivered(bytes, ptype, label, exts) = &out {
            match p.kind {
                Kind::End => {
                    self.stats.delivered_end += 1;
                    self.check_c03(&p, bytes, *ptype, *label, exts);
                }
                Kind::Complete => {
                    self.stats.delivered_complete += 1;
                    assert!(p.well_formed && p.ext_ok);
                    assert_eq!(&p.payload, bytes);
                    assert_eq!(p.ptype, *ptype);
                    self.check_label(&p, *label);
                    self.check_exts(&p, exts);
                }
                _ => panic!("delivery at a {:?} packet", p.kind),
            }
        }
        self.track_label(&p, &out);
        (out, used)
    }

    fn check_exts(&self, p: &Parsed, exts: &[Extension]) {
        assert_eq!(p.exts.len(), exts.len(), "extension count");
        for (a, b) in p.exts.iter().zip(exts.iter()) {
            assert_eq!(&Extension::new(a.0, &a.1).unwrap(), b);
        }
    }
    fn check_label(&self, p: &Parsed, label: Label) {
        match p.lt {
            0 => assert_eq!(label, Label::SixBytesLabel(p.label_wire.clone().try_into().unwrap())),
            1 => assert_eq!(label, Label::ThreeBytesLabel(p.label_wire.clone().try_into().unwrap())),
            2 => assert_eq!(label, Label::Broadcast),
            _ => {
                assert!(matches!(label, Label::SixBytesLabel(_) | Label::ThreeBytesLabel(_)));
                if p.kind == Kind::Complete {
                    assert_eq!(Some(label), self.last_label_model, "re-use label resolved to another label");
                }
            }
        }
    }
    /// the label the receiver remembers, tracked only to validate re-use deliveries loosely
    fn track_label(&mut self, p: &Parsed, o: &Out) {
        let idx = self.trace.len() - 1;
        let explicit = |p: &Parsed| match p.lt {
            0 => Some(Label::SixBytesLabel(p.label_wire.clone().try_into().unwrap())),
            1 => Some(Label::ThreeBytesLabel(p.label_wire.clone().try_into().unwrap())),
            _ => None,
        };
        match p.kind {
            Kind::TooShort | Kind::Padding | Kind::Truncated { .. } => self.last_label_model = None,
            Kind::Complete | Kind::First => {
                let ok = matches!(o, Out::Delivered(..) | Out::Frag);
                if !ok {
                    self.last_label_model = None;
                } else {
                    match p.lt {
                        0 | 1 => self.last_label_model = explicit(p),
                        2 => self.last_label_model = None,
                        _ => {
                            if p.kind == Kind::First {
                                self.reuse_resolved.insert(idx, self.last_label_model.expect("re-use accepted without label"));
                            }
                        }
                    }
                }
            }
            Kind::Inter | Kind::End => {
                if !p.well_formed {
                    self.last_label_model = None;
                }
            }
        }
    }

    fn check_c03(&mut self, endp: &Parsed, bytes: &[u8], ptype: u16, label: Label, exts: &[Extension]) {
        let f = endp.fid.unwrap();
        let e = self.trace.len() - 1;
        // lenient reading: only well-formed, complete packets are fragments
        let mut j_len = None;
        let mut j_strict = None;
        for j in (0..e).rev() {
            let q = parse(&self.trace[j]);
            let is_first_wf = q.kind == Kind::First && q.well_formed && q.fid == Some(f);
            let is_first_strict = is_first_wf
                || (q.kind == Kind::First && q.fid == Some(f))
                || matches!(q.kind, Kind::Truncated { s: true, e: false, fid } if fid == Some(f));
            if j_strict.is_none() && is_first_strict {
                j_strict = Some(j);
            }
            if is_first_wf {
                j_len = Some(j);
                break;
            }
        }
        let j = j_len.expect("C03: delivery without any first fragment of that id");
        let first = parse(&self.trace[j]);
        assert!(first.ext_ok, "C03: delivery from a first fragment with a broken extension chain");
        let mut cat = first.payload.clone();
        let mut skipped_degenerate = false;
        for k in j + 1..=e {
            let q = parse(&self.trace[k]);
            match q.kind {
                Kind::Inter | Kind::End if q.fid == Some(f) => {
                    if q.well_formed {
                        cat.extend_from_slice(&q.payload);
                    } else {
                        skipped_degenerate = true;
                    }
                }
                Kind::Truncated { s: false, fid, .. } if fid == Some(f) => skipped_degenerate = true,
                _ => {}
            }
        }
        let ll = first.label_wire.len();
        assert_eq!(cat.len() + 2 + ll, first.total_len as usize, "C03: delivered with a wrong total length");
        let crc = gse_crc(first.total_len, first.ptype, &first.label_wire, &cat);
        assert_eq!(crc, endp.crc, "C03: delivered with a wrong CRC");
        assert_eq!(cat, bytes, "C03: delivered bytes differ from the concatenation");
        assert_eq!(first.ptype, ptype, "C03: protocol type");
        self.check_label(&first, label);
        if first.lt == 3 {
            assert_eq!(Some(&label), self.reuse_resolved.get(&j), "C03: re-use label of the first fragment");
        }
        self.check_exts(&first, exts);
        if j_strict != Some(j) || skipped_degenerate {
            self.stats.strict_literal_only += 1;
        }
    }

    /// C16 epilogue: after any history, reset + one storage => fresh traffic goes through
    pub fn epilogue(&mut self, rng: &mut Rng) {
        self.conservation("before epilogue");
        self.reset();
        let ok = self.provision_new();
        if !ok {
            // provisioning reports the free list is full: fine
            let s = snap(&self.dec.memory);
            assert_eq!(s.free.len(), self.slots + 2, "overflow reported while the free list is not full");
        }
        // complete packet with explicit label
        let mut enc = Encapsulator::new(DefaultCrc {});
        let label = rand_explicit_label(rng);
        let n = rng.range(0, self.max_pdu.min(60));
        let pdu = rng.bytes(n);
        let pt = 0x0600 + rng.below(0xFA00) as u16;
        let mut b = vec![0u8; 200];
        let st = enc.encap(&pdu, 0, EncapMetadata::new(pt, label), &mut b).unwrap();
        let l = match st {
            EncapStatus::CompletedPkt(l) => l as usize,
            _ => unreachable!(),
        };
        let (o, used) = self.feed(&b[..l]);
        assert_eq!(used, l);
        assert_eq!(o, Out::Delivered(pdu.clone(), pt, label, vec![]), "C16: complete packet after history");
        // the caller gives that storage back (it owns it), unless the list is full
        let i = self.owned.len() - 1;
        self.give_back_owned(i);
        // fragmented PDU on any id, any label kind
        let fid = rng.next() as u8;
        let kind = rng.below(4);
        let label2 = match kind {
            0 => Label::Broadcast,
            1 => rand_explicit_label(rng),
            2 => rand_explicit_label(rng),
            _ => label, // emitted as re-use by the same encapsulator
        };
        let n = rng.range(1, self.max_pdu);
        let pdu = rng.bytes(n);
        let pkts = fragment(&mut enc, &pdu, fid, EncapMetadata::new(pt, label2), rng, 3);
        if kind == 3 {
            assert_eq!(pkts[0][0] & 0x30, 0x30, "expected a re-use label on the wire");
        }
        let last = pkts.len() - 1;
        for (i, pk) in pkts.iter().enumerate() {
            let (o, used) = self.feed(pk);
            assert_eq!(used, pk.len());
            if i == last && pkts.len() > 1 || pkts.len() == 1 {
                assert_eq!(o, Out::Delivered(pdu.clone(), pt, label2, vec![]), "C16: fragmented PDU after history (fid {})", fid);
            } else {
                assert_eq!(o, Out::Frag, "C16: fragment {} refused after history (fid {})", i, fid);
            }
        }
        self.conservation("after epilogue");
    }
}

pub fn rand_explicit_label(rng: &mut Rng) -> Label {
    if rng.chance(1, 2) {
        let mut l = [0u8; 3];
        for x in l.iter_mut() {
            *x = rng.next() as u8;
        }
        Label::ThreeBytesLabel(l)
    } else {
        let mut l = [0u8; 6];
        for x in l.iter_mut() {
            *x = rng.next() as u8;
        }
        l[0] |= 1;
        Label::SixBytesLabel(l)
    }
}

/// fragment a PDU with the real encapsulator in about `nfrag` packets (random sizes)
pub fn fragment(
    enc: &mut Encapsulator<DefaultCrc>,
    pdu: &[u8],
    fid: u8,
    md: EncapMetadata,
    rng: &mut Rng,
    nfrag: usize,
) -> Vec<Vec<u8>> {
    let mut out = vec![];
    let per = pdu.len() / nfrag.max(1) + 1;
    let mut b = vec![0u8; 7 + 6 + rng.range(1, per)];
    if nfrag <= 1 {
        b = vec![0u8; pdu.len() + 20];
    }
    let mut st = enc.encap(pdu, fid, md, &mut b).unwrap();
    loop {
        match st {
            EncapStatus::CompletedPkt(l) => {
                out.push(b[..l as usize].to_vec());
                return out;
            }
            EncapStatus::FragmentedPkt(l, ctx) => {
                out.push(b[..l as usize].to_vec());
                let remaining_pkts = nfrag.saturating_sub(out.len());
                b = if remaining_pkts <= 1 {
                    vec![0u8; pdu.len() + 20]
                } else {
                    vec![0u8; 3 + rng.range(1, per)]
                };
                st = match enc.encap_frag(pdu, &ctx, &mut b) {
                    Ok(s) => s,
                    Err(_) => {
                        b = vec![0u8; pdu.len() + 20];
                        enc.encap_frag(pdu, &ctx, &mut b).unwrap()
                    }
                };
            }
        }
    }
}

pub fn fragment_ext(
    enc: &mut Encapsulator<DefaultCrc>,
    pdu: &[u8],
    fid: u8,
    md: EncapMetadata,
    exts: Vec<Extension>,
    rng: &mut Rng,
    nfrag: usize,
) -> Vec<Vec<u8>> {
    let mut out = vec![];
    let extlen: usize = exts.iter().map(|e| e.len()).sum();
    let per = pdu.len() / nfrag.max(1) + 1;
    let mut b = vec![0u8; 7 + 6 + extlen + rng.range(1, per)];
    if nfrag <= 1 {
        b = vec![0u8; pdu.len() + 20 + extlen];
    }
    let mut st = enc.encap_ext(pdu, fid, md, &mut b, exts).unwrap();
    loop {
        match st {
            EncapStatus::CompletedPkt(l) => {
                out.push(b[..l as usize].to_vec());
                return out;
            }
            EncapStatus::FragmentedPkt(l, ctx) => {
                out.push(b[..l as usize].to_vec());
                let remaining_pkts = nfrag.saturating_sub(out.len());
                b = if remaining_pkts <= 1 {
                    vec![0u8; pdu.len() + 20]
                } else {
                    vec![0u8; 3 + rng.range(1, per)]
                };
                st = match enc.encap_frag(pdu, &ctx, &mut b) {
                    Ok(s) => s,
                    Err(_) => {
                        b = vec![0u8; pdu.len() + 20];
                        enc.encap_frag(pdu, &ctx, &mut b).unwrap()
                    }
                };
            }
        }
    }
}

// ---------------------------------------------------------------- hand-built packets
pub fn hdr(s: bool, e: bool, lt: u8, gse_len: usize) -> [u8; 2] {
    let h = ((s as u16) << 15) | ((e as u16) << 14) | ((lt as u16 & 3) << 12) | (gse_len as u16 & 0xFFF);
    h.to_be_bytes()
}
pub fn label_wire(l: &Label) -> (u8, Vec<u8>) {
    match l {
        Label::SixBytesLabel(b) => (0, b.to_vec()),
        Label::ThreeBytesLabel(b) => (1, b.to_vec()),
        Label::Broadcast => (2, vec![]),
        Label::ReUse => (3, vec![]),
    }
}
/// first fragment; `type_and_ext` = wire bytes of the type field .. final protocol type, split around the label
pub fn mk_first(fid: u8, total_len: u16, l: &Label, type_field: u16, after_label: &[u8], payload: &[u8]) -> Vec<u8> {
    let (lt, lb) = label_wire(l);
    let gse_len = 1 + 2 + 2 + lb.len() + after_label.len() + payload.len();
    let mut v = hdr(true, false, lt, gse_len).to_vec();
    v.push(fid);
    v.extend_from_slice(&total_len.to_be_bytes());
    v.extend_from_slice(&type_field.to_be_bytes());
    v.extend_from_slice(&lb);
    v.extend_from_slice(after_label);
    v.extend_from_slice(payload);
    v
}
pub fn mk_inter(fid: u8, lt: u8, payload: &[u8]) -> Vec<u8> {
    let mut v = hdr(false, false, lt, 1 + payload.len()).to_vec();
    v.push(fid);
    v.extend_from_slice(payload);
    v
}
pub fn mk_end(fid: u8, lt: u8, payload: &[u8], crc: u32) -> Vec<u8> {
    let mut v = hdr(false, true, lt, 1 + payload.len() + 4).to_vec();
    v.push(fid);
    v.extend_from_slice(payload);
    v.extend_from_slice(&crc.to_be_bytes());
    v
}
pub fn mk_complete(l: &Label, type_field: u16, after_label: &[u8], payload: &[u8]) -> Vec<u8> {
    let (lt, lb) = label_wire(l);
    let gse_len = 2 + lb.len() + after_label.len() + payload.len();
    let mut v = hdr(true, true, lt, gse_len).to_vec();
    v.extend_from_slice(&type_field.to_be_bytes());
    v.extend_from_slice(&lb);
    v.extend_from_slice(after_label);
    v.extend_from_slice(payload);
    v
}
/// a valid hand-built train (explicit or broadcast label), cut at the given points
pub fn mk_train(fid: u8, l: &Label, ptype: u16, pdu: &[u8], cuts: &[usize]) -> Vec<Vec<u8>> {
    let (_, lb) = label_wire(l);
    let total = (pdu.len() + 2 + lb.len()) as u16;
    let crc = gse_crc(total, ptype, &lb, pdu);
    let mut out = vec![];
    let mut prev = 0;
    for (i, &c) in cuts.iter().enumerate() {
        if i == 0 {
            out.push(mk_first(fid, total, l, ptype, &[], &pdu[..c]));
        } else {
            out.push(mk_inter(fid, 3, &pdu[prev..c]));
        }
        prev = c;
    }
    out.push(mk_end(fid, 3, &pdu[prev..], crc));
    out
}

// ---------------------------------------------------------------- refused first fragments, every cause
pub const N_REFUSALS: usize = 12;
/// (packet, claims_slot): a first fragment on `fid` that the receiver must refuse.
/// Some causes need a receiver state (no remembered label, no storage): the caller arranges it when it can.
pub fn refused_first(cause: usize, fid: u8, rng: &mut Rng, max_storage: usize) -> (Vec<u8>, &'static str) {
    let pl = rng.rbytes(1, 8);
    let l3 = Label::ThreeBytesLabel([1, 2, 3]);
    match cause % N_REFUSALS {
        0 => (mk_first(fid, 100, &Label::SixBytesLabel([0; 6]), 0x0800, &[], &pl), "zero label"),
        1 => (mk_first(fid, 100, &Label::ReUse, 0x0800, &[], &pl), "re-use (maybe without context)"),
        2 => (mk_first(fid, 100, &l3, 0x0005, &[], &pl), "unknown mandatory extension"),
        3 => (mk_first(fid, 100, &l3, 0x0500, &[1, 2, 3], &[]), "extension chain longer than the packet"),
        4 => (mk_first(fid, pl.len() as u16, &l3, 0x0800, &[], &pl), "total length <= payload"),
        5 => (mk_first(fid, 0, &Label::Broadcast, 0x0800, &[], &[]), "total length 0"),
        6 => {
            let nb = max_storage + 1 + rng.below(4);
            let big = rng.bytes(nb);
            (mk_first(fid, 4000, &Label::Broadcast, 0x0800, &[], &big), "oversize for any storage")
        }
        7 => {
            // gse length too small for a first fragment with that label
            let mut v = hdr(true, false, 0, 6).to_vec();
            v.push(fid);
            v.extend_from_slice(&[0, 50, 8, 0, 9]);
            (v, "gse length too small")
        }
        8 => {
            let mut v = mk_first(fid, 100, &l3, 0x0800, &[], &pl);
            let n = rng.range(3, v.len() - 1);
            v.truncate(n);
            (v, "truncated")
        }
        9 => (mk_first(fid, 100, &l3, 0x0001, &[], &[]), "known non-final mandatory ext without following type"),
        10 => (mk_first(fid, 100, &Label::Broadcast, 0x0083, &[1, 2], &[]), "final mandatory ext with missing data"),
        _ => (mk_first(fid, 100, &l3, 0x0200, &[9, 9, 0x00, 0x07], &pl), "optional ext followed by unknown mandatory"),
    }
}

// ---------------------------------------------------------------- faults
#[derive(Debug, Clone)]
pub enum Fault {
    Drop(usize),
    Dup(usize, usize),
    Swap(usize, usize),
    Flip(usize, usize),
    Burst(usize, usize, u32, usize),
    Trunc(usize, usize),
    Fid(usize, u8),
    TotalLen(usize, u16),
    Crc(usize, u32),
    GseLen(usize, u16),
    Lt(usize, u8),
}
pub fn rand_fault(rng: &mut Rng, n: usize) -> Fault {
    let i = rng.below(n);
    match rng.below(11) {
        0 => Fault::Drop(i),
        1 => Fault::Dup(i, rng.below(n + 1)),
        2 => Fault::Swap(i, rng.below(n)),
        3 => Fault::Flip(i, rng.next() as usize),
        4 => Fault::Burst(i, rng.next() as usize, rng.next() as u32, rng.range(2, 32)),
        5 => Fault::Trunc(i, rng.next() as usize),
        6 => Fault::Fid(i, rng.next() as u8),
        7 => Fault::TotalLen(i, rng.next() as u16),
        8 => Fault::Crc(i, rng.next() as u32),
        9 => Fault::GseLen(i, rng.next() as u16),
        _ => Fault::Lt(i, rng.next() as u8),
    }
}
pub fn burst(p: &mut [u8], start_bit: usize, pattern: u32, len: usize) {
    // `len` bits, first and last forced to 1
    let nbits = p.len() * 8;
    if nbits == 0 {
        return;
    }
    let len = len.min(nbits).max(1);
    let start = start_bit % (nbits - len + 1);
    for k in 0..len {
        let on = k == 0 || k == len - 1 || (pattern >> k) & 1 == 1;
        if on {
            let b = start + k;
            p[b / 8] ^= 0x80 >> (b % 8);
        }
    }
}
pub fn apply(f: &Fault, seq: &mut Vec<Vec<u8>>) {
    if seq.is_empty() {
        return;
    }
    let n = seq.len();
    match *f {
        Fault::Drop(i) => {
            seq.remove(i % n);
        }
        Fault::Dup(i, at) => {
            let c = seq[i % n].clone();
            seq.insert(at % (n + 1), c);
        }
        Fault::Swap(i, j) => seq.swap(i % n, j % n),
        Fault::Flip(i, b) => {
            let p = &mut seq[i % n];
            if !p.is_empty() {
                let b = b % (p.len() * 8);
                p[b / 8] ^= 0x80 >> (b % 8);
            }
        }
        Fault::Burst(i, s, pat, len) => burst(&mut seq[i % n], s, pat, len),
        Fault::Trunc(i, l) => {
            let p = &mut seq[i % n];
            let l = l % (p.len() + 1);
            p.truncate(l);
        }
        Fault::Fid(i, v) => {
            let p = &mut seq[i % n];
            if p.len() > 2 && p[0] & 0xC0 != 0xC0 {
                p[2] = v;
            }
        }
        Fault::TotalLen(i, v) => {
            let p = &mut seq[i % n];
            if p.len() > 4 && p[0] & 0xC0 == 0x80 {
                p[3..5].copy_from_slice(&v.to_be_bytes());
            }
        }
        Fault::Crc(i, v) => {
            let p = &mut seq[i % n];
            let l = p.len();
            if l >= 7 && p[0] & 0xC0 == 0x40 {
                p[l - 4..].copy_from_slice(&v.to_be_bytes());
            }
        }
        Fault::GseLen(i, v) => {
            let p = &mut seq[i % n];
            if p.len() >= 2 {
                p[0] = (p[0] & 0xF0) | ((v >> 8) as u8 & 0x0F);
                p[1] = v as u8;
            }
        }
        Fault::Lt(i, v) => {
            let p = &mut seq[i % n];
            if !p.is_empty() {
                p[0] = (p[0] & 0xCF) | ((v & 3) << 4);
            }
        }
    }
}

// ---------------------------------------------------------------- train generator (real encapsulator)
pub fn rand_train(enc: &mut Encapsulator<DefaultCrc>, rng: &mut Rng, fid: u8, max_len: usize, label: Label) -> (Vec<Vec<u8>>, Vec<u8>) {
    let n = rng.range(1, max_len);
    let pdu = rng.bytes(n);
    let nfrag = rng.range(2, 5);
    let pkts = match rng.below(6) {
        0 => {
            let pt = 0x0600 + rng.below(0xFA00) as u16;
            let e = vec![Extension::new(0x0200 + rng.below(256) as u16, &[1, 2]).unwrap()];
            fragment_ext(enc, &pdu, fid, EncapMetadata::new(pt, label), e, rng, nfrag)
        }
        1 => {
            let e = vec![
                Extension::new(0x0002, &[7, 8, 9]).unwrap(),
                Extension::new(0x0100, &[]).unwrap(),
                Extension::new(0x0083, &[1, 2, 3, 4, 5]).unwrap(),
            ];
            fragment_ext(enc, &pdu, fid, EncapMetadata::new(0x0083, label), e, rng, nfrag)
        }
        _ => {
            let pt = 0x0600 + rng.below(0xFA00) as u16;
            fragment(enc, &pdu, fid, EncapMetadata::new(pt, label), rng, nfrag)
        }
    };
    (pkts, pdu)
}

fn slot_choices(rng: &mut Rng) -> usize {
    const C: [usize; 12] = [1, 2, 3, 4, 5, 7, 8, 16, 100, 128, 255, 256];
    if rng.chance(1, 6) {
        rng.range(1, 256)
    } else {
        C[rng.below(C.len())]
    }
}

fn run_multi_fault(seed: u64, iters: usize) -> Stats {
    let mut rng = Rng::new(seed);
    let mut total = Stats::default();
    for _it in 0..iters {
        let slots = slot_choices(&mut rng);
        let max_pdu = rng.range(8, 48);
        let mut rx = Rx::new(slots, max_pdu);
        let nprov = rng.below(slots.min(6) + 3);
        for _ in 0..nprov {
            rx.provision_new();
        }
        let mut enc = Encapsulator::new(DefaultCrc {});
        if rng.chance(1, 3) {
            enc.disable_re_use_label();
        }
        // ids: mostly aliasing
        let base = rng.next() as u8;
        let mut ids = vec![base];
        for k in 1..4 {
            ids.push(match rng.below(4) {
                0 => base,
                1 => ((base as usize + k * slots) % 256) as u8,
                2 => base.wrapping_add(1),
                _ => rng.next() as u8,
            });
        }
        let labels = [rand_explicit_label(&mut rng), rand_explicit_label(&mut rng), Label::Broadcast];
        // trains
        let ntr = rng.range(1, 4);
        let mut trains: Vec<Vec<Vec<u8>>> = vec![];
        for t in 0..ntr {
            let nl = if rng.chance(1, 2) { 1 } else { 3 };
            let l = labels[rng.below(nl)];
            let ml = max_pdu + rng.below(12);
            let (mut pk, _) = rand_train(&mut enc, &mut rng, ids[t], ml, l);
            // faults local to the train
            let nf = rng.below(3);
            for _ in 0..nf {
                let f = rand_fault(&mut rng, pk.len().max(1));
                apply(&f, &mut pk);
            }
            trains.push(pk);
        }
        // merge
        let mut seq: Vec<Vec<u8>> = vec![];
        let mut pos = vec![0usize; trains.len()];
        loop {
            let live: Vec<usize> = (0..trains.len()).filter(|&t| pos[t] < trains[t].len()).collect();
            if live.is_empty() {
                break;
            }
            let t = if rng.chance(1, 3) { live[0] } else { live[rng.below(live.len())] };
            seq.push(trains[t][pos[t]].clone());
            pos[t] += 1;
        }
        // global faults
        for _ in 0..rng.below(3) {
            let f = rand_fault(&mut rng, seq.len().max(1));
            apply(&f, &mut seq);
        }
        // insertions: refused firsts, strays, complete packets, garbage
        for _ in 0..rng.below(5) {
            let at = rng.below(seq.len() + 1);
            let fid = ids[rng.below(ids.len())];
            let pk = match rng.below(6) {
                0 | 1 => refused_first(rng.below(N_REFUSALS), fid, &mut rng, max_pdu + 60).0,
                2 => mk_inter(fid, 1 + rng.below(3) as u8, &rng.rbytes(1, 70)),
                3 => mk_end(fid, rng.below(4) as u8, &rng.rbytes(0, 70), rng.next() as u32),
                4 => {
                    let l = [labels[0], labels[2], Label::ReUse, Label::SixBytesLabel([0; 6])][rng.below(4)];
                    mk_complete(&l, 0x0600 + rng.below(100) as u16, &[], &rng.rbytes(0, 60))
                }
                _ => rng.rbytes(0, 12),
            };
            seq.insert(at, pk);
        }
        // run
        let mut i = 0;
        while i < seq.len() {
            // caller actions
            match rng.below(12) {
                0 => rx.reset(),
                1 | 2 => {
                    rx.provision_new();
                }
                3 | 4 => {
                    if !rx.owned.is_empty() {
                        let k = rng.below(rx.owned.len());
                        rx.give_back_owned(k);
                    }
                }
                5 => rx.take_one(),
                _ => {}
            }
            if rng.chance(1, 8) && i + 1 < seq.len() {
                // several packets in one buffer (base band frame), walked with the consumed lengths
                let k = rng.range(2, 3).min(seq.len() - i);
                let mut frame = vec![];
                for p in &seq[i..i + k] {
                    frame.extend_from_slice(p);
                }
                if rng.chance(1, 2) {
                    frame.extend_from_slice(&[0u8; 5]);
                }
                let mut off = 0;
                while off < frame.len() {
                    let (_, used) = rx.feed(&frame[off..]);
                    off += used;
                }
                i += k;
            } else {
                rx.feed(&seq[i]);
                i += 1;
            }
        }
        rx.epilogue(&mut rng);
        let s = &rx.stats;
        total.calls += s.calls;
        total.delivered_end += s.delivered_end;
        total.delivered_complete += s.delivered_complete;
        total.errors += s.errors;
        total.handed_in_error += s.handed_in_error;
        total.strict_literal_only += s.strict_literal_only;
        total.evictions_by_alias_first += s.evictions_by_alias_first;
        total.provision_overflow += s.provision_overflow;
    }
    total
}

fn iters(default: usize) -> usize {
    std::env::var("HARNESS_E_ITERS").ok().and_then(|v| v.parse().ok()).unwrap_or(default)
}

#[test]
fn e1_multi_fault_random() {
    let n = iters(20000);
    let mut tot = Stats::default();
    for seed in 0..8u64 {
        let s = run_multi_fault(0xE100 + seed, n / 8);
        tot.calls += s.calls;
        tot.delivered_end += s.delivered_end;
        tot.delivered_complete += s.delivered_complete;
        tot.errors += s.errors;
        tot.handed_in_error += s.handed_in_error;
        tot.strict_literal_only += s.strict_literal_only;
        tot.evictions_by_alias_first += s.evictions_by_alias_first;
        tot.provision_overflow += s.provision_overflow;
    }
    println!("e1 {:?}", tot);
    assert!(tot.delivered_end > 0);
}

// ---------------------------------------------------------------- e2: refused first fragments in the middle of another train
fn delivered(o: &Out) -> bool {
    matches!(o, Out::Delivered(..))
}

#[test]
fn e2_refused_first_in_middle() {
    let mut rng = Rng::new(0xE2);
    let mut n_cases = 0u64;
    let mut borderline = 0u64;
    for &slots in &[1usize, 2, 3, 5, 8, 64, 255, 256] {
        for v in [0u8, 1, 7, 200, 255] {
            let intruders: Vec<(u8, &str)> = vec![
                (v, "same"),
                (((v as usize + slots) % 256) as u8, "alias"),
                (v.wrapping_add(1), "next"),
            ];
            for (q, rel) in &intruders {
                for cause in 0..=N_REFUSALS {
                    for pos in 1..=2usize {
                        for victim_label in [Label::Broadcast, Label::ThreeBytesLabel([4, 5, 6])] {
                            let max_pdu = 30;
                            let mut rx = Rx::new(slots, max_pdu);
                            rx.provision_new();
                            if cause != N_REFUSALS {
                                rx.provision_new();
                            }
                            let pdu = rng.bytes(20);
                            let train = mk_train(v, &victim_label, 0x0800, &pdu, &[7, 13]);
                            let (intr, why) = if cause == N_REFUSALS {
                                // a valid first fragment that finds no storage (free list empty)
                                (mk_first(*q, 50, &Label::Broadcast, 0x0900, &[], &[1, 2, 3]), "no storage")
                            } else {
                                refused_first(cause, *q, &mut rng, max_pdu + 10)
                            };
                            let same_id = *q == v;
                            let aliases = (*q as usize % slots) == (v as usize % slots);
                            let mut outs = vec![];
                            for (i, p) in train.iter().enumerate() {
                                if i == pos {
                                    let (o, _) = rx.feed(&intr);
                                    // re-use first after an explicit label is a legal first fragment
                                    let accepted_ok = (cause == 1 && victim_label != Label::Broadcast)
                                        || (cause == N_REFUSALS && aliases);
                                    if accepted_ok {
                                        assert_eq!(o, Out::Frag, "{} {} slots {}", why, rel, slots);
                                    } else {
                                        assert!(matches!(o, Out::Err(_)), "intruder '{}' not refused: {:?}", why, o);
                                    }
                                }
                                outs.push(rx.feed(p).0);
                            }
                            let got = delivered(&outs[2]);
                            let accepted_first = (cause == 1 && victim_label != Label::Broadcast) || cause == N_REFUSALS;
                            let expect = if same_id {
                                // the refused first supersedes the train, except when it is not even a packet
                                if cause == 7 || cause == 8 { borderline += 1; true } else { false }
                            } else if aliases {
                                // survives unless the intruder claimed the slot (accepted, or oversize: known)
                                !(accepted_first || cause == 6)
                            } else {
                                true
                            };
                            assert_eq!(got, expect, "victim {} intruder {} ({}) cause '{}' pos {} slots {} -> {:?}", v, q, rel, why, pos, slots, outs);
                            if got {
                                assert_eq!(outs[2], Out::Delivered(pdu.clone(), 0x0800, victim_label, vec![]));
                            }
                            rx.epilogue(&mut rng);
                            n_cases += 1;
                        }
                    }
                }
            }
        }
    }
    println!("e2 cases {} (same-id not-a-packet survivals {})", n_cases, borderline);
}

// ---------------------------------------------------------------- e3: exactly-full free lists, every give-back path
#[test]
fn e3_exact_full_free_list() {
    let mut rng = Rng::new(0xE3);
    let mut n_cases = 0;
    for slots in [1usize, 2, 3, 4, 9, 256] {
        for path in 0..8 {
            let max_pdu = 24;
            let mut rx = Rx::new(slots, max_pdu);
            for _ in 0..slots + 2 {
                assert!(rx.provision_new());
            }
            assert!(!rx.provision_new(), "list of {} slots accepts more than slots+2", slots);
            // one unfinished train per slot
            let mut pdus = vec![];
            for id in 0..slots.min(256) {
                let pdu = rng.bytes(20);
                let t = mk_train(id as u8, &Label::ThreeBytesLabel([9, 9, id as u8]), 0x0801, &pdu, &[5, 11]);
                assert_eq!(rx.feed(&t[0]).0, Out::Frag);
                assert_eq!(rx.feed(&t[1]).0, Out::Frag);
                pdus.push((pdu, t));
            }
            // refill: the list is exactly full again while every slot holds a storage
            while rx.provision_new() {}
            assert_eq!(snap(&rx.dec.memory).free.len(), slots + 2);
            let id = (slots - 1).min(255) as u8;
            let pkt = match path {
                0 => mk_inter(id, 3, &rng.bytes(200)),                 // too large for the storage
                1 => mk_end(id, 3, &pdus[id as usize].0[11..], 0),     // wrong CRC
                2 => mk_end(id, 3, &[1], 0),                            // wrong length
                3 => refused_first(0, id, &mut rng, 100).0,            // zero label, same id
                4 => refused_first(6, id, &mut rng, 100).0,            // oversize first, same id
                5 => refused_first(2, id, &mut rng, 100).0,            // unknown mandatory ext, same id
                6 => refused_first(4, id, &mut rng, 100).0,            // total length, same id
                _ => mk_end(id, 3, &rng.bytes(200), 0),                // end too large
            };
            let before = rx.owned.len();
            let (o, _) = rx.feed(&pkt);
            match &o {
                Out::Err(s) => assert!(s.contains("StorageOverflow"), "path {}: {}", path, s),
                _ => panic!("path {} not refused: {:?}", path, o),
            }
            assert_eq!(rx.owned.len(), before + 1, "the storage must reach the caller");
            // the other reassemblies still complete
            for (k, (pdu, t)) in pdus.iter().enumerate() {
                if k as u8 == id {
                    assert!(matches!(rx.feed(&t[2]).0, Out::Err(_)));
                } else {
                    assert_eq!(rx.feed(&t[2]).0, Out::Delivered(pdu.clone(), 0x0801, Label::ThreeBytesLabel([9, 9, k as u8]), vec![]));
                }
            }
            rx.epilogue(&mut rng);
            n_cases += 1;
        }
    }
    println!("e3 cases {}", n_cases);
}

// ---------------------------------------------------------------- e4: C07 interleavings with strays at every position
fn merges(lens: &[usize], cur: &mut Vec<usize>, pos: &mut Vec<usize>, out: &mut Vec<Vec<usize>>) {
    if pos.iter().zip(lens).all(|(p, l)| p == l) {
        out.push(cur.clone());
        return;
    }
    for t in 0..lens.len() {
        if pos[t] < lens[t] {
            pos[t] += 1;
            cur.push(t);
            merges(lens, cur, pos, out);
            cur.pop();
            pos[t] -= 1;
        }
    }
}

fn run_interleaving(slots: usize, trains: &[(u8, Label, u16, Vec<u8>, Vec<Vec<u8>>)], order: &[usize], stray: Option<(usize, &Vec<u8>)>, rng: &mut Rng, epilogue: bool) {
    let mut rx = Rx::new(slots, 40);
    for _ in 0..trains.len() {
        rx.provision_new();
    }
    let mut pos = vec![0usize; trains.len()];
    let mut got = vec![0usize; trains.len()];
    for (k, &t) in order.iter().enumerate() {
        if let Some((at, s)) = stray {
            if at == k {
                let (o, _) = rx.feed(s);
                if delivered(&o) {
                    // a stray complete packet used a storage: the caller gives it back
                    let i = rx.owned.len() - 1;
                    rx.give_back_owned(i);
                }
            }
        }
        let (id, l, pt, pdu, pk) = &trains[t];
        let (o, used) = rx.feed(&pk[pos[t]]);
        assert_eq!(used, pk[pos[t]].len());
        pos[t] += 1;
        if pos[t] == pk.len() {
            assert_eq!(o, Out::Delivered(pdu.clone(), *pt, *l, vec![]), "C07: PDU of id {} not delivered at its end (order {:?}, stray {:?})", id, order, stray.map(|s| s.0));
            got[t] += 1;
        } else {
            assert_eq!(o, Out::Frag, "C07: fragment of id {} refused (order {:?})", id, order);
        }
    }
    assert!(got.iter().all(|&g| g == 1));
    if let Some((at, s)) = stray {
        if at == order.len() {
            rx.feed(s);
        }
    }
    if epilogue {
        rx.epilogue(rng);
    } else {
        rx.conservation("end of interleaving");
    }
}

#[test]
fn e4_c07_interleavings() {
    let mut rng = Rng::new(0xE4);
    let mut n = 0u64;
    // (slots, ids tracked separately)
    let setups: Vec<(usize, Vec<u8>)> = vec![
        (2, vec![4, 7]),
        (3, vec![3, 7, 2]),
        (4, vec![0, 5, 10, 15]),
        (256, vec![0, 255, 128, 1]),
        (5, vec![250, 251, 252, 253]),
    ];
    for (slots, ids) in &setups {
        for shape in [vec![2usize, 2], vec![2, 3], vec![3, 3], vec![2, 2, 2], vec![3, 2, 2], vec![2, 2, 2, 2], vec![4, 3], vec![5, 2]] {
            if shape.len() > ids.len() {
                continue;
            }
            let labels = [Label::ThreeBytesLabel([1, 1, 1]), Label::SixBytesLabel([2; 6]), Label::Broadcast, Label::ThreeBytesLabel([3, 3, 3])];
            let mut trains = vec![];
            for (t, &nf) in shape.iter().enumerate() {
                let pdu = rng.bytes(12 + 3 * t);
                let cuts: Vec<usize> = (1..nf).map(|c| c * 2 + t).collect();
                let pt = 0x0700 + t as u16;
                let pk = mk_train(ids[t], &labels[t], pt, &pdu, &cuts);
                assert_eq!(pk.len(), nf);
                trains.push((ids[t], labels[t], pt, pdu, pk));
            }
            let mut all = vec![];
            merges(&shape, &mut vec![], &mut vec![0; shape.len()], &mut all);
            // strays: unknown ids, ids aliasing a tracked one, complete packets, refused firsts on unknown non-aliasing id
            let alias = ((ids[0] as usize + slots) % 256) as u8;
            let free_id = (0..=255u8).find(|c| !ids.iter().any(|i| *i as usize % slots == *c as usize % slots));
            let mut strays: Vec<Vec<u8>> = vec![];
            if alias != ids[0] {
                strays.push(mk_inter(alias, 3, &[1, 2, 3]));
                strays.push(mk_end(alias, 3, &[1, 2, 3], 0x1234));
            }
            strays.extend(vec![
                mk_complete(&Label::ThreeBytesLabel([8, 8, 8]), 0x0999, &[], &[5; 9]),
                mk_complete(&Label::ReUse, 0x0999, &[], &[5; 9]),
                vec![0, 0, 0, 0],
            ]);
            if *slots != 256 {
                // rejected first fragments of an aliasing id that do not claim the slot
                for c in [0usize, 2, 3, 4] {
                    strays.push(refused_first(c, alias, &mut rng, 60).0);
                }
            }
            if let Some(f) = free_id {
                strays.push(mk_inter(f, 3, &[9]));
                strays.push(mk_end(f, 3, &[9], 7));
                strays.push(refused_first(0, f, &mut rng, 60).0);
                strays.push(refused_first(6, f, &mut rng, 60).0);
            }
            let full = all.len() <= 300;
            for (oi, order) in all.iter().enumerate() {
                if !full && oi % (all.len() / 200 + 1) != 0 {
                    continue;
                }
                run_interleaving(*slots, &trains, order, None, &mut rng, oi % 16 == 0);
                n += 1;
                for (si, s) in strays.iter().enumerate() {
                    for at in 0..=order.len() {
                        if !full && (at + si + oi) % 3 != 0 {
                            continue;
                        }
                        run_interleaving(*slots, &trains, order, Some((at, s)), &mut rng, false);
                        n += 1;
                    }
                }
            }
        }
    }
    println!("e4 runs {}", n);
}

// ---------------------------------------------------------------- e5: reassemblies around and beyond 65535 bytes, large storages
#[test]
fn e5_big_reassembly() {
    let mut rng = Rng::new(0xE5);
    for slots in [1usize, 2] {
        let mut rx = Rx::new(slots, 70000);
        rx.provision_new();
        rx.provision_new();
        let mut enc = Encapsulator::new(DefaultCrc {});
        // largest legal PDU
        let pdu = rng.bytes(65533);
        let mut pkts = vec![];
        let mut b = vec![0u8; 5000];
        let mut st = enc.encap(&pdu, 9, EncapMetadata::new(0x0800, Label::Broadcast), &mut b).unwrap();
        loop {
            match st {
                EncapStatus::CompletedPkt(l) => {
                    pkts.push(b[..l as usize].to_vec());
                    break;
                }
                EncapStatus::FragmentedPkt(l, c) => {
                    pkts.push(b[..l as usize].to_vec());
                    st = enc.encap_frag(&pdu, &c, &mut b).unwrap();
                }
            }
        }
        assert!(pkts.len() >= 17);
        // (a) intact
        for (i, p) in pkts.iter().enumerate() {
            let (o, _) = rx.feed(p);
            if i + 1 == pkts.len() {
                assert_eq!(o, Out::Delivered(pdu.clone(), 0x0800, Label::Broadcast, vec![]));
            } else {
                assert_eq!(o, Out::Frag);
            }
        }
        let i = rx.owned.len() - 1;
        rx.give_back_owned(i);
        // (b) one intermediate duplicated: the reassembly passes 65535 bytes, nothing may be delivered
        for dup_at in [1usize, 8, pkts.len() - 2] {
            let mut any = false;
            for (i, p) in pkts.iter().enumerate() {
                any |= delivered(&rx.feed(p).0);
                if i == dup_at {
                    any |= delivered(&rx.feed(p).0);
                }
            }
            assert!(!any);
        }
        // (c) hand-built: payload bytes beyond 65535 with a total length equal to the length modulo 65536
        for extra in [0usize, 1, 2, 10, 4000] {
            let n = 65536 + extra; // bytes on the wire; total length field = (n + 2) mod 65536
            let big = rng.bytes(n);
            let tl = ((n + 2) % 65536) as u16;
            let crc = gse_crc(tl, 0x0800, &[], &big);
            let mut seq = vec![mk_first(3, tl, &Label::Broadcast, 0x0800, &[], &big[..4000])];
            let mut off = 4000;
            while n - off > 4000 {
                seq.push(mk_inter(3, 3, &big[off..off + 4000]));
                off += 4000;
            }
            seq.push(mk_end(3, 3, &big[off..], crc));
            let mut any = false;
            for p in &seq {
                any |= delivered(&rx.feed(p).0);
            }
            assert!(!any, "a reassembly of {} bytes was delivered", n);
        }
        // (d) reassembly of exactly 65535 payload bytes then an empty end
        {
            let big = rng.bytes(65535);
            let mut seq = vec![mk_first(4, 65535, &Label::Broadcast, 0x0800, &[], &big[..4000])];
            let mut off = 4000;
            while off < 65535 {
                let e = (off + 4000).min(65535);
                seq.push(mk_inter(4, 3, &big[off..e]));
                off = e;
            }
            seq.push(mk_end(4, 3, &[], gse_crc(65535, 0x0800, &[], &big)));
            for p in &seq {
                assert!(!delivered(&rx.feed(p).0));
            }
        }
        // fresh traffic, largest PDU again, on the id used by the broken trains
        for fid in [3u8, 4, 9] {
            for p in pkts.iter_mut() {
                p[2] = fid;
            }
            for (i, p) in pkts.iter().enumerate() {
                let (o, _) = rx.feed(p);
                if i + 1 == pkts.len() {
                    assert_eq!(o, Out::Delivered(pdu.clone(), 0x0800, Label::Broadcast, vec![]));
                } else {
                    assert_eq!(o, Out::Frag);
                }
            }
            let i = rx.owned.len() - 1;
            rx.give_back_owned(i);
        }
        rx.conservation("e5");
    }
}

// ---------------------------------------------------------------- e6: exhaustive double faults on small trains
fn run_seq(variant: usize, seq: &[Vec<u8>], rng: &mut Rng, epi: bool) -> usize {
    let mut rx = Rx::new(2, 16);
    rx.provision_new();
    rx.provision_new();
    rx.provision_new();
    match variant {
        0 => {
            // a remembered label, so that packets turned into re-use packets are accepted
            let (o, _) = rx.feed(&mk_complete(&Label::SixBytesLabel([7; 6]), 0x0999, &[], &[1, 2, 3]));
            assert!(delivered(&o));
            let i = rx.owned.len() - 1;
            rx.give_back_owned(i);
        }
        1 => {
            // an older unfinished train on the same id
            let old = mk_train(5, &Label::ThreeBytesLabel([1, 2, 3]), 0x0800, &[9, 8, 7, 6, 5, 4, 3, 2, 1], &[4, 7]);
            rx.feed(&old[0]);
            rx.feed(&old[1]);
        }
        _ => {
            // an unfinished train on the aliasing id 7
            let old = mk_train(7, &Label::ThreeBytesLabel([1, 2, 3]), 0x0800, &[9, 8, 7, 6, 5, 4, 3, 2, 1], &[4, 7]);
            rx.feed(&old[0]);
            rx.feed(&old[1]);
        }
    }
    let mut d = 0;
    for p in seq {
        if delivered(&rx.feed(p).0) {
            d += 1;
        }
    }
    if epi {
        rx.epilogue(rng);
    }
    d
}

#[test]
fn e6_double_fault_exhaustive_small() {
    let mut rng = Rng::new(0xE6);
    let pdu = [0x11u8, 0x22, 0x33, 0x44, 0x55, 0x66, 0x77, 0x88, 0x99];
    let l3 = Label::ThreeBytesLabel([1, 2, 3]);
    let plain = mk_train(5, &l3, 0x0800, &pdu, &[4, 7]);
    // same PDU, first fragment with one optional extension (2 bytes of data)
    let mut ext = plain.clone();
    {
        let total = (pdu.len() + 2 + 3) as u16;
        ext[0] = mk_first(5, total, &l3, 0x0233, &[0xAA, 0xBB, 0x08, 0x00], &pdu[..4]);
    }
    let mut runs = 0u64;
    let mut deliveries = 0u64;
    for (ti, base) in [plain, ext].iter().enumerate() {
        let nbits: Vec<usize> = base.iter().map(|p| p.len() * 8).collect();
        let tot: usize = nbits.iter().sum();
        let flip = |seq: &mut Vec<Vec<u8>>, orig_idx_map: &[usize], mut b: usize| {
            // flip bit b of the original train inside every copy of that packet in seq
            let mut k = 0;
            while b >= nbits[k] {
                b -= nbits[k];
                k += 1;
            }
            for (i, p) in seq.iter_mut().enumerate() {
                if orig_idx_map[i] == k && b / 8 < p.len() {
                    p[b / 8] ^= 0x80 >> (b % 8);
                    break; // only the first copy
                }
            }
        };
        // (1) every pair of bit flips
        for variant in 0..3 {
            for b1 in 0..tot {
                for b2 in b1 + 1..tot {
                    if variant != 0 && (b1 * 7 + b2) % 5 != 0 {
                        continue;
                    }
                    let mut seq = base.clone();
                    flip(&mut seq, &[0, 1, 2], b1);
                    flip(&mut seq, &[0, 1, 2], b2);
                    deliveries += run_seq(variant, &seq, &mut rng, (b1 + b2) % 97 == 0) as u64;
                    runs += 1;
                }
            }
        }
        // (2) structural fault x every bit flip
        let mut structs: Vec<(Vec<Vec<u8>>, Vec<usize>)> = vec![];
        for d in 0..3 {
            let mut s = base.clone();
            s.remove(d);
            let mut m = vec![0, 1, 2];
            m.remove(d);
            structs.push((s, m));
        }
        for d in 0..3 {
            for at in 0..=3 {
                let mut s = base.clone();
                s.insert(at, base[d].clone());
                let mut m = vec![0, 1, 2];
                m.insert(at, d);
                structs.push((s, m));
            }
        }
        for (a, b) in [(0, 1), (0, 2), (1, 2)] {
            let mut s = base.clone();
            s.swap(a, b);
            let mut m = vec![0, 1, 2];
            m.swap(a, b);
            structs.push((s, m));
        }
        for k in 0..3 {
            for l in 0..base[k].len() {
                let mut s = base.clone();
                s[k].truncate(l);
                structs.push((s, vec![0, 1, 2]));
            }
        }
        // duplicate + truncate the copy (double structural)
        for d in 0..3 {
            for l in 0..base[d].len() {
                for at in 0..=3 {
                    let mut s = base.clone();
                    let mut c = base[d].clone();
                    c.truncate(l);
                    s.insert(at, c);
                    structs.push((s, vec![9, 9, 9, 9]));
                }
            }
        }
        for (si, (s, m)) in structs.iter().enumerate() {
            for variant in 0..3 {
                deliveries += run_seq(variant, s, &mut rng, si % 11 == 0) as u64;
                runs += 1;
                if m[0] == 9 {
                    continue;
                }
                for b in 0..tot {
                    let mut q = s.clone();
                    flip(&mut q, m, b);
                    deliveries += run_seq(variant, &q, &mut rng, false) as u64;
                    runs += 1;
                }
            }
        }
        // (3) every burst of <= 32 bits (all starts, all lengths, 3 patterns) x {nothing, drop I, dup I}
        for k in 0..3 {
            for len in 1..=32usize {
                for start in 0..nbits[k].saturating_sub(len - 1) {
                    for pat in [0u32, 0xFFFF_FFFF, 0x5A5A_A5A5 ^ (start as u32).wrapping_mul(2654435761)] {
                        for st in 0..3 {
                            if ti == 1 && (start + len + st) % 2 == 0 {
                                continue;
                            }
                            let mut s = base.clone();
                            burst(&mut s[k], start, pat, len);
                            match st {
                                1 => {
                                    s.remove(1);
                                }
                                2 => {
                                    let c = s[1].clone();
                                    s.insert(1, c);
                                }
                                _ => {}
                            }
                            deliveries += run_seq((start + len) % 3, &s, &mut rng, false) as u64;
                            runs += 1;
                        }
                    }
                }
            }
        }
    }
    println!("e6 runs {} deliveries (all oracle-checked) {}", runs, deliveries);
}

// ---------------------------------------------------------------- e7: literal burst clause of C03 outside the two recorded exceptions
#[test]
fn e7_bursts_confined_to_protected_bytes() {
    let mut rng = Rng::new(0xE7);
    let pdu = [0x11u8, 0x22, 0x33, 0x44, 0x55, 0x66, 0x77, 0x88, 0x99, 0xAA, 0xBB];
    let remembered = Label::SixBytesLabel([7; 6]);
    let labels = [Label::SixBytesLabel([1, 2, 3, 4, 5, 6]), Label::ThreeBytesLabel([1, 2, 3]), Label::Broadcast, Label::ReUse];
    let mut runs = 0u64;
    let mut excluded = 0u64;
    for l in &labels {
        for extk in 0..3 {
            let (_, lb) = label_wire(l);
            let ll = lb.len();
            let (ptype, type_field, after): (u16, u16, Vec<u8>) = match extk {
                0 => (0x0800, 0x0800, vec![]),
                1 => (0x0800, 0x0233, vec![0xAA, 0xBB, 0x08, 0x00]),
                _ => (0x0083, 0x0002, vec![7, 8, 9, 0x00, 0x83, 1, 2, 3, 4, 5]),
            };
            let total = (pdu.len() + 2 + ll) as u16;
            let crc = gse_crc(total, ptype, &lb, &pdu);
            let f = mk_first(5, total, l, type_field, &after, &pdu[..5]);
            let i = mk_inter(5, 3, &pdu[5..8]);
            let e = mk_end(5, 3, &pdu[8..], crc);
            let base = vec![f.clone(), i.clone(), e.clone()];
            // sanity: the intact train is delivered
            {
                let mut rx = Rx::new(3, 16);
                rx.provision_new();
                rx.feed(&mk_complete(&remembered, 0x0999, &[], &[1]));
                let k = rx.owned.len() - 1;
                rx.give_back_owned(k);
                let mut d = 0;
                for p in &base {
                    d += delivered(&rx.feed(p).0) as usize;
                }
                assert_eq!(d, 1, "label {:?} ext {}", l, extk);
            }
            // protected wire ranges (byte offsets) of every packet
            let mut ranges: Vec<(usize, usize, usize, bool)> = vec![]; // (pkt, from, to, touches type+payload region)
            match extk {
                0 => ranges.push((0, 3, f.len(), false)),
                _ => {
                    ranges.push((0, 3, 5, false));
                    if ll > 0 {
                        ranges.push((0, 7, 7 + ll, false));
                    }
                    if extk == 1 {
                        ranges.push((0, 7 + ll + 2, f.len(), true)); // final type + payload
                    } else {
                        ranges.push((0, 7 + ll + after.len(), f.len(), false)); // payload only (final ext id is the type)
                        ranges.push((0, 7 + ll + 3, 7 + ll + 5, false)); // the final type itself (0x0083)
                    }
                }
            }
            ranges.push((1, 3, i.len(), false));
            ranges.push((2, 3, e.len(), false));
            for &(k, from, to, type_payload) in &ranges {
                for len in 1..=32usize {
                    if (to - from) * 8 < len {
                        continue;
                    }
                    for start in from * 8..=(to * 8 - len) {
                        for pat in [0u32, 0xFFFF_FFFF, 0x1234_5678, rng.next() as u32] {
                            let mut s = base.clone();
                            burst_at(&mut s[k], start, pat, len);
                            // recorded exception (a): the type field of a first fragment without extension becomes an extension id
                            if k == 0 && extk == 0 && u16::from_be_bytes([s[0][5], s[0][6]]) < 0x600 {
                                excluded += 1;
                                continue;
                            }
                            // recorded exception (b): type + payload burst with a label in between in the CRC input
                            if type_payload && ll > 0 {
                                let tb = (7 + ll + 2) * 8;
                                if start < tb + 16 && start + len > tb + 16 {
                                    excluded += 1;
                                    continue;
                                }
                            }
                            // (a) again for the final type behind extensions
                            if type_payload && u16::from_be_bytes([s[0][7 + ll + 2], s[0][7 + ll + 3]]) < 0x600 {
                                excluded += 1;
                                continue;
                            }
                            let mut rx = Rx::new(3, 16);
                            rx.check_snap = false;
                            rx.provision_new();
                            rx.feed(&mk_complete(&remembered, 0x0999, &[], &[1]));
                            let q = rx.owned.len() - 1;
                            rx.give_back_owned(q);
                            for p in &s {
                                let (o, _) = rx.feed(p);
                                assert!(!delivered(&o), "C03 burst clause: label {:?} ext {} pkt {} start {} len {} pat {:08x} delivered {:?}", l, extk, k, start, len, pat, o);
                            }
                            runs += 1;
                        }
                    }
                }
            }
        }
    }
    println!("e7 runs {} excluded (recorded exceptions) {}", runs, excluded);
}
pub fn burst_at(p: &mut [u8], start: usize, pattern: u32, len: usize) {
    for k in 0..len {
        if k == 0 || k == len - 1 || (pattern >> k) & 1 == 1 {
            let b = start + k;
            p[b / 8] ^= 0x80 >> (b % 8);
        }
    }
}

// ---------------------------------------------------------------- e8: a memory whose operations fail at every possible point (lawful: it never drops what it is given)
pub struct Faulty {
    pub inner: SimpleGseMemory,
    pub stash: Vec<Box<[u8]>>,
    pub ops: u64,
    pub fail_at: Vec<u64>, // indices of memory operations that fail
    pub fail_mask: u64,    // or pseudo-random failures
    pub seed: u64,
}
impl Faulty {
    fn fails(&mut self) -> bool {
        let k = self.ops;
        self.ops += 1;
        if self.fail_at.contains(&k) {
            return true;
        }
        if self.fail_mask != 0 {
            self.seed = self.seed.wrapping_mul(6364136223846793005).wrapping_add(1442695040888963407);
            return (self.seed >> 33) % self.fail_mask == 0;
        }
        false
    }
}
impl GseDecapMemory for Faulty {
    fn new(a: usize, b: usize, c: usize, d: usize) -> Self {
        Faulty { inner: SimpleGseMemory::new(a, b, c, d), stash: vec![], ops: 0, fail_at: vec![], fail_mask: 0, seed: 1 }
    }
    fn provision_storage(&mut self, s: Box<[u8]>) -> Result<(), DecapMemoryError> {
        if self.fails() {
            return Err(DecapMemoryError::StorageOverflow(s));
        }
        self.inner.provision_storage(s)
    }
    fn new_pdu(&mut self) -> Result<Box<[u8]>, DecapMemoryError> {
        if self.fails() {
            return Err(DecapMemoryError::StorageUnderflow);
        }
        self.inner.new_pdu()
    }
    fn new_frag(&mut self, c: DecapContext) -> Result<(DecapContext, Box<[u8]>), DecapMemoryError> {
        if self.fails() {
            return Err(DecapMemoryError::StorageUnderflow);
        }
        self.inner.new_frag(c)
    }
    fn take_frag(&mut self, id: u8) -> Result<(DecapContext, Box<[u8]>), DecapMemoryError> {
        if self.fails() {
            return Err(DecapMemoryError::UndefinedId);
        }
        self.inner.take_frag(id)
    }
    fn save_frag(&mut self, c: (DecapContext, Box<[u8]>)) -> Result<(), DecapMemoryError> {
        if self.fails() {
            self.stash.push(c.1); // occupied slot: the storage stays in the custody of the memory
            return Err(DecapMemoryError::MemoryCorrupted);
        }
        self.inner.save_frag(c)
    }
}

fn e8_run(slots: usize, seq: &[Vec<u8>], fail_at: Vec<u64>, fail_mask: u64, seed: u64) -> u64 {
    let max_pdu = 24;
    let mut mem = Faulty::new(slots, max_pdu, 0, 0);
    let mut all: Vec<usize> = vec![];
    let mut owned: Vec<Box<[u8]>> = vec![];
    for k in 0..3 {
        all.push(max_pdu + k);
        mem.inner.provision_storage(vec![0u8; max_pdu + k].into_boxed_slice()).unwrap();
    }
    mem.fail_at = fail_at;
    mem.fail_mask = fail_mask;
    mem.seed = seed;
    let mut dec = Decapsulator::new(mem, DefaultCrc {}, Mhem);
    let mut trace: Vec<Vec<u8>> = vec![];
    for p in seq {
        trace.push(p.clone());
        match dec.decap(p) {
            Ok((DecapStatus::CompletedPkt(b, m), _)) => {
                // whatever the memory did, a delivery at an end fragment obeys C03 on the packets that were accepted;
                // here only the cheap part: CRC and length of what is reported
                let q = parse(p);
                if q.kind == Kind::End {
                    let bytes = &b[..m.pdu_len()];
                    let lb = label_wire(&m.label()).1;
                    // the first fragments of these trains all carry an explicit or broadcast label
                    let tl = (bytes.len() + 2 + lb.len()) as u16;
                    assert_eq!(gse_crc(tl, m.protocol_type(), &lb, bytes), q.crc, "C03 under memory faults");
                }
                owned.push(b);
            }
            Ok(_) => {}
            Err((DecapError::ErrorMemory(DecapMemoryError::StorageOverflow(b)), _))
            | Err((DecapError::ErrorMemory(DecapMemoryError::BufferTooSmall(b)), _)) => owned.push(b),
            Err(_) => {}
        }
        // conservation
        let s = snap(&dec.memory.inner);
        let mut v = s.lens();
        v.extend(dec.memory.stash.iter().map(|b| b.len()));
        v.extend(owned.iter().map(|b| b.len()));
        v.sort();
        assert_eq!(v, all, "C08 under memory faults: pkt {:02x?}", p);
        // the caller gives back what it owns when it can
        if let Some(b) = owned.pop() {
            if let Err(DecapMemoryError::StorageOverflow(b)) | Err(DecapMemoryError::BufferTooSmall(b)) = dec.memory.inner.provision_storage(b) {
                owned.push(b);
            }
        }
    }
    dec.memory.ops
}

#[test]
fn e8_memory_operation_failures() {
    let mut rng = Rng::new(0xE8);
    let mut runs = 0u64;
    for slots in [1usize, 2, 3] {
        // a scenario touching every memory call site
        let a = mk_train(4, &Label::ThreeBytesLabel([1, 2, 3]), 0x0800, &rng.bytes(12), &[4, 8]);
        let b = mk_train(5, &Label::Broadcast, 0x0801, &rng.bytes(10), &[3]);
        let seq: Vec<Vec<u8>> = vec![
            mk_complete(&Label::ThreeBytesLabel([5, 5, 5]), 0x0900, &[], &[1, 2, 3]),
            a[0].clone(),
            b[0].clone(),
            refused_first(0, 4, &mut rng, 60).0,
            a[0].clone(),
            a[1].clone(),
            refused_first(6, 6, &mut rng, 60).0,
            mk_inter(5, 3, &rng.bytes(100)),
            a[2].clone(),
            b[0].clone(),
            mk_end(5, 3, &[1], 0),
            b[0].clone(),
            b[1].clone(),
            mk_complete(&Label::Broadcast, 0x0900, &[], &rng.bytes(100)),
            mk_complete(&Label::ReUse, 0x0900, &[], &[1]),
        ];
        let nops = e8_run(slots, &seq, vec![], 0, 0);
        // every single and every pair of failing operations
        for i in 0..nops + 2 {
            e8_run(slots, &seq, vec![i], 0, 0);
            runs += 1;
            for j in i + 1..nops + 2 {
                e8_run(slots, &seq, vec![i, j], 0, 0);
                runs += 1;
            }
        }
        // random traffic, random failures
        for it in 0..3000u64 {
            let mut s = seq.clone();
            for _ in 0..rng.below(4) {
                let f = rand_fault(&mut rng, s.len());
                apply(&f, &mut s);
            }
            e8_run(slots, &s, vec![], 2 + it % 7, it);
            runs += 1;
        }
    }
    println!("e8 runs {}", runs);
}
