//! PDUs at the limit of the 16 bit total length, for every way a label ends up on the wire.
use dvb_gse_rust::crc::DefaultCrc;
use dvb_gse_rust::gse_decap::{DecapStatus, Decapsulator, GseDecapMemory, SimpleGseMemory};
use dvb_gse_rust::gse_encap::{EncapError, EncapMetadata, EncapStatus, Encapsulator};
use dvb_gse_rust::header_extension::SimpleMandatoryExtensionHeaderManager;
use dvb_gse_rust::label::Label;

#[test]
fn hbig_total_length_limit_with_re_use() {
    let a6 = Label::SixBytesLabel([1, 2, 3, 4, 5, 6]);
    let z3 = Label::ThreeBytesLabel([0, 0, 0]);
    let mut delivered = 0;
    let mut refused = 0;
    // (label passed, packet sent before, re-use enabled)
    let cases: Vec<(Label, Option<Label>, bool, usize)> = vec![
        (a6, None, true, 6),
        (a6, Some(a6), true, 0),
        (a6, Some(a6), false, 6),
        (z3, None, true, 3),
        (z3, Some(z3), true, 0),
        (Label::Broadcast, None, true, 0),
        (Label::ReUse, Some(a6), true, 0),
        (Label::ReUse, Some(z3), false, 0),
    ];
    for (label, before, enabled, ll) in cases {
        for pdu_len in 65520usize..=65537 {
            for first_buf in [20usize, 4097, 9000] {
                let mut enc = Encapsulator::new(DefaultCrc {});
                if !enabled {
                    enc.disable_re_use_label();
                }
                let mut memory = SimpleGseMemory::new(1, pdu_len, 0, 0);
                memory.provision_storage(vec![0u8; pdu_len].into_boxed_slice()).unwrap();
                let mut dec = Decapsulator::new(memory, DefaultCrc {}, SimpleMandatoryExtensionHeaderManager {});
                let mut expected = label;
                if let Some(b) = before {
                    let mut buf = [0u8; 32];
                    let n = match enc.encap(&[], 0, EncapMetadata::new(0x0800, b), &mut buf) {
                        Ok(EncapStatus::CompletedPkt(n)) => n as usize,
                        o => panic!("{:?}", o),
                    };
                    match dec.decap(&buf[..n]) {
                        Ok((DecapStatus::CompletedPkt(s, _), _)) => dec.provision_storage(s).unwrap(),
                        o => panic!("{:?}", o),
                    }
                    if label == Label::ReUse {
                        expected = b;
                    }
                }
                let pdu: Vec<u8> = (0..pdu_len).map(|i| (i * 7 + (i >> 9)) as u8).collect();
                let mut buf = vec![0u8; first_buf];
                let res = enc.encap(&pdu, 7, EncapMetadata::new(0x0800, label), &mut buf);
                if pdu_len + 2 + ll > 65535 {
                    assert_eq!(res, Err(EncapError::ErrorPduLength), "{:?} {} {}", label, pdu_len, ll);
                    refused += 1;
                    continue;
                }
                let (n, mut ctx) = match res {
                    Ok(EncapStatus::FragmentedPkt(n, c)) => (n as usize, c),
                    o => panic!("{:?} pdu {}: {:?}", label, pdu_len, o),
                };
                assert_eq!(n, first_buf.min(4097));
                match dec.decap(&buf[..n]) {
                    Ok((DecapStatus::FragmentedPkt(m), k)) => {
                        assert_eq!(k, n);
                        assert_eq!(m.label(), expected);
                    }
                    o => panic!("{:?} pdu {}: first fragment {:?}", label, pdu_len, o),
                }
                let mut done = false;
                for round in 0..40 {
                    let size = if round % 2 == 0 { 5000 } else { 1234 };
                    let mut buf = vec![0u8; size];
                    match enc.encap_frag(&pdu, &ctx, &mut buf) {
                        Ok(EncapStatus::FragmentedPkt(n, c)) => {
                            ctx = c;
                            match dec.decap(&buf[..n as usize]) {
                                Ok((DecapStatus::FragmentedPkt(m), k)) => {
                                    assert_eq!(k, n as usize);
                                    assert_eq!(m.label(), expected);
                                }
                                o => panic!("{:?} pdu {}: intermediate {:?}", label, pdu_len, o),
                            }
                        }
                        Ok(EncapStatus::CompletedPkt(n)) => {
                            match dec.decap(&buf[..n as usize]) {
                                Ok((DecapStatus::CompletedPkt(s, m), k)) => {
                                    assert_eq!(k, n as usize);
                                    assert_eq!(m.label(), expected, "C04");
                                    assert_eq!(m.pdu_len(), pdu_len);
                                    assert_eq!(m.protocol_type(), 0x0800);
                                    assert_eq!(&s[..pdu_len], &pdu[..]);
                                }
                                o => panic!("C04: {:?} pdu {} first buffer {}: end {:?}", label, pdu_len, first_buf, o),
                            }
                            done = true;
                            break;
                        }
                        o => panic!("{:?}", o),
                    }
                }
                assert!(done);
                delivered += 1;
            }
        }
    }
    println!("[big] {} PDUs of 65520..=65537 bytes delivered, {} refused by encap", delivered, refused);
}
