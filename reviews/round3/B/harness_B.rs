//! Model-based product check of the two label re-use state machines
//! (sender: Encapsulator, receiver: Decapsulator) - public API only.
//!
//! Every step drives the real objects and compares them with
//!  * an independent wire encoder (expected bytes of every emitted packet, own CRC),
//!  * a model of the sender state (compared with the Debug output of the Encapsulator),
//!  * a wire-level observer that only knows the statements of C15,
//!  * a model of the receiver policy (exact accept / refuse prediction),
//!  * the statements of C04 / C01 on everything the receiver delivers.
//!
//! HB_DEPTH_FULL / HB_DEPTH_MID / HB_DEPTH_SMALL / HB_RANDOM_RUNS tune the effort.

use dvb_gse_rust::crc::DefaultCrc;
use dvb_gse_rust::gse_decap::{
    DecapError, DecapMemoryError, DecapStatus, Decapsulator, GseDecapMemory, SimpleGseMemory,
};
use dvb_gse_rust::gse_encap::{ContextFrag, EncapError, EncapMetadata, EncapStatus, Encapsulator};
use dvb_gse_rust::header_extension::{
    Extension, MandatoryHeaderExt, MandatoryHeaderExtensionManager,
};
use dvb_gse_rust::label::Label;
use std::collections::VecDeque;
use std::sync::atomic::{AtomicU64, Ordering};
use std::sync::Mutex;

// ---------------------------------------------------------------------------------------------
// alphabet
// ---------------------------------------------------------------------------------------------

const A6: u8 = 0;
const B6: u8 = 1;
const Z3: u8 = 2;
const C3: u8 = 3;
const BC: u8 = 4;
const RU: u8 = 5;
// labels only seen in packets injected on the receiver side
const X6: u8 = 6;
const W6: u8 = 7;
const Y6: u8 = 8;
const V6: u8 = 9;
const X3: u8 = 10;

fn lab(code: u8) -> Label {
    match code {
        A6 => Label::SixBytesLabel([1, 2, 3, 4, 5, 6]),
        B6 => Label::SixBytesLabel([1, 2, 3, 9, 9, 9]),
        Z3 => Label::ThreeBytesLabel([0, 0, 0]),
        C3 => Label::ThreeBytesLabel([1, 2, 3]),
        BC => Label::Broadcast,
        RU => Label::ReUse,
        X6 => Label::SixBytesLabel([7, 7, 7, 7, 7, 7]),
        W6 => Label::SixBytesLabel([8, 8, 8, 8, 8, 8]),
        Y6 => Label::SixBytesLabel([0, 0, 0, 0, 0, 1]),
        V6 => Label::SixBytesLabel([1, 2, 3, 4, 5, 7]),
        X3 => Label::ThreeBytesLabel([1, 2, 4]),
        _ => unreachable!(),
    }
}
fn lab_bytes(code: u8) -> Vec<u8> {
    match lab(code) {
        Label::SixBytesLabel(b) => b.to_vec(),
        Label::ThreeBytesLabel(b) => b.to_vec(),
        _ => vec![],
    }
}
fn lt_bits(code: u8) -> u8 {
    match lab(code) {
        Label::SixBytesLabel(_) => 0,
        Label::ThreeBytesLabel(_) => 1,
        Label::Broadcast => 2,
        Label::ReUse => 3,
    }
}
fn is_full(code: u8) -> bool {
    lt_bits(code) < 2
}

#[derive(Clone, Copy, Debug, PartialEq, Eq, Hash)]
enum Kind {
    C,   // encap, complete
    CT,  // encap, buffer that only holds the packet if the label is empty on the wire
    F,   // encap, first fragment
    CE,  // encap_ext, one optional extension, complete
    FE,  // encap_ext, non-final mandatory + optional extension, first fragment
    CEF, // encap_ext, final mandatory extension, complete
    FEF, // encap_ext, optional + final mandatory extension, first fragment
}

#[derive(Clone, Copy, Debug, PartialEq, Eq, Hash)]
enum Act {
    Send(u8, Kind),
    Cont,     // finish the oldest pending fragmented PDU (one intermediate + the end packet)
    ContStep, // only one intermediate packet of the oldest pending PDU
    Fail(u8, u8), // (failing call kind, label)
    Reset,    // frame boundary: both sides
    Disable,
    Enable,
    EnableMax(u8),
    Inject(u8), // packet(s) only seen by the receiver
}

const N_FAIL: u8 = 14;
const N_INJECT: u8 = 20;

// ---------------------------------------------------------------------------------------------
// independent wire encoder
// ---------------------------------------------------------------------------------------------

fn crc32_mpeg(parts: &[&[u8]]) -> u32 {
    let mut c = 0xFFFF_FFFFu32;
    for p in parts {
        for &b in p.iter() {
            c ^= (b as u32) << 24;
            for _ in 0..8 {
                c = if c & 0x8000_0000 != 0 {
                    (c << 1) ^ 0x04C1_1DB7
                } else {
                    c << 1
                };
            }
        }
    }
    c
}

fn hdr(s: bool, e: bool, lt: u8, len: usize) -> [u8; 2] {
    assert!(len <= 4095);
    let v = ((s as u16) << 15) | ((e as u16) << 14) | ((lt as u16) << 12) | (len as u16);
    v.to_be_bytes()
}

/// extensions as (id, data); returns (type field, bytes between label and pdu)
fn ext_wire(exts: &[(u16, Vec<u8>)], ptype: u16) -> (u16, Vec<u8>) {
    if exts.is_empty() {
        return (ptype, vec![]);
    }
    let mut after = vec![];
    for (i, (_, data)) in exts.iter().enumerate() {
        after.extend_from_slice(data);
        if i + 1 < exts.len() {
            after.extend_from_slice(&exts[i + 1].0.to_be_bytes());
        }
    }
    if ptype >= 0x0600 {
        after.extend_from_slice(&ptype.to_be_bytes());
    }
    (exts[0].0, after)
}

fn wire_complete(written: u8, type_field: u16, after: &[u8], pdu: &[u8]) -> Vec<u8> {
    let lb = lab_bytes(written);
    let mut v = hdr(true, true, lt_bits(written), 2 + lb.len() + after.len() + pdu.len()).to_vec();
    v.extend_from_slice(&type_field.to_be_bytes());
    v.extend_from_slice(&lb);
    v.extend_from_slice(after);
    v.extend_from_slice(pdu);
    v
}

fn wire_first(
    written: u8,
    fid: u8,
    total_len: u16,
    type_field: u16,
    after: &[u8],
    part: &[u8],
) -> Vec<u8> {
    let lb = lab_bytes(written);
    let mut v = hdr(
        true,
        false,
        lt_bits(written),
        3 + 2 + lb.len() + after.len() + part.len(),
    )
    .to_vec();
    v.push(fid);
    v.extend_from_slice(&total_len.to_be_bytes());
    v.extend_from_slice(&type_field.to_be_bytes());
    v.extend_from_slice(&lb);
    v.extend_from_slice(after);
    v.extend_from_slice(part);
    v
}

fn wire_inter(fid: u8, part: &[u8]) -> Vec<u8> {
    let mut v = hdr(false, false, 3, 1 + part.len()).to_vec();
    v.push(fid);
    v.extend_from_slice(part);
    v
}
fn wire_end(fid: u8, part: &[u8], crc: u32) -> Vec<u8> {
    let mut v = hdr(false, true, 3, 1 + part.len() + 4).to_vec();
    v.push(fid);
    v.extend_from_slice(part);
    v.extend_from_slice(&crc.to_be_bytes());
    v
}

// ---------------------------------------------------------------------------------------------
// receiver side manager
// ---------------------------------------------------------------------------------------------

#[derive(Clone, Copy)]
struct Mgr;
impl MandatoryHeaderExtensionManager for Mgr {
    fn is_mandatory_header_id_known(&self, id: u16) -> MandatoryHeaderExt {
        match id {
            0x0010 => MandatoryHeaderExt::NonFinal(2),
            0x0020 => MandatoryHeaderExt::Final(3),
            _ => MandatoryHeaderExt::Unknown,
        }
    }
}

// ---------------------------------------------------------------------------------------------
// models
// ---------------------------------------------------------------------------------------------

/// what the documentation of Encapsulator describes
#[derive(Clone, Copy, Debug, PartialEq, Eq, Hash)]
struct SModel {
    act: bool,
    max: u8,
    cur: u8,
    last: Option<u8>,
}

impl SModel {
    fn written(&self, l: u8) -> u8 {
        if self.act && self.last == Some(l) && (self.max == 0 || self.cur < self.max) {
            RU
        } else {
            l
        }
    }
    fn emitted(&mut self, l: u8) {
        if !self.act {
            return;
        }
        if self.last == Some(l) {
            if self.max == 0 {
                return;
            }
            if self.cur < self.max {
                self.cur += 1;
                return;
            }
            self.cur = 0;
        }
        if l == BC {
            self.last = None;
        } else if l != RU {
            self.last = Some(l);
        }
    }
    fn debug_string(&self) -> String {
        let last = match self.last {
            None => "None".to_string(),
            Some(c) => format!("Some({:?})", lab(c)),
        };
        format!(
            "Encapsulator {{ crc_calculator: DefaultCrc, re_use_activated: {}, re_max_consecutive: {}, re_current_consecutive: {}, last_label: {} }}",
            self.act, self.max, self.cur, last
        )
    }
}

/// only knows the statements of C15, looks at the emitted packets
#[derive(Clone, Copy, Debug, PartialEq, Eq, Hash)]
struct Obs {
    disabled: bool,
    n: u8,
    /// label in force after the immediately preceding start/complete packet (None: none yet /
    /// reset / broadcast)
    eff: Option<u8>,
    /// consecutive substituted re-use packets
    run: u32,
}

#[derive(Clone, Debug)]
struct Pend {
    fid: u8,
    pdu: Vec<u8>,
    ptype: u16,
    ctx: ContextFrag,
    sent: usize,
    crc: u32,
    exts: Vec<Extension>,
    /// None: the receiver refused the first fragment
    rx_label: Option<u8>,
    /// label the sender intends (None: explicit re-use with nothing to refer to)
    intended: Option<u8>,
    passed: u8,
    /// sent while the receiver only saw packets of the sender since the last frame boundary
    clean: bool,
}

#[derive(Default, Clone, Copy, Debug)]
struct Stats {
    steps: u64,
    sent_ok: u64,
    sent_fail: u64,
    substituted: u64,
    delivered: u64,
    refused: u64,
}

struct World<'a> {
    enc: Encapsulator<DefaultCrc>,
    dec: Decapsulator<SimpleGseMemory, DefaultCrc, Mgr>,
    sm: SModel,
    obs: Obs,
    /// receiver policy model
    r_last: Option<u8>,
    /// label of the nearest preceding start/complete packet of the frame, resolved transitively,
    /// from the wire only (refused packets with a readable label count)
    t_wire: Option<u8>,
    /// the receiver saw something that did not come from the sender since the last boundary
    foreign: bool,
    pending: VecDeque<Pend>,
    next_fid: u8,
    step: u32,
    big: &'a [u8],
    check_debug: bool,
    stats: Stats,
    n_storage: usize,
}

const STORAGE: usize = 64;
const N_STORAGE: usize = 12;

fn new_dec() -> Decapsulator<SimpleGseMemory, DefaultCrc, Mgr> {
    let mut memory = SimpleGseMemory::new(16, STORAGE, 0, 0);
    for _ in 0..N_STORAGE {
        memory
            .provision_storage(vec![0u8; STORAGE].into_boxed_slice())
            .unwrap();
    }
    Decapsulator::new(memory, DefaultCrc {}, Mgr)
}

macro_rules! ensure {
    ($cond:expr, $($arg:tt)*) => {
        if !($cond) {
            return Err(format!($($arg)*));
        }
    };
}

type R = Result<(), String>;

impl<'a> World<'a> {
    fn new(big: &'a [u8], check_debug: bool) -> Self {
        World {
            enc: Encapsulator::new(DefaultCrc {}),
            dec: new_dec(),
            sm: SModel {
                act: true,
                max: 0,
                cur: 0,
                last: None,
            },
            obs: Obs {
                disabled: false,
                n: 0,
                eff: None,
                run: 0,
            },
            r_last: None,
            t_wire: None,
            foreign: false,
            pending: VecDeque::new(),
            next_fid: 0,
            step: 0,
            big,
            check_debug,
            stats: Stats::default(),
            n_storage: N_STORAGE,
        }
    }

    fn pdu_for(&self, len: usize) -> Vec<u8> {
        (0..len)
            .map(|i| (self.step as usize * 31 + i * 7 + 1) as u8)
            .collect()
    }

    fn give_back(&mut self, b: Box<[u8]>) -> R {
        ensure!(b.len() == STORAGE, "storage of another size came back");
        self.dec
            .provision_storage(b)
            .map_err(|e| format!("provision_storage refused: {:?}", e))
    }

    // -----------------------------------------------------------------------------------------
    // sender: one start/complete packet
    // -----------------------------------------------------------------------------------------
    fn send(&mut self, l: u8, kind: Kind) -> R {
        let ptype: u16 = match kind {
            Kind::CEF | Kind::FEF => 0x0020,
            _ => 0x0800 + (self.step as u16 % 7) * 0x111,
        };
        let (pdu_len, buf_len, ext_spec): (usize, usize, Vec<(u16, Vec<u8>)>) = match kind {
            Kind::C => (5, 64, vec![]),
            Kind::CT => (2, 6, vec![]),
            Kind::F => (20, 16, vec![]),
            Kind::CE => (5, 64, vec![(0x0201, vec![0xE1, 0xE2])]),
            Kind::FE => (
                20,
                24,
                vec![(0x0010, vec![0xAA, 0xBB]), (0x0100, vec![])],
            ),
            Kind::CEF => (5, 64, vec![(0x0020, vec![0xF1, 0xF2, 0xF3])]),
            Kind::FEF => (
                20,
                26,
                vec![
                    (0x0304, vec![1, 2, 3, 4]),
                    (0x0020, vec![0xF1, 0xF2, 0xF3]),
                ],
            ),
        };
        let pdu = self.pdu_for(pdu_len);
        let exts: Vec<Extension> = ext_spec
            .iter()
            .map(|(id, d)| Extension::new(*id, d).unwrap())
            .collect();
        let fid = self.next_fid;

        // model decision
        let written = self.sm.written(l);
        let ll = lab_bytes(written).len();
        let (type_field, after) = ext_wire(&ext_spec, ptype);
        let al = after.len();
        enum Exp {
            Complete,
            Frag(usize),
            Err(EncapError),
        }
        let exp = if buf_len >= 4 + ll + al + pdu_len && 2 + ll + al + pdu_len <= 4095 {
            Exp::Complete
        } else {
            let h = 7 + ll + al;
            if buf_len < h || h > 4097 {
                Exp::Err(EncapError::ErrorSizeBuffer)
            } else if pdu_len + 2 + ll > 65535 {
                Exp::Err(EncapError::ErrorPduLength)
            } else {
                Exp::Frag(buf_len.min(4097) - h)
            }
        };

        let mut buf = vec![0x5Au8; buf_len];
        let before = self.enc.clone();
        let md = EncapMetadata::new(ptype, lab(l));
        let res = if exts.is_empty() {
            self.enc.encap(&pdu, fid, md, &mut buf)
        } else {
            self.enc.encap_ext(&pdu, fid, md, &mut buf, exts.clone())
        };

        match exp {
            Exp::Err(e) => {
                ensure!(res == Err(e), "send {:?}/{:?}: expected a failure, got {:?}", l, kind, res);
                ensure!(self.enc == before, "a failing call changed the encapsulator");
                ensure!(buf.iter().all(|&b| b == 0x5A), "a failing call wrote into the buffer");
                self.stats.sent_fail += 1;
                return Ok(());
            }
            Exp::Complete => {
                let w = wire_complete(written, type_field, &after, &pdu);
                ensure!(
                    res == Ok(EncapStatus::CompletedPkt(w.len() as u16)),
                    "send {:?}/{:?}: expected CompletedPkt({}), got {:?}",
                    l, kind, w.len(), res
                );
                ensure!(buf[..w.len()] == w[..], "complete packet bytes differ: {:02x?} vs {:02x?}", &buf[..w.len()], w);
                ensure!(buf[w.len()..].iter().all(|&b| b == 0x5A), "wrote past the packet");
                self.emitted(l, written)?;
                self.feed_start(&w, false, l, written, &pdu, ptype, &exts, None)?;
            }
            Exp::Frag(n) => {
                let total = (pdu_len + 2 + ll) as u16;
                let w = wire_first(written, fid, total, type_field, &after, &pdu[..n]);
                let lb = lab_bytes(written);
                let crc = crc32_mpeg(&[&total.to_be_bytes(), &ptype.to_be_bytes(), &lb, &pdu]);
                let ctx = ContextFrag::new(fid, crc, n as u16);
                ensure!(
                    res == Ok(EncapStatus::FragmentedPkt(w.len() as u16, ctx)),
                    "send {:?}/{:?}: expected FragmentedPkt({}, {:?}), got {:?}",
                    l, kind, w.len(), ctx, res
                );
                ensure!(buf[..w.len()] == w[..], "first fragment bytes differ: {:02x?} vs {:02x?}", &buf[..w.len()], w);
                ensure!(buf[w.len()..].iter().all(|&b| b == 0x5A), "wrote past the packet");
                self.emitted(l, written)?;
                self.next_fid = (self.next_fid + 1) % 8;
                let p = Pend {
                    fid,
                    pdu: pdu.clone(),
                    ptype,
                    ctx,
                    sent: n,
                    crc,
                    exts: exts.clone(),
                    rx_label: None,
                    intended: None,
                    passed: l,
                    clean: !self.foreign,
                };
                self.feed_start(&w, true, l, written, &pdu, ptype, &exts, Some(p))?;
            }
        }
        self.stats.sent_ok += 1;
        Ok(())
    }

    /// sender bookkeeping after a packet was emitted + the C15 statements on the wire
    fn emitted(&mut self, l: u8, written: u8) -> R {
        self.sm.emitted(l);
        if written == RU && l != RU {
            self.stats.substituted += 1;
            ensure!(!self.obs.disabled, "C15: substitution while re-use is disabled");
            ensure!(is_full(l), "C15: substitution for a label that is not 3/6 bytes");
            ensure!(
                self.obs.eff == Some(l),
                "C15: substitution for {:?} but the preceding start/complete packet stands for {:?}",
                l, self.obs.eff
            );
            self.obs.run += 1;
            ensure!(
                self.obs.n == 0 || self.obs.run <= self.obs.n as u32,
                "C15: {} consecutive substituted re-use packets, maximum {}",
                self.obs.run, self.obs.n
            );
        } else if l == RU {
            // explicit: nothing changes
        } else if l == BC {
            self.obs.eff = None;
            self.obs.run = 0;
        } else {
            self.obs.eff = Some(l);
            self.obs.run = 0;
        }
        Ok(())
    }

    fn check_meta(
        m: &dvb_gse_rust::gse_decap::DecapMetadata,
        pdu_len: usize,
        ptype: u16,
        label: u8,
        exts: &[Extension],
    ) -> R {
        ensure!(m.pdu_len() == pdu_len, "metadata pdu_len {} != {}", m.pdu_len(), pdu_len);
        ensure!(m.protocol_type() == ptype, "metadata protocol type {:#x} != {:#x}", m.protocol_type(), ptype);
        ensure!(m.label() == lab(label), "metadata label {:?} != {:?}", m.label(), lab(label));
        ensure!(m.extensions()[..] == exts[..], "metadata extensions differ");
        Ok(())
    }

    /// give a start/complete packet of the sender to the receiver
    #[allow(clippy::too_many_arguments)]
    fn feed_start(
        &mut self,
        w: &[u8],
        first: bool,
        passed: u8,
        written: u8,
        pdu: &[u8],
        ptype: u16,
        exts: &[Extension],
        pend: Option<Pend>,
    ) -> R {
        // C04: the label the sender intends
        let intended: Option<u8> = if passed == RU { self.t_wire } else { Some(passed) };
        // receiver policy
        let rx: Option<u8> = match written {
            RU => self.r_last,
            other => Some(other),
        };
        if written == BC {
            self.t_wire = None;
        } else if written != RU {
            self.t_wire = Some(written);
        }
        let res = self.dec.decap(w);
        match rx {
            None => {
                ensure!(
                    res == Err((DecapError::ErrorNoLabelSaved, w.len())),
                    "receiver: expected ErrorNoLabelSaved, got {:?}",
                    res
                );
                self.r_last = None;
                self.stats.refused += 1;
                ensure!(
                    self.foreign || passed == RU,
                    "C04: a PDU sent with label {:?} was refused although the receiver only saw the sender's packets",
                    passed
                );
                if let Some(mut p) = pend {
                    p.rx_label = None;
                    p.intended = intended;
                    self.pending.push_back(p);
                }
            }
            Some(x) => {
                // C04 (receiver alone): re-use resolves to the nearest preceding start/complete
                if written == RU {
                    ensure!(
                        self.t_wire == Some(x),
                        "C04: re-use resolved to {:?}, nearest preceding start/complete says {:?}",
                        x, self.t_wire
                    );
                }
                // C04 (end to end)
                ensure!(
                    self.foreign || intended == Some(x),
                    "C04: PDU sent for {:?} (passed {:?}) will be attributed to {:?}",
                    intended, passed, x
                );
                match res {
                    Ok((DecapStatus::CompletedPkt(b, m), n)) if !first => {
                        ensure!(n == w.len(), "decap consumed {} of {}", n, w.len());
                        Self::check_meta(&m, pdu.len(), ptype, x, exts)?;
                        ensure!(b[..pdu.len()] == pdu[..], "delivered bytes differ");
                        self.give_back(b)?;
                        self.stats.delivered += 1;
                    }
                    Ok((DecapStatus::FragmentedPkt(m), n)) if first => {
                        ensure!(n == w.len(), "decap consumed {} of {}", n, w.len());
                        Self::check_meta(&m, 0, ptype, x, exts)?;
                        let mut p = pend.unwrap();
                        p.rx_label = Some(x);
                        p.intended = intended;
                        self.pending.push_back(p);
                    }
                    other => return Err(format!("receiver: expected acceptance, got {:?}", other)),
                }
                if written == BC {
                    self.r_last = None;
                } else if written != RU {
                    self.r_last = Some(written);
                }
            }
        }
        Ok(())
    }

    // -----------------------------------------------------------------------------------------
    // sender: continuation packets
    // -----------------------------------------------------------------------------------------
    fn cont(&mut self, finish: bool) -> R {
        let Some(mut p) = self.pending.pop_front() else {
            return Ok(());
        };
        let remaining = p.pdu.len() - p.sent;
        if remaining > 5 {
            // one intermediate packet with 3 bytes
            let mut buf = vec![0x5Au8; 6];
            let res = self.enc.encap_frag(&p.pdu, &p.ctx, &mut buf);
            let w = wire_inter(p.fid, &p.pdu[p.sent..p.sent + 3]);
            let ctx = ContextFrag::new(p.fid, p.crc, (p.sent + 3) as u16);
            ensure!(
                res == Ok(EncapStatus::FragmentedPkt(6, ctx)),
                "encap_frag: expected FragmentedPkt(6, {:?}), got {:?}",
                ctx, res
            );
            ensure!(buf == w, "intermediate bytes differ {:02x?} {:02x?}", buf, w);
            p.ctx = ctx;
            p.sent += 3;
            let r = self.dec.decap(&w);
            match p.rx_label {
                None => ensure!(
                    r == Err((DecapError::ErrorMemory(DecapMemoryError::UndefinedId), w.len())),
                    "receiver: intermediate of a refused PDU: {:?}",
                    r
                ),
                Some(x) => match r {
                    Ok((DecapStatus::FragmentedPkt(m), n)) => {
                        ensure!(n == w.len(), "consumed");
                        Self::check_meta(&m, 0, p.ptype, x, &p.exts)?;
                    }
                    other => return Err(format!("receiver: intermediate: {:?}", other)),
                },
            }
        }
        if !finish {
            self.pending.push_front(p);
            return Ok(());
        }
        let mut buf = vec![0x5Au8; 64];
        let res = self.enc.encap_frag(&p.pdu, &p.ctx, &mut buf);
        let w = wire_end(p.fid, &p.pdu[p.sent..], p.crc);
        ensure!(
            res == Ok(EncapStatus::CompletedPkt(w.len() as u16)),
            "encap_frag: expected CompletedPkt({}), got {:?}",
            w.len(), res
        );
        ensure!(buf[..w.len()] == w[..], "end bytes differ");
        let r = self.dec.decap(&w);
        match p.rx_label {
            None => ensure!(
                r == Err((DecapError::ErrorMemory(DecapMemoryError::UndefinedId), w.len())),
                "receiver: end of a refused PDU: {:?}",
                r
            ),
            Some(x) => match r {
                Ok((DecapStatus::CompletedPkt(b, m), n)) => {
                    ensure!(n == w.len(), "consumed");
                    Self::check_meta(&m, p.pdu.len(), p.ptype, x, &p.exts)?;
                    ensure!(b[..p.pdu.len()] == p.pdu[..], "reassembled bytes differ");
                    ensure!(!p.clean || p.intended == Some(x), "C04: fragmented PDU for {:?} delivered to {:?}", p.intended, x);
                    self.give_back(b)?;
                    self.stats.delivered += 1;
                }
                other => return Err(format!("receiver: end: {:?}", other)),
            },
        }
        if p.clean && p.passed != RU {
            ensure!(p.rx_label.is_some(), "C04: fragmented PDU with label {:?} not delivered", p.passed);
        }
        Ok(())
    }

    // -----------------------------------------------------------------------------------------
    // sender: failing calls
    // -----------------------------------------------------------------------------------------
    fn fail(&mut self, k: u8, l: u8) -> R {
        let before = self.enc.clone();
        let pdu = self.pdu_for(5);
        let zero = Label::SixBytesLabel([0; 6]);
        let e = |id: u16, d: &[u8]| Extension::new(id, d).unwrap();
        let (res, exp): (Result<EncapStatus, EncapError>, EncapError) = match k {
            0 => {
                let mut b = [0x5Au8; 3];
                (
                    self.enc.encap(&pdu, 1, EncapMetadata::new(0x0800, lab(l)), &mut b),
                    EncapError::ErrorSizeBuffer,
                )
            }
            1 => {
                let mut b = [0x5Au8; 64];
                (
                    self.enc.encap(self.big, 1, EncapMetadata::new(0x0800, lab(l)), &mut b),
                    EncapError::ErrorPduLength,
                )
            }
            2 => {
                let mut b = [0x5Au8; 64];
                (
                    self.enc.encap(&pdu, 1, EncapMetadata::new(0x0100, lab(l)), &mut b),
                    EncapError::ErrorProtocolType,
                )
            }
            3 => {
                let mut b = [0x5Au8; 64];
                (
                    self.enc.encap(&pdu, 1, EncapMetadata::new(0x05FF, lab(l)), &mut b),
                    EncapError::ErrorProtocolType,
                )
            }
            4 => {
                let mut b = [0x5Au8; 64];
                (
                    self.enc.encap(&pdu, 1, EncapMetadata::new(0x0800, zero), &mut b),
                    EncapError::ErrorInvalidLabel,
                )
            }
            5 => {
                let mut b = [0x5Au8; 64];
                (
                    self.enc.encap_ext(&pdu, 1, EncapMetadata::new(0x0800, lab(l)), &mut b, vec![]),
                    EncapError::ErrorNoExtensionFound,
                )
            }
            6 => {
                let mut b = [0x5Au8; 64];
                (
                    self.enc.encap_ext(
                        &pdu,
                        1,
                        EncapMetadata::new(0x0020, lab(l)),
                        &mut b,
                        vec![e(0x0021, &[1, 2, 3])],
                    ),
                    EncapError::ErrorFinalMandatoryExtensionHeader,
                )
            }
            7 => {
                let mut b = [0x5Au8; 64];
                (
                    self.enc.encap_ext(
                        &pdu,
                        1,
                        EncapMetadata::new(0x0020, lab(l)),
                        &mut b,
                        vec![e(0x0020, &[1, 2, 3]), e(0x0100, &[])],
                    ),
                    EncapError::ErrorFinalMandatoryExtensionHeader,
                )
            }
            8 => {
                let mut b = [0x5Au8; 64];
                (
                    self.enc.encap_ext(
                        &pdu,
                        1,
                        EncapMetadata::new(0x0300, lab(l)),
                        &mut b,
                        vec![e(0x0100, &[])],
                    ),
                    EncapError::ErrorProtocolType,
                )
            }
            9 => {
                let mut b = [0x5Au8; 64];
                (
                    self.enc.encap_ext(
                        &pdu,
                        1,
                        EncapMetadata::new(0x0800, zero),
                        &mut b,
                        vec![e(0x0100, &[])],
                    ),
                    EncapError::ErrorInvalidLabel,
                )
            }
            10 => {
                // 5 byte pdu, 4 bytes of extension: the smallest packet (re-use) is 13 bytes, the
                // smallest first fragment 11 bytes
                let mut b = [0x5Au8; 10];
                (
                    self.enc.encap_ext(
                        &pdu,
                        1,
                        EncapMetadata::new(0x0800, lab(l)),
                        &mut b,
                        vec![e(0x0201, &[1, 2])],
                    ),
                    EncapError::ErrorSizeBuffer,
                )
            }
            11 => {
                let mut b = [0x5Au8; 64];
                (
                    self.enc.encap_ext(
                        self.big,
                        1,
                        EncapMetadata::new(0x0800, lab(l)),
                        &mut b,
                        vec![e(0x0201, &[1, 2])],
                    ),
                    EncapError::ErrorPduLength,
                )
            }
            12 => {
                let mut b = vec![0x5Au8; 8000];
                let data = vec![0x77u8; 4100];
                (
                    self.enc.encap_ext(
                        &pdu,
                        1,
                        EncapMetadata::new(0x0800, lab(l)),
                        &mut b,
                        vec![e(0x0010, &data)],
                    ),
                    EncapError::ErrorSizeBuffer,
                )
            }
            13 => {
                let mut b = [0x5Au8; 64];
                let r1 = self.enc.encap_frag(&pdu, &ContextFrag::new(1, 0, 6), &mut b);
                ensure!(r1 == Err(EncapError::ErrorPduLength), "encap_frag with a context beyond the pdu: {:?}", r1);
                let mut b = [0x5Au8; 3];
                (
                    self.enc.encap_frag(&pdu, &ContextFrag::new(1, 0, 2), &mut b),
                    EncapError::ErrorSizeBuffer,
                )
            }
            _ => unreachable!(),
        };
        ensure!(res.as_ref().err() == Some(&exp), "failing call {}: expected {:?}, got {:?}", k, exp, res);
        ensure!(self.enc == before, "failing call {} changed the encapsulator", k);
        self.stats.sent_fail += 1;
        Ok(())
    }

    // -----------------------------------------------------------------------------------------
    // receiver only
    // -----------------------------------------------------------------------------------------
    fn expect_err(&mut self, pkt: &[u8], e: DecapError, consumed: usize) -> R {
        let r = self.dec.decap(pkt);
        ensure!(r == Err((e.clone(), consumed)), "inject: expected {:?}/{}, got {:?}", e, consumed, r);
        Ok(())
    }

    /// foreign start/complete packet that the receiver accepts or refuses by its label only
    fn foreign_start(&mut self, w: &[u8], first: bool, written: u8, pdu: &[u8], ptype: u16) -> Result<Option<u8>, String> {
        let rx: Option<u8> = match written {
            RU => self.r_last,
            o => Some(o),
        };
        if written == BC {
            self.t_wire = None;
        } else if written != RU {
            self.t_wire = Some(written);
        }
        let res = self.dec.decap(w);
        match rx {
            None => {
                ensure!(res == Err((DecapError::ErrorNoLabelSaved, w.len())), "inject: expected ErrorNoLabelSaved: {:?}", res);
                self.r_last = None;
                Ok(None)
            }
            Some(x) => {
                if written == RU {
                    ensure!(self.t_wire == Some(x), "C04: re-use resolved to {:?}, nearest preceding start/complete says {:?}", x, self.t_wire);
                }
                match res {
                    Ok((DecapStatus::CompletedPkt(b, m), n)) if !first => {
                        ensure!(n == w.len(), "consumed");
                        Self::check_meta(&m, pdu.len(), ptype, x, &[])?;
                        ensure!(b[..pdu.len()] == pdu[..], "bytes");
                        self.give_back(b)?;
                    }
                    Ok((DecapStatus::FragmentedPkt(m), n)) if first => {
                        ensure!(n == w.len(), "consumed");
                        Self::check_meta(&m, 0, ptype, x, &[])?;
                    }
                    other => return Err(format!("inject: expected acceptance: {:?}", other)),
                }
                if written == BC {
                    self.r_last = None;
                } else if written != RU {
                    self.r_last = Some(written);
                }
                Ok(Some(x))
            }
        }
    }

    fn inject(&mut self, k: u8) -> R {
        self.foreign = true;
        let pdu = self.pdu_for(4);
        match k {
            0 => {
                let r = self.dec.decap(&[0, 0, 0, 0]);
                ensure!(r == Ok((DecapStatus::Padding, 4)), "padding: {:?}", r);
                self.r_last = None;
                self.t_wire = None;
            }
            1 => {
                self.expect_err(&[0xC0], DecapError::ErrorSizeBuffer, 1)?;
                self.r_last = None;
                self.t_wire = None;
            }
            2 => {
                // complete, 6 byte zero label
                let mut w = hdr(true, true, 0, 2 + 6 + 4).to_vec();
                w.extend_from_slice(&[0x08, 0x00, 0, 0, 0, 0, 0, 0]);
                w.extend_from_slice(&pdu);
                self.expect_err(&w, DecapError::ErrorInvalidLabel, w.len())?;
                self.r_last = None;
                self.t_wire = None;
            }
            3 => {
                let w = wire_complete(X6, 0x0900, &[], &pdu);
                self.foreign_start(&w, false, X6, &pdu, 0x0900)?;
            }
            4 => {
                let w = wire_complete(RU, 0x0900, &[], &pdu);
                self.foreign_start(&w, false, RU, &pdu, 0x0900)?;
            }
            5 => {
                let w = wire_complete(BC, 0x0900, &[], &pdu);
                self.foreign_start(&w, false, BC, &pdu, 0x0900)?;
            }
            6 => {
                let w = wire_complete(X3, 0x0900, &[], &pdu);
                self.foreign_start(&w, false, X3, &pdu, 0x0900)?;
            }
            7 => {
                // complete, label Y6, unknown mandatory extension 0x0001
                let w = wire_complete(Y6, 0x0001, &[], &pdu);
                self.expect_err(&w, DecapError::ErrorUnkownMandatoryHeader, w.len())?;
                self.r_last = None;
                self.t_wire = Some(Y6); // readable label: a receiver may use it
            }
            8 => {
                // first fragment, label Y6, total length not above the carried bytes
                let w = wire_first(Y6, 12, 4, 0x0900, &[], &pdu);
                self.expect_err(&w, DecapError::ErrorTotalLength, w.len())?;
                self.r_last = None;
                self.t_wire = Some(Y6);
            }
            9 => {
                // complete, 6 byte label type, gse length 3
                let w = [0xC0, 0x03, 0x09, 0x00, 0x01];
                self.expect_err(&w, DecapError::ErrorGseLength, w.len())?;
                self.r_last = None;
                self.t_wire = None;
            }
            10 => {
                // buffer shorter than the gse length
                let w = wire_complete(V6, 0x0900, &[], &pdu);
                self.expect_err(&w[..w.len() - 1], DecapError::ErrorSizeBuffer, w.len() - 1)?;
                self.r_last = None;
                self.t_wire = None;
            }
            11 => {
                let w = wire_inter(15, &pdu);
                self.expect_err(&w, DecapError::ErrorMemory(DecapMemoryError::UndefinedId), w.len())?;
            }
            12 => {
                let w = wire_end(15, &pdu, 0x1234_5678);
                self.expect_err(&w, DecapError::ErrorMemory(DecapMemoryError::UndefinedId), w.len())?;
            }
            13 => {
                // foreign first fragment (label W6, accepted) + end with a wrong crc
                let total = (8 + 2 + 6) as u16;
                let w = wire_first(W6, 9, total, 0x0900, &[], &pdu);
                self.foreign_start(&w, true, W6, &pdu, 0x0900)?;
                let w = wire_end(9, &pdu, 0xDEAD_BEEF);
                self.expect_err(&w, DecapError::ErrorCrc, w.len())?;
            }
            14 => {
                // foreign fragmented PDU with a re-use label, correct crc
                let whole: Vec<u8> = pdu.iter().chain(pdu.iter()).copied().collect();
                let total = (8 + 2) as u16;
                let w = wire_first(RU, 10, total, 0x0900, &[], &pdu);
                let got = self.foreign_start(&w, true, RU, &pdu, 0x0900)?;
                let crc = crc32_mpeg(&[&total.to_be_bytes(), &0x0900u16.to_be_bytes(), &whole]);
                let w = wire_end(10, &pdu, crc);
                match got {
                    None => self.expect_err(&w, DecapError::ErrorMemory(DecapMemoryError::UndefinedId), w.len())?,
                    Some(x) => match self.dec.decap(&w) {
                        Ok((DecapStatus::CompletedPkt(b, m), n)) => {
                            ensure!(n == w.len(), "consumed");
                            Self::check_meta(&m, 8, 0x0900, x, &[])?;
                            ensure!(b[..8] == whole[..], "bytes");
                            self.give_back(b)?;
                        }
                        other => return Err(format!("inject 14: {:?}", other)),
                    },
                }
            }
            15 => {
                let w = [0x30, 0x01, 0x03];
                self.expect_err(&w, DecapError::ErrorGseLength, w.len())?;
                self.r_last = None;
            }
            16 => {
                let w = [0x70, 0x04, 0x03, 1, 2, 3];
                self.expect_err(&w, DecapError::ErrorSizeBuffer, w.len())?;
                self.r_last = None;
            }
            17 => {
                // complete, label V6, optional extension 0x0501 (8 bytes) cut short
                let w = wire_complete(V6, 0x0501, &[], &pdu);
                self.expect_err(&w, DecapError::ErrorSizePduBuffer, w.len())?;
                self.r_last = None;
                self.t_wire = Some(V6);
            }
            18 => {
                // no storage left: a valid complete packet for V6 is refused
                let mut taken = vec![];
                while let Ok(b) = self.dec.new_pdu() {
                    taken.push(b);
                }
                let w = wire_complete(V6, 0x0900, &[], &pdu);
                self.expect_err(&w, DecapError::ErrorMemory(DecapMemoryError::StorageUnderflow), w.len())?;
                for b in taken {
                    self.give_back(b)?;
                }
                self.r_last = None;
                self.t_wire = Some(V6);
            }
            19 => {
                // PDU longer than the storage: refused
                let long = vec![0x42u8; STORAGE + 1];
                let w = wire_complete(V6, 0x0900, &[], &long);
                self.expect_err(&w, DecapError::ErrorSizePduBuffer, w.len())?;
                self.r_last = None;
                self.t_wire = Some(V6);
            }
            _ => unreachable!(),
        }
        Ok(())
    }

    // -----------------------------------------------------------------------------------------
    fn apply(&mut self, a: Act) -> R {
        self.step += 1;
        self.stats.steps += 1;
        match a {
            Act::Send(l, k) => self.send(l, k)?,
            Act::Cont => self.cont(true)?,
            Act::ContStep => self.cont(false)?,
            Act::Fail(k, l) => self.fail(k, l)?,
            Act::Reset => {
                self.enc.reset_last_label();
                self.dec.reset_last_label();
                self.sm.last = None;
                self.obs.eff = None;
                self.r_last = None;
                self.t_wire = None;
                self.foreign = false;
            }
            Act::Disable => {
                self.enc.disable_re_use_label();
                self.sm.act = false;
                self.sm.max = 0;
                self.sm.cur = 0;
                self.obs.disabled = true;
                self.obs.n = 0;
                self.obs.run = 0;
            }
            Act::Enable => {
                self.enc.enable_re_use_label();
                if !self.sm.act {
                    self.sm.last = None;
                }
                self.sm.act = true;
                self.sm.max = 0;
                self.sm.cur = 0;
                self.obs.disabled = false;
                self.obs.n = 0;
                self.obs.run = 0;
            }
            Act::EnableMax(n) => {
                self.enc.enable_re_use_label_with_max_consecutive(n);
                if !self.sm.act {
                    self.sm.last = None;
                }
                self.sm.act = true;
                self.sm.max = n;
                self.sm.cur = 0;
                self.obs.disabled = false;
                self.obs.n = n;
                self.obs.run = 0;
            }
            Act::Inject(k) => self.inject(k)?,
        }
        // invariants of the product
        ensure!(self.enc.is_enabled_re_use_label() == self.sm.act, "is_enabled_re_use_label");
        if !self.foreign {
            ensure!(
                self.r_last == self.obs.eff && self.t_wire == self.r_last,
                "product out of sync: receiver {:?}, wire {:?}, sender side view {:?}",
                self.r_last, self.t_wire, self.obs.eff
            );
        }
        if self.sm.act {
            // while enabled the sender remembers nothing or exactly what the wire says
            ensure!(
                self.sm.last.is_none() || self.sm.last == self.obs.eff,
                "sender memory {:?} but the wire says {:?}",
                self.sm.last, self.obs.eff
            );
        }
        if self.check_debug {
            let d = format!("{:?}", self.enc);
            ensure!(d == self.sm.debug_string(), "sender state {} but model {}", d, self.sm.debug_string());
        }
        Ok(())
    }

    /// every storage is either free or held by a reassembly the model knows about
    fn check_storage(&mut self) -> R {
        let mut free = vec![];
        while let Ok(b) = self.dec.new_pdu() {
            free.push(b);
        }
        let held = self.pending.iter().filter(|p| p.rx_label.is_some()).count();
        let n = free.len();
        for b in free {
            self.give_back(b)?;
        }
        ensure!(
            n + held == self.n_storage,
            "storage accounting: {} free + {} held by reassemblies != {}",
            n, held, self.n_storage
        );
        Ok(())
    }

    fn key(&self) -> (SModel, Obs, Option<u8>, Option<u8>, bool, Vec<(bool, bool, bool)>) {
        // the length of a run does not matter when there is no maximum
        let mut obs = self.obs;
        if obs.n == 0 {
            obs.run = 0;
        }
        (
            self.sm,
            obs,
            self.r_last,
            self.t_wire,
            self.foreign,
            self.pending
                .iter()
                .map(|p| (p.rx_label.is_some(), p.rx_label == p.intended, p.clean && p.passed != RU))
                .collect(),
        )
    }
}

// ---------------------------------------------------------------------------------------------
// drivers
// ---------------------------------------------------------------------------------------------

fn env_usize(name: &str, default: usize) -> usize {
    std::env::var(name)
        .ok()
        .and_then(|v| v.parse().ok())
        .unwrap_or(default)
}

fn run_seq(seq: &[Act], big: &[u8], check_debug: bool) -> Result<Stats, String> {
    let mut w = World::new(big, check_debug);
    for (i, a) in seq.iter().enumerate() {
        w.apply(*a)
            .map_err(|e| format!("step {} of {:?}: {}", i, seq, e))?;
    }
    w.check_storage()
        .map_err(|e| format!("after {:?}: {}", seq, e))?;
    Ok(w.stats)
}

/// all sequences of `depth` actions after `prefix`; the work is split over the first two actions
fn exhaustive(name: &str, prefix: &[Act], alphabet: &[Act], depth: usize, check_debug: bool) {
    let big = vec![0xABu8; 65536];
    let k = alphabet.len();
    let total = AtomicU64::new(0);
    let steps = AtomicU64::new(0);
    let subst = AtomicU64::new(0);
    let deliv = AtomicU64::new(0);
    let refused = AtomicU64::new(0);
    let failure: Mutex<Option<String>> = Mutex::new(None);
    let next = AtomicU64::new(0);
    let split = if depth >= 2 { 2 } else { 1 };
    let jobs = (k as u64).pow(split as u32);
    let threads = std::thread::available_parallelism().map(|n| n.get()).unwrap_or(4);
    std::thread::scope(|s| {
        for _ in 0..threads {
            s.spawn(|| {
                let mut seq: Vec<Act> = prefix.to_vec();
                seq.resize(prefix.len() + depth, Act::Reset);
                loop {
                    let j = next.fetch_add(1, Ordering::Relaxed);
                    if j >= jobs || failure.lock().unwrap().is_some() {
                        break;
                    }
                    let mut jj = j as usize;
                    for d in 0..split {
                        seq[prefix.len() + d] = alphabet[jj % k];
                        jj /= k;
                    }
                    let rest = depth - split;
                    let mut idx = vec![0usize; rest];
                    let mut local = Stats::default();
                    let mut count = 0u64;
                    'outer: loop {
                        for d in 0..rest {
                            seq[prefix.len() + split + d] = alphabet[idx[d]];
                        }
                        match run_seq(&seq, &big, check_debug) {
                            Ok(st) => {
                                count += 1;
                                local.steps += st.steps;
                                local.substituted += st.substituted;
                                local.delivered += st.delivered;
                                local.refused += st.refused;
                            }
                            Err(e) => {
                                *failure.lock().unwrap() = Some(e);
                                break 'outer;
                            }
                        }
                        // next index vector
                        let mut d = 0;
                        loop {
                            if d == rest {
                                break 'outer;
                            }
                            idx[d] += 1;
                            if idx[d] < k {
                                break;
                            }
                            idx[d] = 0;
                            d += 1;
                        }
                    }
                    total.fetch_add(count, Ordering::Relaxed);
                    steps.fetch_add(local.steps, Ordering::Relaxed);
                    subst.fetch_add(local.substituted, Ordering::Relaxed);
                    deliv.fetch_add(local.delivered, Ordering::Relaxed);
                    refused.fetch_add(local.refused, Ordering::Relaxed);
                }
            });
        }
    });
    println!(
        "[{}] alphabet {} depth {} (+prefix {}): {} sequences, {} steps, {} substitutions, {} deliveries, {} refusals of sender packets",
        name,
        k,
        depth,
        prefix.len(),
        total.load(Ordering::Relaxed),
        steps.load(Ordering::Relaxed),
        subst.load(Ordering::Relaxed),
        deliv.load(Ordering::Relaxed),
        refused.load(Ordering::Relaxed)
    );
    let failed = failure.lock().unwrap().take();
    if let Some(e) = failed {
        panic!("[{}] VIOLATION: {}", name, e);
    }
}

fn full_alphabet() -> Vec<Act> {
    let mut v = vec![];
    for l in [A6, B6, Z3, C3, BC, RU] {
        for k in [Kind::C, Kind::CT, Kind::F, Kind::CE, Kind::FE, Kind::CEF, Kind::FEF] {
            v.push(Act::Send(l, k));
        }
    }
    v.push(Act::Cont);
    v.push(Act::ContStep);
    for k in 0..N_FAIL {
        for l in [A6, C3] {
            if (k == 4 || k == 9 || k == 13) && l != A6 {
                continue;
            }
            v.push(Act::Fail(k, l));
        }
    }
    v.push(Act::Reset);
    v.push(Act::Disable);
    v.push(Act::Enable);
    for n in [0u8, 1, 2, 255] {
        v.push(Act::EnableMax(n));
    }
    for k in 0..N_INJECT {
        v.push(Act::Inject(k));
    }
    v
}

fn mid_alphabet() -> Vec<Act> {
    let mut v = vec![];
    for l in [A6, B6, Z3, C3, BC, RU] {
        v.push(Act::Send(l, Kind::C));
    }
    for l in [A6, C3, BC, RU] {
        v.push(Act::Send(l, Kind::F));
    }
    for l in [A6, RU] {
        v.push(Act::Send(l, Kind::CE));
        v.push(Act::Send(l, Kind::FE));
    }
    v.push(Act::Send(A6, Kind::CT));
    v.push(Act::Send(C3, Kind::CEF));
    v.push(Act::Cont);
    for (k, l) in [(0, A6), (1, A6), (2, C3), (6, A6), (10, A6), (12, C3)] {
        v.push(Act::Fail(k, l));
    }
    v.push(Act::Reset);
    v.push(Act::Disable);
    v.push(Act::Enable);
    for n in [1u8, 2] {
        v.push(Act::EnableMax(n));
    }
    for k in [0u8, 3, 4, 7, 11, 13, 14, 18] {
        v.push(Act::Inject(k));
    }
    v
}

fn small_a() -> Vec<Act> {
    vec![
        Act::Send(A6, Kind::C),
        Act::Send(B6, Kind::C),
        Act::Send(Z3, Kind::C),
        Act::Send(C3, Kind::C),
        Act::Send(BC, Kind::C),
        Act::Send(RU, Kind::C),
        Act::Send(A6, Kind::F),
        Act::Send(A6, Kind::CE),
        Act::Fail(0, A6),
        Act::Reset,
        Act::Disable,
        Act::Enable,
        Act::EnableMax(1),
        Act::EnableMax(2),
        Act::Cont,
        Act::Inject(2),
    ]
}

fn small_b() -> Vec<Act> {
    vec![
        Act::Send(A6, Kind::C),
        Act::Send(B6, Kind::C),
        Act::Send(C3, Kind::C),
        Act::Send(BC, Kind::C),
        Act::Send(RU, Kind::C),
        Act::Send(RU, Kind::F),
        Act::Send(A6, Kind::FE),
        Act::Send(A6, Kind::CT),
        Act::Cont,
        Act::Reset,
        Act::EnableMax(1),
        Act::Disable,
        Act::Inject(3),
        Act::Inject(11),
        Act::Inject(7),
        Act::Inject(0),
    ]
}

fn small_c() -> Vec<Act> {
    vec![
        Act::Send(A6, Kind::C),
        Act::Send(A6, Kind::CT),
        Act::Send(A6, Kind::F),
        Act::Send(A6, Kind::FEF),
        Act::Send(A6, Kind::CEF),
        Act::Send(C3, Kind::C),
        Act::Send(BC, Kind::F),
        Act::Send(RU, Kind::CE),
        Act::Fail(1, A6),
        Act::Fail(10, A6),
        Act::Fail(12, A6),
        Act::EnableMax(255),
        Act::EnableMax(0),
        Act::Enable,
        Act::Disable,
        Act::Reset,
        Act::Cont,
    ]
}

fn small_d() -> Vec<Act> {
    // 3 byte labels incl. all-zero, explicit re-use in every packet kind, max 2
    vec![
        Act::Send(Z3, Kind::C),
        Act::Send(Z3, Kind::F),
        Act::Send(Z3, Kind::CE),
        Act::Send(C3, Kind::C),
        Act::Send(C3, Kind::FE),
        Act::Send(A6, Kind::C),
        Act::Send(RU, Kind::C),
        Act::Send(RU, Kind::FE),
        Act::Send(RU, Kind::CT),
        Act::Send(BC, Kind::CE),
        Act::ContStep,
        Act::Cont,
        Act::Reset,
        Act::EnableMax(2),
        Act::Disable,
        Act::Inject(4),
        Act::Inject(14),
    ]
}

#[test]
fn hb1_full_alphabet() {
    let a = full_alphabet();
    let depth = env_usize("HB_DEPTH_FULL", 3);
    exhaustive("full", &[], &a, depth, true);
}

#[test]
fn hb2_mid_alphabet() {
    let a = mid_alphabet();
    let depth = env_usize("HB_DEPTH_MID", 4);
    exhaustive("mid", &[], &a, depth, false);
}

#[test]
fn hb3_small_alphabets() {
    let depth = env_usize("HB_DEPTH_SMALL", 5);
    exhaustive("small_a", &[], &small_a(), depth, false);
    exhaustive("small_b", &[], &small_b(), depth, false);
    exhaustive("small_c", &[], &small_c(), depth, false);
    exhaustive("small_d", &[], &small_d(), depth, false);
}

/// counter at its limits: maximum 253..=255, n sends of the same label, then every short sequence
#[test]
fn hb4_counter_wrap() {
    let depth = env_usize("HB_DEPTH_WRAP", 3);
    let tail = vec![
        Act::Send(A6, Kind::C),
        Act::Send(A6, Kind::F),
        Act::Send(A6, Kind::CT),
        Act::Send(B6, Kind::C),
        Act::Send(RU, Kind::C),
        Act::Send(BC, Kind::C),
        Act::Fail(0, A6),
        Act::Fail(10, A6),
        Act::Reset,
        Act::EnableMax(255),
        Act::EnableMax(1),
        Act::Enable,
        Act::Disable,
        Act::Cont,
    ];
    for max in [253u8, 254, 255] {
        for n in [max as usize - 1, max as usize, max as usize + 1, max as usize + 2, 2 * max as usize + 3] {
            let mut prefix = vec![Act::EnableMax(max)];
            for i in 0..n {
                // a failing call and an explicit re-use now and then
                prefix.push(Act::Send(A6, if i % 5 == 4 { Kind::CE } else { Kind::C }));
                if i % 50 == 7 {
                    prefix.push(Act::Fail(0, A6));
                }
            }
            exhaustive(&format!("wrap max {} n {}", max, n), &prefix, &tail, depth, true);
        }
    }
}

/// breadth first over the states of the model: every action from every reachable model state
/// (the model state is an abstraction: sender model, C15 observer, receiver policy model, nearest
/// wire label, foreign flag, summary of the pending reassemblies)
#[test]
fn hb5_model_state_closure() {
    let mut alphabet: Vec<Act> = full_alphabet()
        .into_iter()
        .filter(|a| !matches!(a, Act::EnableMax(255)))
        .collect();
    alphabet.push(Act::EnableMax(3));
    let max_pending = env_usize("HB_BFS_PENDING", 1);
    let max_states = env_usize("HB_BFS_STATES", 3_000_000);
    let threads = std::thread::available_parallelism().map(|n| n.get()).unwrap_or(4);
    let mut seen = std::collections::HashSet::new();
    let mut frontier: Vec<Vec<Act>> = vec![vec![]];
    {
        let big = vec![0xABu8; 65536];
        seen.insert(World::new(&big, true).key());
    }
    let mut transitions = 0u64;
    let mut level = 0usize;
    while !frontier.is_empty() {
        let next = AtomicU64::new(0);
        let failure: Mutex<Option<String>> = Mutex::new(None);
        let found = Mutex::new(Vec::new());
        let count = AtomicU64::new(0);
        std::thread::scope(|s| {
            for _ in 0..threads {
                s.spawn(|| {
                    let big = vec![0xABu8; 65536];
                    let mut local = vec![];
                    let mut n = 0u64;
                    loop {
                        let i = next.fetch_add(1, Ordering::Relaxed) as usize;
                        if i >= frontier.len() || failure.lock().unwrap().is_some() {
                            break;
                        }
                        let path = &frontier[i];
                        for a in alphabet.iter() {
                            let mut w = World::new(&big, true);
                            for p in path.iter() {
                                w.apply(*p).unwrap();
                            }
                            if matches!(a, Act::Send(_, Kind::F | Kind::FE | Kind::FEF))
                                && w.pending.len() >= max_pending
                            {
                                continue;
                            }
                            let r = w.apply(*a).and_then(|_| w.check_storage());
                            if let Err(e) = r {
                                *failure.lock().unwrap() =
                                    Some(format!("after {:?} then {:?}: {}", path, a, e));
                                break;
                            }
                            n += 1;
                            local.push((w.key(), i, *a));
                        }
                    }
                    count.fetch_add(n, Ordering::Relaxed);
                    found.lock().unwrap().append(&mut local);
                });
            }
        });
        let failed = failure.lock().unwrap().take();
        if let Some(e) = failed {
            panic!("[closure] VIOLATION {}", e);
        }
        transitions += count.load(Ordering::Relaxed);
        let mut found = found.into_inner().unwrap();
        found.sort_by(|a, b| (a.1, format!("{:?}", a.2)).cmp(&(b.1, format!("{:?}", b.2))));
        let mut next_frontier = vec![];
        for (key, i, a) in found {
            if seen.len() >= max_states {
                break;
            }
            if seen.insert(key) {
                let mut np = frontier[i].clone();
                np.push(a);
                next_frontier.push(np);
            }
        }
        level += 1;
        println!(
            "[closure] level {}: {} new model states ({} in total), {} transitions so far",
            level,
            next_frontier.len(),
            seen.len(),
            transitions
        );
        frontier = next_frontier;
    }
    println!(
        "[closure] fixpoint: {} model states, {} transitions checked, depth {}, alphabet {}",
        seen.len(),
        transitions,
        level,
        alphabet.len()
    );
    assert!(seen.len() < max_states, "state cap reached");
}

struct Rng(u64);
impl Rng {
    fn next(&mut self) -> u64 {
        self.0 ^= self.0 << 13;
        self.0 ^= self.0 >> 7;
        self.0 ^= self.0 << 17;
        self.0
    }
    fn below(&mut self, n: usize) -> usize {
        (self.next() % n as u64) as usize
    }
}

/// long random walks, all maximum values, phases that repeat one label to reach the counter limits
#[test]
fn hb6_random_walks() {
    let runs = env_usize("HB_RANDOM_RUNS", 2000);
    let len = env_usize("HB_RANDOM_LEN", 600);
    let full = full_alphabet();
    let threads = std::thread::available_parallelism().map(|n| n.get()).unwrap_or(4);
    let failure: Mutex<Option<String>> = Mutex::new(None);
    let steps = AtomicU64::new(0);
    let subst = AtomicU64::new(0);
    let deliv = AtomicU64::new(0);
    std::thread::scope(|s| {
        for t in 0..threads {
            let full = &full;
            let failure = &failure;
            let steps = &steps;
            let subst = &subst;
            let deliv = &deliv;
            s.spawn(move || {
                let big = vec![0xABu8; 65536];
                let mut rng = Rng(0x9E37_79B9_7F4A_7C15 ^ (t as u64 + 1).wrapping_mul(0x1234_5678_9ABC_DEF1));
                for _ in 0..runs / threads + 1 {
                    if failure.lock().unwrap().is_some() {
                        return;
                    }
                    let mut w = World::new(&big, true);
                    let mut trace: Vec<Act> = vec![];
                    let mut sticky: Option<u8> = None;
                    for _ in 0..len {
                        let a = if w.pending.len() >= 6 {
                            Act::Cont
                        } else {
                            match rng.below(100) {
                                0..=1 => Act::EnableMax(rng.below(256) as u8),
                                2 => {
                                    sticky = if rng.below(2) == 0 {
                                        Some([A6, B6, Z3, C3][rng.below(4)])
                                    } else {
                                        None
                                    };
                                    Act::Cont
                                }
                                3..=60 if sticky.is_some() => {
                                    let k = [Kind::C, Kind::C, Kind::C, Kind::CT, Kind::F, Kind::CE, Kind::FE, Kind::CEF, Kind::FEF][rng.below(9)];
                                    Act::Send(sticky.unwrap(), k)
                                }
                                _ => {
                                    // injections and configuration changes are rarer
                                    let a = full[rng.below(full.len())];
                                    match a {
                                        Act::Inject(_) | Act::Disable | Act::Enable | Act::EnableMax(_) | Act::Reset
                                            if rng.below(3) != 0 =>
                                        {
                                            Act::Send([A6, B6, Z3, C3, BC, RU][rng.below(6)], Kind::C)
                                        }
                                        other => other,
                                    }
                                }
                            }
                        };
                        trace.push(a);
                        if let Err(e) = w.apply(a) {
                            let tail: Vec<Act> = trace.iter().rev().take(40).rev().copied().collect();
                            *failure.lock().unwrap() =
                                Some(format!("{} (last actions of {}: {:?})", e, trace.len(), tail));
                            return;
                        }
                    }
                    steps.fetch_add(w.stats.steps, Ordering::Relaxed);
                    subst.fetch_add(w.stats.substituted, Ordering::Relaxed);
                    deliv.fetch_add(w.stats.delivered, Ordering::Relaxed);
                }
            });
        }
    });
    println!(
        "[random] {} steps, {} substitutions, {} deliveries",
        steps.load(Ordering::Relaxed),
        subst.load(Ordering::Relaxed),
        deliv.load(Ordering::Relaxed)
    );
    let failed = failure.lock().unwrap().take();
    if let Some(e) = failed {
        panic!("[random] VIOLATION: {}", e);
    }
}

/// C01 at the limits of the GSE length, for every way a label can end up on the wire
/// (full, substituted, explicit re-use, broadcast; re-use disabled / unlimited / maximum reached)
#[test]
fn hb7_c01_limits_with_re_use() {
    let mut checked = 0u64;
    let mut completes = 0u64;
    for l in [A6, B6, Z3, C3, BC, RU] {
        // 0: disabled, 1: enabled and the label was just sent (substitution),
        // 2: maximum 1 reached (full label again), 3: enabled, other label before
        for mode in 0..4 {
            for pdu_len in (0usize..4).chain(4080..4100) {
                for delta in [-1i64, 0, 1, 7, 4097, 70000] {
                    let mut enc = Encapsulator::new(DefaultCrc {});
                    let mut memory = SimpleGseMemory::new(4, 4100, 0, 0);
                    for _ in 0..3 {
                        memory.provision_storage(vec![0u8; 4100].into_boxed_slice()).unwrap();
                    }
                    let mut dec = Decapsulator::new(memory, DefaultCrc {}, Mgr);
                    let mut sm = SModel { act: true, max: 0, cur: 0, last: None };
                    let mut pre: Vec<u8> = vec![];
                    match mode {
                        0 => {
                            enc.disable_re_use_label();
                            sm.act = false;
                            pre.push(A6);
                            if l != RU { pre.push(l); }
                        }
                        1 => {
                            pre.push(A6);
                            if l != RU { pre.push(l); }
                        }
                        2 => {
                            enc.enable_re_use_label_with_max_consecutive(1);
                            sm.max = 1;
                            pre.push(A6);
                            if l != RU { pre.push(l); pre.push(l); }
                        }
                        _ => {
                            pre.push(V6);
                        }
                    }
                    let mut r_last = None;
                    for p in pre {
                        let mut b = [0u8; 32];
                        let w = sm.written(p);
                        let n = match enc.encap(&[1, 2, 3], 0, EncapMetadata::new(0x0800, lab(p)), &mut b) {
                            Ok(EncapStatus::CompletedPkt(n)) => n as usize,
                            other => panic!("{:?}", other),
                        };
                        sm.emitted(p);
                        assert_eq!(n, 4 + lab_bytes(w).len() + 3);
                        match dec.decap(&b[..n]) {
                            Ok((DecapStatus::CompletedPkt(s, m), k)) => {
                                assert_eq!(k, n);
                                if w != RU && w != BC { r_last = Some(w); }
                                if w == BC { r_last = None; }
                                assert_eq!(Some(m.label()), if w == BC { Some(Label::Broadcast) } else { r_last.map(lab) });
                                dec.provision_storage(s).unwrap();
                            }
                            other => panic!("{:?}", other),
                        }
                    }
                    let written = sm.written(l);
                    let ll = lab_bytes(written).len();
                    let need = 4 + ll + pdu_len;
                    let buf_len = if delta > 4000 { delta as usize } else { (need as i64 + delta).max(0) as usize };
                    let mut buf = vec![0x5Au8; buf_len];
                    let pdu: Vec<u8> = (0..pdu_len).map(|i| (i * 13 + 5) as u8).collect();
                    let ptype = if pdu_len % 2 == 0 { 0x0600 } else { 0xFFFF };
                    let res = enc.encap(&pdu, 3, EncapMetadata::new(ptype, lab(l)), &mut buf);
                    checked += 1;
                    let fits = 2 + ll + pdu_len <= 4095 && buf_len >= need;
                    if fits {
                        assert_eq!(res, Ok(EncapStatus::CompletedPkt(need as u16)), "C01 must be complete: label {:?} mode {} pdu {} buffer {}", l, mode, pdu_len, buf_len);
                        let w = wire_complete(written, ptype, &[], &pdu);
                        assert_eq!(&buf[..need], &w[..]);
                        completes += 1;
                        let expected_label = if written == RU { r_last } else { Some(written) };
                        match (dec.decap(&buf[..need]), expected_label) {
                            (Ok((DecapStatus::CompletedPkt(s, m), k)), Some(x)) => {
                                assert_eq!(k, need);
                                assert_eq!(m.pdu_len(), pdu_len);
                                assert_eq!(m.protocol_type(), ptype);
                                assert_eq!(m.label(), lab(x));
                                if l != RU { assert_eq!(x, l, "C01 label"); }
                                assert_eq!(&s[..pdu_len], &pdu[..]);
                            }
                            (Err((DecapError::ErrorNoLabelSaved, k)), None) => {
                                assert_eq!(k, need);
                                assert_eq!(l, RU);
                            }
                            (other, e) => panic!("C01: label {:?} mode {} pdu {} buffer {}: {:?} (expected label {:?})", l, mode, pdu_len, buf_len, other, e),
                        }
                    } else {
                        assert!(!matches!(res, Ok(EncapStatus::CompletedPkt(_))), "complete although it does not fit");
                    }
                }
            }
        }
    }
    println!("[c01 limits] {} encap calls, {} complete round trips", checked, completes);
}

/// the core of both machines, deeper
#[test]
fn hb8_core_alphabet_deep() {
    let depth = env_usize("HB_DEPTH_CORE", 5);
    let core = vec![
        Act::Send(A6, Kind::C),
        Act::Send(B6, Kind::C),
        Act::Send(C3, Kind::C),
        Act::Send(BC, Kind::C),
        Act::Send(RU, Kind::C),
        Act::Send(A6, Kind::F),
        Act::Cont,
        Act::Fail(0, A6),
        Act::Reset,
        Act::EnableMax(1),
        Act::Disable,
        Act::Inject(7),
    ];
    exhaustive("core", &[], &core, depth, false);
}
