//! Sender and receiver over physical frames: the sender packs start / complete / continuation
//! packets of many PDUs into frames of random sizes (0..8100 bytes), with configuration changes
//! and failing calls in between; the receiver walks through every frame (rest of the frame or
//! exactly the packet as input) and finds the trailing padding; both sides reset at the frame
//! boundary. Checks C01 (round trip, consumed length, "must be complete"), C04 (label of every
//! delivered PDU, every PDU with a label is delivered), C15 (wire observer), expected bytes of
//! every packet (independent encoder and CRC).

use dvb_gse_rust::crc::DefaultCrc;
use dvb_gse_rust::gse_decap::{
    DecapError, DecapMemoryError, DecapStatus, Decapsulator, GseDecapMemory, SimpleGseMemory,
};
use dvb_gse_rust::gse_encap::{ContextFrag, EncapError, EncapMetadata, EncapStatus, Encapsulator};
use dvb_gse_rust::header_extension::{
    Extension, MandatoryHeaderExt, MandatoryHeaderExtensionManager,
};
use dvb_gse_rust::label::Label;
use std::collections::VecDeque;
use std::sync::atomic::{AtomicU64, Ordering};
use std::sync::Mutex;

const A6: u8 = 0;
const B6: u8 = 1;
const Z3: u8 = 2;
const C3: u8 = 3;
const BC: u8 = 4;
const RU: u8 = 5;
// labels only seen in packets injected on the receiver side
const X6: u8 = 6;
const W6: u8 = 7;
const Y6: u8 = 8;
const V6: u8 = 9;
const X3: u8 = 10;

fn lab(code: u8) -> Label {
    match code {
        A6 => Label::SixBytesLabel([1, 2, 3, 4, 5, 6]),
        B6 => Label::SixBytesLabel([1, 2, 3, 9, 9, 9]),
        Z3 => Label::ThreeBytesLabel([0, 0, 0]),
        C3 => Label::ThreeBytesLabel([1, 2, 3]),
        BC => Label::Broadcast,
        RU => Label::ReUse,
        X6 => Label::SixBytesLabel([7, 7, 7, 7, 7, 7]),
        W6 => Label::SixBytesLabel([8, 8, 8, 8, 8, 8]),
        Y6 => Label::SixBytesLabel([0, 0, 0, 0, 0, 1]),
        V6 => Label::SixBytesLabel([1, 2, 3, 4, 5, 7]),
        X3 => Label::ThreeBytesLabel([1, 2, 4]),
        _ => unreachable!(),
    }
}
fn lab_bytes(code: u8) -> Vec<u8> {
    match lab(code) {
        Label::SixBytesLabel(b) => b.to_vec(),
        Label::ThreeBytesLabel(b) => b.to_vec(),
        _ => vec![],
    }
}
fn lt_bits(code: u8) -> u8 {
    match lab(code) {
        Label::SixBytesLabel(_) => 0,
        Label::ThreeBytesLabel(_) => 1,
        Label::Broadcast => 2,
        Label::ReUse => 3,
    }
}
fn is_full(code: u8) -> bool {
    lt_bits(code) < 2
}

// ---------------------------------------------------------------------------------------------
// independent wire encoder
// ---------------------------------------------------------------------------------------------

fn crc32_mpeg(parts: &[&[u8]]) -> u32 {
    let mut c = 0xFFFF_FFFFu32;
    for p in parts {
        for &b in p.iter() {
            c ^= (b as u32) << 24;
            for _ in 0..8 {
                c = if c & 0x8000_0000 != 0 {
                    (c << 1) ^ 0x04C1_1DB7
                } else {
                    c << 1
                };
            }
        }
    }
    c
}

fn hdr(s: bool, e: bool, lt: u8, len: usize) -> [u8; 2] {
    assert!(len <= 4095);
    let v = ((s as u16) << 15) | ((e as u16) << 14) | ((lt as u16) << 12) | (len as u16);
    v.to_be_bytes()
}

/// extensions as (id, data); returns (type field, bytes between label and pdu)
fn ext_wire(exts: &[(u16, Vec<u8>)], ptype: u16) -> (u16, Vec<u8>) {
    if exts.is_empty() {
        return (ptype, vec![]);
    }
    let mut after = vec![];
    for (i, (_, data)) in exts.iter().enumerate() {
        after.extend_from_slice(data);
        if i + 1 < exts.len() {
            after.extend_from_slice(&exts[i + 1].0.to_be_bytes());
        }
    }
    if ptype >= 0x0600 {
        after.extend_from_slice(&ptype.to_be_bytes());
    }
    (exts[0].0, after)
}

fn wire_complete(written: u8, type_field: u16, after: &[u8], pdu: &[u8]) -> Vec<u8> {
    let lb = lab_bytes(written);
    let mut v = hdr(true, true, lt_bits(written), 2 + lb.len() + after.len() + pdu.len()).to_vec();
    v.extend_from_slice(&type_field.to_be_bytes());
    v.extend_from_slice(&lb);
    v.extend_from_slice(after);
    v.extend_from_slice(pdu);
    v
}

fn wire_first(
    written: u8,
    fid: u8,
    total_len: u16,
    type_field: u16,
    after: &[u8],
    part: &[u8],
) -> Vec<u8> {
    let lb = lab_bytes(written);
    let mut v = hdr(
        true,
        false,
        lt_bits(written),
        3 + 2 + lb.len() + after.len() + part.len(),
    )
    .to_vec();
    v.push(fid);
    v.extend_from_slice(&total_len.to_be_bytes());
    v.extend_from_slice(&type_field.to_be_bytes());
    v.extend_from_slice(&lb);
    v.extend_from_slice(after);
    v.extend_from_slice(part);
    v
}

fn wire_inter(fid: u8, part: &[u8]) -> Vec<u8> {
    let mut v = hdr(false, false, 3, 1 + part.len()).to_vec();
    v.push(fid);
    v.extend_from_slice(part);
    v
}
fn wire_end(fid: u8, part: &[u8], crc: u32) -> Vec<u8> {
    let mut v = hdr(false, true, 3, 1 + part.len() + 4).to_vec();
    v.push(fid);
    v.extend_from_slice(part);
    v.extend_from_slice(&crc.to_be_bytes());
    v
}

// ---------------------------------------------------------------------------------------------
// receiver side manager
// ---------------------------------------------------------------------------------------------

#[derive(Clone, Copy)]
struct Mgr;
impl MandatoryHeaderExtensionManager for Mgr {
    fn is_mandatory_header_id_known(&self, id: u16) -> MandatoryHeaderExt {
        match id {
            0x0010 => MandatoryHeaderExt::NonFinal(2),
            0x0020 => MandatoryHeaderExt::Final(3),
            _ => MandatoryHeaderExt::Unknown,
        }
    }
}

// ---------------------------------------------------------------------------------------------
// models
// ---------------------------------------------------------------------------------------------

/// what the documentation of Encapsulator describes
#[derive(Clone, Copy, Debug, PartialEq, Eq, Hash)]
struct SModel {
    act: bool,
    max: u8,
    cur: u8,
    last: Option<u8>,
}

impl SModel {
    fn written(&self, l: u8) -> u8 {
        if self.act && self.last == Some(l) && (self.max == 0 || self.cur < self.max) {
            RU
        } else {
            l
        }
    }
    fn emitted(&mut self, l: u8) {
        if !self.act {
            return;
        }
        if self.last == Some(l) {
            if self.max == 0 {
                return;
            }
            if self.cur < self.max {
                self.cur += 1;
                return;
            }
            self.cur = 0;
        }
        if l == BC {
            self.last = None;
        } else if l != RU {
            self.last = Some(l);
        }
    }
    fn debug_string(&self) -> String {
        let last = match self.last {
            None => "None".to_string(),
            Some(c) => format!("Some({:?})", lab(c)),
        };
        format!(
            "Encapsulator {{ crc_calculator: DefaultCrc, re_use_activated: {}, re_max_consecutive: {}, re_current_consecutive: {}, last_label: {} }}",
            self.act, self.max, self.cur, last
        )
    }
}

/// only knows the statements of C15, looks at the emitted packets
#[derive(Clone, Copy, Debug, PartialEq, Eq, Hash)]
struct Obs {
    disabled: bool,
    n: u8,
    /// label in force after the immediately preceding start/complete packet (None: none yet /
    /// reset / broadcast)
    eff: Option<u8>,
    /// consecutive substituted re-use packets
    run: u32,
}


// ---------------------------------------------------------------------------------------------
// physical frames
// ---------------------------------------------------------------------------------------------

const MAXPDU: usize = 10_000;
const N_STORAGE: usize = 48;

macro_rules! ensure {
    ($cond:expr, $($arg:tt)*) => {
        if !($cond) {
            return Err(format!($($arg)*));
        }
    };
}
type R = Result<(), String>;

struct Rng(u64);
impl Rng {
    fn next(&mut self) -> u64 {
        self.0 ^= self.0 << 13;
        self.0 ^= self.0 >> 7;
        self.0 ^= self.0 << 17;
        self.0
    }
    fn below(&mut self, n: usize) -> usize {
        (self.next() % n as u64) as usize
    }
    fn range(&mut self, lo: usize, hi: usize) -> usize {
        lo + self.below(hi - lo + 1)
    }
}

#[derive(Clone, Debug)]
struct Flight {
    fid: u8,
    pdu: Vec<u8>,
    ptype: u16,
    ctx: ContextFrag,
    sent: usize,
    crc: u32,
    exts: Vec<Extension>,
    passed: u8,
    intended: Option<u8>,
    /// filled when the receiver has seen the first fragment
    rx_label: Option<Option<u8>>,
}

#[derive(Debug)]
enum Expect {
    /// complete packet: (len, passed, written, pdu, ptype, exts, intended)
    Complete(usize, u8, u8, Vec<u8>, u16, Vec<Extension>, Option<u8>),
    /// first fragment: (len, written, flight index by fid)
    First(usize, u8, u8),
    Inter(usize, u8),
    End(usize, u8),
}

struct Frames {
    enc: Encapsulator<DefaultCrc>,
    dec: Decapsulator<SimpleGseMemory, DefaultCrc, Mgr>,
    sm: SModel,
    obs: Obs,
    r_last: Option<u8>,
    /// what the wire says, as seen by the sender while it fills the frame
    t_wire: Option<u8>,
    flights: Vec<Flight>,
    free_fids: Vec<u8>,
    rng: Rng,
    counter: u32,
    // statistics
    frames: u64,
    packets: u64,
    completes: u64,
    firsts: u64,
    substituted: u64,
    delivered: u64,
    refused_ru: u64,
    fails: u64,
    trace: VecDeque<String>,
}

const EXT_SETS: [(&[(u16, &[u8])], bool); 9] = [
    (&[], false),
    (&[(0x0100, &[])], false),
    (&[(0x0201, &[0xE1, 0xE2])], false),
    (&[(0x0304, &[1, 2, 3, 4]), (0x0406, &[1, 2, 3, 4, 5, 6])], false),
    (&[(0x0508, &[1, 2, 3, 4, 5, 6, 7, 8])], false),
    (&[(0x0010, &[0xAA, 0xBB])], false),
    (&[(0x0010, &[0xAA, 0xBB]), (0x0201, &[9, 9])], false),
    (&[(0x0020, &[0xF1, 0xF2, 0xF3])], true),
    (&[(0x0304, &[4, 3, 2, 1]), (0x0020, &[0xF1, 0xF2, 0xF3])], true),
];

impl Frames {
    fn new(seed: u64) -> Self {
        let mut memory = SimpleGseMemory::new(256, MAXPDU, 0, 0);
        for _ in 0..N_STORAGE {
            memory
                .provision_storage(vec![0u8; MAXPDU].into_boxed_slice())
                .unwrap();
        }
        Frames {
            enc: Encapsulator::new(DefaultCrc {}),
            dec: Decapsulator::new(memory, DefaultCrc {}, Mgr),
            sm: SModel { act: true, max: 0, cur: 0, last: None },
            obs: Obs { disabled: false, n: 0, eff: None, run: 0 },
            r_last: None,
            t_wire: None,
            flights: vec![],
            free_fids: (0..=255u8).collect(),
            rng: Rng(seed | 1),
            counter: 0,
            frames: 0,
            packets: 0,
            completes: 0,
            firsts: 0,
            substituted: 0,
            delivered: 0,
            refused_ru: 0,
            fails: 0,
            trace: VecDeque::new(),
        }
    }

    fn log(&mut self, s: String) {
        if self.trace.len() >= 60 {
            self.trace.pop_front();
        }
        self.trace.push_back(s);
    }

    fn pdu_len(&mut self) -> usize {
        match self.rng.below(100) {
            0..=39 => self.rng.range(0, 60),
            40..=64 => self.rng.range(60, 700),
            65..=79 => self.rng.range(700, 4070),
            80..=91 => self.rng.range(4070, 4110),
            _ => self.rng.range(4110, MAXPDU),
        }
    }

    fn emitted(&mut self, l: u8, written: u8) -> R {
        self.sm.emitted(l);
        if written == RU && l != RU {
            self.substituted += 1;
            ensure!(!self.obs.disabled, "C15: substitution while re-use is disabled");
            ensure!(is_full(l), "C15: substitution for a label that is not 3/6 bytes");
            ensure!(self.obs.eff == Some(l), "C15: substitution for {:?}, preceding packet stands for {:?}", l, self.obs.eff);
            self.obs.run += 1;
            ensure!(self.obs.n == 0 || self.obs.run <= self.obs.n as u32, "C15: run {} > {}", self.obs.run, self.obs.n);
        } else if l == RU {
        } else if l == BC {
            self.obs.eff = None;
            self.obs.run = 0;
        } else {
            self.obs.eff = Some(l);
            self.obs.run = 0;
        }
        if written == BC {
            self.t_wire = None;
        } else if written != RU {
            self.t_wire = Some(written);
        }
        Ok(())
    }

    /// one new PDU into `buf`; returns the number of bytes written (0: the call failed)
    fn start_pdu(&mut self, buf: &mut [u8], expect: &mut Vec<Expect>) -> Result<usize, String> {
        self.counter += 1;
        let l = [A6, A6, A6, B6, Z3, C3, C3, BC, RU][self.rng.below(9)];
        let pdu_len = self.pdu_len();
        let c = self.counter as usize;
        let pdu: Vec<u8> = (0..pdu_len).map(|i| (c * 131 + i * 7 + (i >> 8) + 1) as u8).collect();
        let (ext_spec, is_final) = EXT_SETS[if self.rng.below(3) == 0 { self.rng.below(9) } else { 0 }];
        let ptype: u16 = if is_final { 0x0020 } else { [0x0600u16, 0x0800, 0x86DD, 0xFFFF][self.rng.below(4)] };
        let ext_owned: Vec<(u16, Vec<u8>)> = ext_spec.iter().map(|(i, d)| (*i, d.to_vec())).collect();
        let exts: Vec<Extension> = ext_owned.iter().map(|(i, d)| Extension::new(*i, d).unwrap()).collect();
        let Some(&fid) = self.free_fids.get(self.rng.below(self.free_fids.len().max(1))) else {
            return Ok(0);
        };

        let written = self.sm.written(l);
        let lb = lab_bytes(written);
        let ll = lb.len();
        let (type_field, after) = ext_wire(&ext_owned, ptype);
        let al = after.len();
        let buf_len = buf.len();
        let intended = if l == RU { self.t_wire } else { Some(l) };

        let before = self.enc.clone();
        let snapshot: Vec<u8> = buf.to_vec();
        let md = EncapMetadata::new(ptype, lab(l));
        let res = if exts.is_empty() {
            self.enc.encap(&pdu, fid, md, buf)
        } else {
            self.enc.encap_ext(&pdu, fid, md, buf, exts.clone())
        };
        self.log(format!(
            "start label {:?} written {:?} pdu {} ext {:?} buf {} fid {} -> {:?}",
            l, written, pdu_len, ext_spec.iter().map(|e| e.0).collect::<Vec<_>>(), buf_len, fid, res
        ));

        if buf_len >= 4 + ll + al + pdu_len && 2 + ll + al + pdu_len <= 4095 {
            let w = wire_complete(written, type_field, &after, &pdu);
            ensure!(res == Ok(EncapStatus::CompletedPkt(w.len() as u16)), "C01: expected CompletedPkt({}), got {:?}", w.len(), res);
            ensure!(buf[..w.len()] == w[..], "complete packet bytes differ");
            ensure!(buf[w.len()..] == snapshot[w.len()..], "wrote past the packet");
            self.emitted(l, written)?;
            self.completes += 1;
            expect.push(Expect::Complete(w.len(), l, written, pdu, ptype, exts, intended));
            return Ok(w.len());
        }
        let h = 7 + ll + al;
        if buf_len < h || h > 4097 {
            ensure!(res == Err(EncapError::ErrorSizeBuffer), "expected ErrorSizeBuffer, got {:?}", res);
            ensure!(self.enc == before, "a failing call changed the encapsulator");
            ensure!(buf[..] == snapshot[..], "a failing call wrote into the buffer");
            self.fails += 1;
            return Ok(0);
        }
        if pdu_len + 2 + ll > 65535 {
            ensure!(res == Err(EncapError::ErrorPduLength), "expected ErrorPduLength, got {:?}", res);
            self.fails += 1;
            return Ok(0);
        }
        let n = buf_len.min(4097) - h;
        let total = (pdu_len + 2 + ll) as u16;
        let w = wire_first(written, fid, total, type_field, &after, &pdu[..n]);
        let crc = crc32_mpeg(&[&total.to_be_bytes(), &ptype.to_be_bytes(), &lb, &pdu]);
        let ctx = ContextFrag::new(fid, crc, n as u16);
        ensure!(res == Ok(EncapStatus::FragmentedPkt(w.len() as u16, ctx)), "expected FragmentedPkt({}, {:?}), got {:?}", w.len(), ctx, res);
        ensure!(buf[..w.len()] == w[..], "first fragment bytes differ");
        ensure!(buf[w.len()..] == snapshot[w.len()..], "wrote past the packet");
        self.emitted(l, written)?;
        self.firsts += 1;
        self.free_fids.retain(|f| *f != fid);
        self.flights.push(Flight { fid, pdu, ptype, ctx, sent: n, crc, exts, passed: l, intended, rx_label: None });
        expect.push(Expect::First(w.len(), written, fid));
        Ok(w.len())
    }

    /// continuation of the flight `idx` into `buf`
    fn continue_pdu(&mut self, idx: usize, buf: &mut [u8], expect: &mut Vec<Expect>) -> Result<usize, String> {
        let f = self.flights[idx].clone();
        let rem = f.pdu.len() - f.sent;
        let space = buf.len();
        let snapshot = buf.to_vec();
        let res = self.enc.encap_frag(&f.pdu, &f.ctx, buf);
        self.log(format!("continue fid {} rem {} space {} -> {:?}", f.fid, rem, space, res));
        if space >= 2 + 1 + rem + 4 && 1 + rem + 4 <= 4095 {
            let w = wire_end(f.fid, &f.pdu[f.sent..], f.crc);
            ensure!(res == Ok(EncapStatus::CompletedPkt(w.len() as u16)), "encap_frag: expected end {}, got {:?}", w.len(), res);
            ensure!(buf[..w.len()] == w[..], "end bytes differ");
            ensure!(buf[w.len()..] == snapshot[w.len()..], "wrote past the packet");
            expect.push(Expect::End(w.len(), f.fid));
            self.flights[idx].sent = f.pdu.len();
            return Ok(w.len());
        }
        if space > 3 && rem > 0 {
            let n = (space - 3).min(4094).min(rem);
            let w = wire_inter(f.fid, &f.pdu[f.sent..f.sent + n]);
            let ctx = ContextFrag::new(f.fid, f.crc, (f.sent + n) as u16);
            ensure!(res == Ok(EncapStatus::FragmentedPkt(w.len() as u16, ctx)), "encap_frag: expected intermediate {}, got {:?}", w.len(), res);
            ensure!(buf[..w.len()] == w[..], "intermediate bytes differ");
            ensure!(buf[w.len()..] == snapshot[w.len()..], "wrote past the packet");
            self.flights[idx].ctx = ctx;
            self.flights[idx].sent += n;
            expect.push(Expect::Inter(w.len(), f.fid));
            return Ok(w.len());
        }
        ensure!(res == Err(EncapError::ErrorSizeBuffer), "encap_frag: expected ErrorSizeBuffer, got {:?}", res);
        ensure!(buf[..] == snapshot[..], "a failing call wrote into the buffer");
        self.fails += 1;
        Ok(0)
    }

    fn config(&mut self) {
        match self.rng.below(10) {
            0 => {
                self.enc.disable_re_use_label();
                self.sm.act = false;
                self.sm.max = 0;
                self.sm.cur = 0;
                self.obs.disabled = true;
                self.obs.n = 0;
                self.obs.run = 0;
                self.log("disable".into());
            }
            1 | 2 => {
                self.enc.enable_re_use_label();
                if !self.sm.act {
                    self.sm.last = None;
                }
                self.sm.act = true;
                self.sm.max = 0;
                self.sm.cur = 0;
                self.obs.disabled = false;
                self.obs.n = 0;
                self.obs.run = 0;
                self.log("enable".into());
            }
            _ => {
                let n = [0u8, 1, 1, 2, 2, 3, 5, 255][self.rng.below(8)];
                self.enc.enable_re_use_label_with_max_consecutive(n);
                if !self.sm.act {
                    self.sm.last = None;
                }
                self.sm.act = true;
                self.sm.max = n;
                self.sm.cur = 0;
                self.obs.disabled = false;
                self.obs.n = n;
                self.obs.run = 0;
                self.log(format!("enable max {}", n));
            }
        }
    }

    fn check_meta(m: &dvb_gse_rust::gse_decap::DecapMetadata, pdu_len: usize, ptype: u16, label: u8, exts: &[Extension]) -> R {
        ensure!(m.pdu_len() == pdu_len, "metadata pdu_len {} != {}", m.pdu_len(), pdu_len);
        ensure!(m.protocol_type() == ptype, "metadata protocol type {:#x} != {:#x}", m.protocol_type(), ptype);
        ensure!(m.label() == lab(label), "metadata label {:?} != {:?}", m.label(), lab(label));
        ensure!(m.extensions()[..] == exts[..], "metadata extensions differ");
        Ok(())
    }

    /// the receiver walks through the frame
    fn receive(&mut self, frame: &[u8], expect: Vec<Expect>, exact: bool) -> R {
        let mut off = 0usize;
        for e in expect {
            let len = match &e {
                Expect::Complete(l, ..) | Expect::First(l, ..) | Expect::Inter(l, ..) | Expect::End(l, ..) => *l,
            };
            // the whole rest of the frame, or exactly the packet
            let input = if exact { &frame[off..off + len] } else { &frame[off..] };
            let res = self.dec.decap(input);
            self.packets += 1;
            match e {
                Expect::Complete(len, passed, written, pdu, ptype, exts, intended) => {
                    let rx = if written == RU { self.r_last } else { Some(written) };
                    match rx {
                        None => {
                            ensure!(res == Err((DecapError::ErrorNoLabelSaved, len)), "expected ErrorNoLabelSaved, got {:?}", res);
                            ensure!(passed == RU, "C04: PDU with label {:?} refused", passed);
                            self.r_last = None;
                            self.refused_ru += 1;
                        }
                        Some(x) => {
                            ensure!(intended == Some(x), "C04: PDU for {:?} attributed to {:?}", intended, x);
                            match res {
                                Ok((DecapStatus::CompletedPkt(b, m), n)) => {
                                    ensure!(n == len, "C01: decap consumed {} of {}", n, len);
                                    Self::check_meta(&m, pdu.len(), ptype, x, &exts)?;
                                    ensure!(b[..pdu.len()] == pdu[..], "C01: delivered bytes differ");
                                    self.dec.provision_storage(b).map_err(|e| format!("{:?}", e))?;
                                    self.delivered += 1;
                                }
                                other => return Err(format!("C01/C04: complete packet not delivered: {:?}", other)),
                            }
                            if written == BC {
                                self.r_last = None;
                            } else if written != RU {
                                self.r_last = Some(written);
                            }
                        }
                    }
                }
                Expect::First(len, written, fid) => {
                    let idx = self.flights.iter().position(|f| f.fid == fid).unwrap();
                    let f = self.flights[idx].clone();
                    let rx = if written == RU { self.r_last } else { Some(written) };
                    match rx {
                        None => {
                            ensure!(res == Err((DecapError::ErrorNoLabelSaved, len)), "expected ErrorNoLabelSaved, got {:?}", res);
                            ensure!(f.passed == RU, "C04: first fragment with label {:?} refused", f.passed);
                            self.r_last = None;
                            self.refused_ru += 1;
                            self.flights[idx].rx_label = Some(None);
                        }
                        Some(x) => {
                            ensure!(f.intended == Some(x), "C04: PDU for {:?} attributed to {:?}", f.intended, x);
                            match res {
                                Ok((DecapStatus::FragmentedPkt(m), n)) => {
                                    ensure!(n == len, "decap consumed {} of {}", n, len);
                                    Self::check_meta(&m, 0, f.ptype, x, &f.exts)?;
                                }
                                other => return Err(format!("C04: first fragment not accepted: {:?}", other)),
                            }
                            self.flights[idx].rx_label = Some(Some(x));
                            if written == BC {
                                self.r_last = None;
                            } else if written != RU {
                                self.r_last = Some(written);
                            }
                        }
                    }
                }
                Expect::Inter(len, fid) => {
                    let idx = self.flights.iter().position(|f| f.fid == fid).unwrap();
                    let f = self.flights[idx].clone();
                    match f.rx_label.unwrap() {
                        None => ensure!(
                            res == Err((DecapError::ErrorMemory(DecapMemoryError::UndefinedId), len)),
                            "intermediate of a refused PDU: {:?}", res
                        ),
                        Some(x) => match res {
                            Ok((DecapStatus::FragmentedPkt(m), n)) => {
                                ensure!(n == len, "decap consumed {} of {}", n, len);
                                Self::check_meta(&m, 0, f.ptype, x, &f.exts)?;
                            }
                            other => return Err(format!("C04: intermediate not accepted: {:?}", other)),
                        },
                    }
                }
                Expect::End(len, fid) => {
                    let idx = self.flights.iter().position(|f| f.fid == fid).unwrap();
                    let f = self.flights.remove(idx);
                    self.free_fids.push(fid);
                    match f.rx_label.unwrap() {
                        None => ensure!(
                            res == Err((DecapError::ErrorMemory(DecapMemoryError::UndefinedId), len)),
                            "end of a refused PDU: {:?}", res
                        ),
                        Some(x) => match res {
                            Ok((DecapStatus::CompletedPkt(b, m), n)) => {
                                ensure!(n == len, "decap consumed {} of {}", n, len);
                                Self::check_meta(&m, f.pdu.len(), f.ptype, x, &f.exts)?;
                                ensure!(b[..f.pdu.len()] == f.pdu[..], "reassembled bytes differ");
                                ensure!(f.intended == Some(x), "C04: label");
                                self.dec.provision_storage(b).map_err(|e| format!("{:?}", e))?;
                                self.delivered += 1;
                            }
                            other => return Err(format!("C04: fragmented PDU (label {:?}, {} bytes) not delivered: {:?}", f.passed, f.pdu.len(), other)),
                        },
                    }
                }
            }
            off += len;
        }
        if !exact {
            // trailing zeros of the frame
            let rest = frame.len() - off;
            if rest == 1 {
                let r = self.dec.decap(&frame[off..]);
                ensure!(r == Err((DecapError::ErrorSizeBuffer, 1)), "one spare byte: {:?}", r);
            } else if rest >= 2 {
                let r = self.dec.decap(&frame[off..]);
                ensure!(r == Ok((DecapStatus::Padding, rest)), "padding: {:?}", r);
            }
        }
        Ok(())
    }

    fn one_frame(&mut self, flush: bool) -> R {
        self.frames += 1;
        let size = if flush {
            8000
        } else {
            match self.rng.below(10) {
                0 => self.rng.range(0, 40),
                1..=3 => self.rng.range(40, 600),
                4..=6 => self.rng.range(600, 4200),
                _ => self.rng.range(4200, 8100),
            }
        };
        let mut frame = vec![0u8; size];
        let mut off = 0usize;
        let mut expect = vec![];
        self.log(format!("--- frame of {} bytes", size));
        let mut budget = 120;
        loop {
            budget -= 1;
            if budget == 0 {
                break;
            }
            let r = self.rng.below(100);
            let n = if flush {
                let Some(idx) = (0..self.flights.len()).find(|i| !self.finished(*i, &expect)) else {
                    break;
                };
                let k = self.continue_pdu(idx, &mut frame[off..], &mut expect)?;
                if k == 0 {
                    break;
                }
                k
            } else if r < 6 {
                self.config();
                continue;
            } else if r < 9 {
                break; // the sender closes the frame early
            } else if r < 35 && !self.flights.is_empty() {
                // continue one of the PDUs in flight, sometimes in a sub-slice
                let open: Vec<usize> = (0..self.flights.len()).filter(|i| !self.finished(*i, &expect)).collect();
                if open.is_empty() {
                    continue;
                }
                let idx = open[self.rng.below(open.len())];
                let end = if self.rng.below(3) == 0 { (off + self.rng.range(0, 300)).min(size) } else { size };
                self.continue_pdu(idx, &mut frame[off..end], &mut expect)?
            } else if self.flights.len() < 30 {
                let end = if self.rng.below(4) == 0 { (off + self.rng.range(0, 200)).min(size) } else { size };
                self.start_pdu(&mut frame[off..end], &mut expect)?
            } else {
                continue;
            };
            off += n;
        }
        let exact = self.rng.below(4) == 0;
        self.receive(&frame, expect, exact)?;
        // frame boundary
        self.enc.reset_last_label();
        self.dec.reset_last_label();
        self.sm.last = None;
        self.obs.eff = None;
        self.r_last = None;
        self.t_wire = None;
        let d = format!("{:?}", self.enc);
        ensure!(d == self.sm.debug_string(), "sender state {} but model {}", d, self.sm.debug_string());
        Ok(())
    }

    /// the end packet of this flight is already in the frame under construction
    fn finished(&self, idx: usize, expect: &[Expect]) -> bool {
        let fid = self.flights[idx].fid;
        expect.iter().any(|e| matches!(e, Expect::End(_, f) if *f == fid))
    }
}

#[test]
fn hf1_random_frames() {
    let runs: usize = std::env::var("HF_RUNS").ok().and_then(|v| v.parse().ok()).unwrap_or(64);
    let frames: usize = std::env::var("HF_FRAMES").ok().and_then(|v| v.parse().ok()).unwrap_or(400);
    let threads = std::thread::available_parallelism().map(|n| n.get()).unwrap_or(4);
    let failure: Mutex<Option<String>> = Mutex::new(None);
    let totals: Mutex<[u64; 8]> = Mutex::new([0; 8]);
    let next = AtomicU64::new(0);
    std::thread::scope(|s| {
        for _ in 0..threads {
            s.spawn(|| loop {
                let run = next.fetch_add(1, Ordering::Relaxed);
                if run as usize >= runs || failure.lock().unwrap().is_some() {
                    break;
                }
                let mut w = Frames::new(0x9E37_79B9_7F4A_7C15u64.wrapping_mul(run + 1));
                let mut res = Ok(());
                for _ in 0..frames {
                    res = w.one_frame(false);
                    if res.is_err() {
                        break;
                    }
                }
                // flush what is still in flight, then every PDU must have been delivered or refused
                let mut guard = 0;
                while res.is_ok() && !w.flights.is_empty() && guard < 200 {
                    res = w.one_frame(true);
                    guard += 1;
                }
                if res.is_ok() && !w.flights.is_empty() {
                    res = Err(format!("{} PDUs never completed", w.flights.len()));
                }
                if let Err(e) = res {
                    let t: Vec<String> = w.trace.iter().cloned().collect();
                    *failure.lock().unwrap() = Some(format!("run {}: {}\n{}", run, e, t.join("\n")));
                    break;
                }
                let mut t = totals.lock().unwrap();
                for (i, v) in [w.frames, w.packets, w.completes, w.firsts, w.substituted, w.delivered, w.refused_ru, w.fails].iter().enumerate() {
                    t[i] += v;
                }
            });
        }
    });
    let t = totals.lock().unwrap();
    println!(
        "[frames] {} frames, {} packets decapsulated, {} complete, {} first fragments, {} substitutions, {} PDUs delivered, {} explicit re-use refused, {} failing calls",
        t[0], t[1], t[2], t[3], t[4], t[5], t[6], t[7]
    );
    let failed = failure.lock().unwrap().take();
    if let Some(e) = failed {
        panic!("[frames] VIOLATION: {}", e);
    }
}
