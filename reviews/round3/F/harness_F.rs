// RESULT: no violation of C19 / C10 / C05 found on the unmodified source (debug and release).
//
// Coverage at HARNESS_F_SCALE=1 (counts printed by the tests; run with --nocapture):
//  f1  6000 trials, 38737 frames of 2..69997 bytes (up to 155 packets per frame) built by the real
//      Encapsulator (encap / encap_ext / encap_frag into &mut frame[off..] and into shorter sub-slices;
//      re-use enabled / disabled / max-consecutive, toggled mid-stream; explicit Label::ReUse, Broadcast,
//      3B (incl. 000000), 6B; 1..4 PDUs in flight, frag ids aliasing the 1/2/3/4/8/256 receiver slots,
//      sender abandoning a PDU by re-using its frag id; PDU lengths 0, <30, <400, <6000, <30000,
//      4080..4100, 65525..65527; extension chains of 1..5 elements: optional H-LEN 1..5, known non-final
//      mandatory (0, 3, 200 data bytes), final mandatory (0 / 5 data bytes), unknown mandatory; plain
//      encap with protocol types 0x0081 (known final) and 0x0042 (unknown)); 302691 packets
//      (130361 complete, 53170 first, 82733 intermediate, 36427 end).  Received frames = kept packets
//      (8% deleted, 6% payload- or CRC-corrupted in 30% of the frames, 4% frames lost) + tail: nothing,
//      one zero byte, one garbage byte, 2 zeros, zeros to the frame end, 2..200 garbage bytes,
//      0..3 zeros then 1..5000 garbage bytes.  Receiver: storages of 0/8/40/300/5000/70000 bytes,
//      0..slots+2 provisioned, re-provisioning 100/90/50/0 %, new_pdu()/provision_storage() juggling,
//      reset_last_label on both / one / no side.
//      Checked per packet: receiver A (walking the frame) == receiver B (packet alone, exact length)
//      == independent semantic model (outcome, delivered PDU bytes, label, protocol type, extensions),
//      consumed == packet length; peek alone and framed == expected (frag id / wire label / re-use error)
//      and == label reported by decap; padding status consumes the tail (11286x), single trailing byte
//      (6240x), garbage tails walked with bounds (6138x); A.memory == B.memory after every frame.
//      284445 twin comparisons, 168595 model comparisons (model switched off after the first garbage
//      tail of a trial), 568890 peeks.  Outcomes: 62727 delivered, 48724 fragment accepted, refusals:
//      20211 no label, 14035 unknown ext, 34796 underflow, 120 overflow on hand-back, 32214 size,
//      70868 unknown frag id, 303 total length, 447 CRC.
//  f2  decap + peek totality: all 65536 fixed headers x 6 adversarial tails (zeros, 0xFF, optional
//      extension ids to the end, total length 0xFFFF, random, known mandatory ids) x truncations
//      {2..14, announced-3..announced+2, +7, whole} x 30 receiver states (6 memory shapes x no context /
//      contexts saved through the public memory on same, aliasing, other, random frag ids with storages
//      smaller than claimed x remembered label or not), then a full walk of the 4202 byte buffer; all
//      strings of length 0..=3 in the 30 states; 514418780 decap calls; bounds 2<=consumed<=len.
//  f3  peek == byte-level reference model for all 65536 headers x lengths 0..=16 x 2 tails (2228224 calls).
//  f4  400000 valid PDUs -> packets mutated (0..3 byte/bit changes, 10% truncated) followed by 0..39
//      zero/garbage bytes vs alone, "nasty" manager (every id<256 Final(n)/NonFinal(n)/Unknown),
//      955324 decap calls: every framed/alone difference is a whole-buffer consumption or a truncation.
//  f5  exhaustive small domain: 6 label cases (6B, 3B, broadcast, explicit re-use, automatic re-use 6B/3B)
//      x 7 chains x PDU 0..=20 x first buffer 0..=56 x following buffers 4..=13, 0..3 padding bytes:
//      843318 packets walked and peeked, 336060 PDUs delivered with exact bytes/label/type/extensions.
//  f6  bounded-exhaustive receiver histories: 19 symbols (14 encapsulator packets: complete 6B / re-use /
//      broadcast / oversize / unknown ext, first-inter-inter-end, re-use first + end on an aliasing id,
//      first with ext + end, oversize first + end; reset, take storage, provision, 2 padding bytes,
//      single byte) ^ depth 5 x 4 memory shapes = 9904396 sequences, each packet followed by garbage:
//      outcome == model, consumed == packet length.
//  f7  f1's twin walk (no model) with storages of mixed sizes 0..70000 in SimpleGseMemory and in a
//      user-defined GseDecapMemory (exact frag id keys, FIFO storages): 2 x 3000 trials, 290305 packets.
//  f8  extreme sizes end to end (walk + peek + padding): PDU max, max-1, max-2 (and max+1 refused) for
//      6B / 3B / broadcast / explicit re-use / automatic re-use, PDU 4080..=4100, 7 buffer patterns
//      (unbounded, 4096, 4097, 4098, 14+4.., 20/5/4097/7, 300); chains of 1..409 eight-byte optional
//      extensions (header up to the 4097 byte packet limit) x 21 PDU lengths: 244845 packets.
//
// Harness F: peeking and frame walking (C19, C10, C05).
//
// Public API only.  Three parts:
//   1. model-based + twin differential frame walking (sender = real Encapsulator filling real frames,
//      receiver A walks frames, receiver B gets every packet alone in an exact-size buffer, an
//      independent semantic model predicts every outcome, consumption and delivered PDU/label/extensions)
//   2. totality of decap over all 65536 fixed headers x truncations x tails x receiver states
//   3. totality + reference model of get_label_or_frag_id over all fixed headers x lengths
//
// Sizes are scaled with the env var HARNESS_F_SCALE (default 1).
#![allow(dead_code)]
#![allow(clippy::all)]

use dvb_gse_rust::crc::DefaultCrc;
use dvb_gse_rust::gse_decap::{
    DecapContext, DecapError, DecapMemoryError, DecapStatus, Decapsulator, GetLabelorFragIdError,
    GseDecapMemory, LabelorFragId, SimpleGseMemory,
};
use dvb_gse_rust::gse_encap::{ContextFrag, EncapError, EncapMetadata, EncapStatus, Encapsulator};
use dvb_gse_rust::header_extension::{
    Extension, MandatoryHeaderExt, MandatoryHeaderExtensionManager,
};
use dvb_gse_rust::label::Label;

fn scale() -> u64 {
    std::env::var("HARNESS_F_SCALE")
        .ok()
        .and_then(|s| s.parse().ok())
        .unwrap_or(1)
}

// ---------------------------------------------------------------- rng
struct Rng(u64);
impl Rng {
    fn next(&mut self) -> u64 {
        // xorshift64*
        let mut x = self.0;
        x ^= x >> 12;
        x ^= x << 25;
        x ^= x >> 27;
        self.0 = x;
        x.wrapping_mul(0x2545F4914F6CDD1D)
    }
    fn below(&mut self, n: usize) -> usize {
        if n == 0 {
            0
        } else {
            (self.next() % n as u64) as usize
        }
    }
    fn range(&mut self, lo: usize, hi: usize) -> usize {
        lo + self.below(hi - lo + 1)
    }
    fn chance(&mut self, pct: usize) -> bool {
        self.below(100) < pct
    }
    fn bytes(&mut self, n: usize) -> Vec<u8> {
        let mut v = Vec::with_capacity(n);
        while v.len() < n {
            let x = self.next().to_le_bytes();
            for b in x {
                if v.len() < n {
                    v.push(b);
                }
            }
        }
        v
    }
}

// ---------------------------------------------------------------- extension manager shared by both ends
#[derive(Clone, Copy)]
struct TableManager;
fn table(id: u16) -> MandatoryHeaderExt {
    match id {
        0x01 => MandatoryHeaderExt::NonFinal(0),
        0x02 => MandatoryHeaderExt::NonFinal(3),
        0x10 => MandatoryHeaderExt::NonFinal(200),
        0x81 => MandatoryHeaderExt::Final(0),
        0x83 => MandatoryHeaderExt::Final(5),
        _ => MandatoryHeaderExt::Unknown,
    }
}
impl MandatoryHeaderExtensionManager for TableManager {
    fn is_mandatory_header_id_known(&self, id: u16) -> MandatoryHeaderExt {
        table(id)
    }
}

type Dec = Decapsulator<SimpleGseMemory, DefaultCrc, TableManager>;

// ---------------------------------------------------------------- sender side bookkeeping
struct TxPdu {
    bytes: Vec<u8>,
    ptype: u16,
    label: Label,
    exts: Vec<Extension>,
    via_ext: bool,
    crc: u32,
}

#[derive(Clone, Copy, PartialEq, Eq, Debug)]
enum Kind {
    Complete,
    First,
    Inter,
    End,
}

#[derive(Clone, Debug)]
struct Pkt {
    bytes: Vec<u8>,
    kind: Kind,
    frag_id: u8,
    pdu: usize,
    n: usize,    // pdu bytes carried
    wire: Label, // label as it appears on the wire (ReUse when replaced or explicit)
}

impl Pkt {
    fn payload_range(&self) -> (usize, usize) {
        match self.kind {
            Kind::Complete | Kind::First => (self.bytes.len() - self.n, self.bytes.len()),
            Kind::Inter => (3, 3 + self.n),
            Kind::End => (3, 3 + self.n),
        }
    }
}

fn rand_label(r: &mut Rng, pool: &[Label]) -> Label {
    match r.below(10) {
        0 => Label::Broadcast,
        1 => Label::ReUse,
        2 => {
            let b = r.bytes(3);
            Label::ThreeBytesLabel([b[0], b[1], b[2]])
        }
        3 => Label::ThreeBytesLabel([0, 0, 0]),
        _ => pool[r.below(pool.len())],
    }
}

fn rand_exts(r: &mut Rng) -> (Vec<Extension>, u16) {
    // returns (chain, protocol type)
    let n = r.range(1, 4);
    let mut v = vec![];
    for _ in 0..n {
        match r.below(12) {
            0 => v.push(Extension::new(0x01, &[]).unwrap()),
            1 => v.push(Extension::new(0x02, &r.bytes(3)).unwrap()),
            2 => {
                if r.chance(20) {
                    v.push(Extension::new(0x10, &r.bytes(200)).unwrap())
                } else {
                    v.push(Extension::new(0x01, &[]).unwrap())
                }
            }
            3 => {
                // unknown mandatory
                if r.chance(30) {
                    let k = r.below(7);
                    v.push(Extension::new(0x55, &r.bytes(k)).unwrap())
                } else {
                    v.push(Extension::new(0x0100 | r.below(256) as u16, &[]).unwrap())
                }
            }
            _ => {
                let h = r.range(1, 5);
                let len = [0, 0, 2, 4, 6, 8][h];
                let id = ((h as u16) << 8) | r.below(256) as u16;
                v.push(Extension::new(id, &r.bytes(len)).unwrap())
            }
        }
    }
    let ptype = match r.below(10) {
        0 => {
            v.push(Extension::new(0x81, &[]).unwrap());
            0x81
        }
        1 => {
            v.push(Extension::new(0x83, &r.bytes(5)).unwrap());
            0x83
        }
        2 => {
            if r.chance(30) {
                let k = r.below(5);
                v.push(Extension::new(0x42, &r.bytes(k)).unwrap());
                0x42
            } else {
                0x0600
            }
        }
        3 => 0x0600,
        4 => 0xFFFF,
        _ => 0x0600 + r.below(0xFA00) as u16,
    };
    (v, ptype)
}

fn first_unknown(exts: &[Extension]) -> bool {
    for e in exts {
        if e.id() < 0x100 {
            match table(e.id()) {
                MandatoryHeaderExt::Unknown => return true,
                MandatoryHeaderExt::Final(_) => return false,
                MandatoryHeaderExt::NonFinal(_) => {}
            }
        }
    }
    false
}

// ---------------------------------------------------------------- receiver model
#[derive(Clone, Debug, PartialEq)]
enum E {
    NoLabel,
    UnknownExt,
    Underflow,
    Overflow,
    SizePdu,
    UndefinedId,
    TotalLen,
    Crc,
    SizeBuffer,
}

#[derive(Clone, Debug, PartialEq)]
enum Exp {
    Done {
        pdu: Vec<u8>,
        ptype: u16,
        label: Label,
        exts: Vec<Extension>,
    },
    Frag {
        ptype: u16,
        label: Label,
        exts: Vec<Extension>,
    },
    Padding,
    Err(E),
}

struct Ctx {
    frag_id: u8,
    pdu: usize,
    label: Label,
    from_reuse: bool,
    ptype: u16,
    exts: Vec<Extension>,
    total_len: usize,
    got: Vec<u8>,
}

struct Model {
    slots: Vec<Option<Ctx>>,
    count: usize,
    cap: usize,
    s: usize,
    last: Option<Label>,
}

impl Model {
    fn give_back(&mut self) -> Result<(), E> {
        if self.count == self.cap {
            Err(E::Overflow)
        } else {
            self.count += 1;
            Ok(())
        }
    }
    fn drop_pending(&mut self, frag_id: u8) -> Result<(), E> {
        let idx = frag_id as usize % self.slots.len();
        let same = matches!(&self.slots[idx], Some(c) if c.frag_id == frag_id);
        if same {
            self.slots[idx] = None;
            self.give_back()
        } else {
            Ok(())
        }
    }
    fn rx_exts_ptype(pdu: &TxPdu) -> (Vec<Extension>, u16, bool) {
        // (extensions seen by the receiver, protocol type, refused for unknown mandatory)
        if pdu.via_ext {
            (pdu.exts.clone(), pdu.ptype, first_unknown(&pdu.exts))
        } else if pdu.ptype < 0x100 {
            match table(pdu.ptype) {
                MandatoryHeaderExt::Final(0) => (
                    vec![Extension::new(pdu.ptype, &[]).unwrap()],
                    pdu.ptype,
                    false,
                ),
                MandatoryHeaderExt::Unknown => (vec![], pdu.ptype, true),
                _ => panic!("generator must not produce this"),
            }
        } else {
            (vec![], pdu.ptype, false)
        }
    }

    fn rx(&mut self, p: &Pkt, pdus: &[TxPdu]) -> Exp {
        let (a, b) = p.payload_range();
        let payload = &p.bytes[a..b];
        match p.kind {
            Kind::Complete => {
                let pdu = &pdus[p.pdu];
                let (exts, ptype, unknown) = Self::rx_exts_ptype(pdu);
                if unknown {
                    self.last = None;
                    return Exp::Err(E::UnknownExt);
                }
                let label = match p.wire {
                    Label::ReUse => match self.last {
                        None => {
                            return Exp::Err(E::NoLabel);
                        }
                        Some(l) => l,
                    },
                    Label::Broadcast => {
                        self.last = None;
                        Label::Broadcast
                    }
                    l => {
                        self.last = Some(l);
                        l
                    }
                };
                if self.count == 0 {
                    self.last = None;
                    return Exp::Err(E::Underflow);
                }
                if self.s < payload.len() {
                    self.last = None;
                    return Exp::Err(E::SizePdu);
                }
                self.count -= 1;
                Exp::Done {
                    pdu: payload.to_vec(),
                    ptype,
                    label,
                    exts,
                }
            }
            Kind::First => {
                let pdu = &pdus[p.pdu];
                let (exts, ptype, unknown) = Self::rx_exts_ptype(pdu);
                let label = match p.wire {
                    Label::ReUse => match self.last {
                        None => {
                            if let Err(e) = self.drop_pending(p.frag_id) {
                                return Exp::Err(e);
                            }
                            return Exp::Err(E::NoLabel);
                        }
                        Some(l) => l,
                    },
                    Label::Broadcast => {
                        self.last = None;
                        Label::Broadcast
                    }
                    l => {
                        self.last = Some(l);
                        l
                    }
                };
                if unknown {
                    self.last = None;
                    if let Err(e) = self.drop_pending(p.frag_id) {
                        return Exp::Err(e);
                    }
                    return Exp::Err(E::UnknownExt);
                }
                let idx = p.frag_id as usize % self.slots.len();
                if self.slots[idx].is_some() {
                    self.slots[idx] = None; // evicted, its storage is re-used
                } else if self.count == 0 {
                    self.last = None;
                    return Exp::Err(E::Underflow);
                } else {
                    self.count -= 1;
                }
                if self.s < payload.len() {
                    self.last = None;
                    if let Err(e) = self.give_back() {
                        return Exp::Err(e);
                    }
                    return Exp::Err(E::SizePdu);
                }
                let wire_len = match p.wire {
                    Label::SixBytesLabel(_) => 6,
                    Label::ThreeBytesLabel(_) => 3,
                    _ => 0,
                };
                self.slots[idx] = Some(Ctx {
                    frag_id: p.frag_id,
                    pdu: p.pdu,
                    label,
                    from_reuse: p.wire == Label::ReUse,
                    ptype,
                    exts: exts.clone(),
                    total_len: pdu.bytes.len() + 2 + wire_len,
                    got: payload.to_vec(),
                });
                Exp::Frag { ptype, label, exts }
            }
            Kind::Inter => {
                let idx = p.frag_id as usize % self.slots.len();
                let same = matches!(&self.slots[idx], Some(c) if c.frag_id == p.frag_id);
                if !same {
                    return Exp::Err(E::UndefinedId);
                }
                let mut c = self.slots[idx].take().unwrap();
                if self.s - c.got.len() < payload.len() {
                    if let Err(e) = self.give_back() {
                        return Exp::Err(e);
                    }
                    return Exp::Err(E::SizePdu);
                }
                if c.got.len() + payload.len() > 65535 {
                    if let Err(e) = self.give_back() {
                        return Exp::Err(e);
                    }
                    return Exp::Err(E::TotalLen);
                }
                c.got.extend_from_slice(payload);
                let r = Exp::Frag {
                    ptype: c.ptype,
                    label: c.label,
                    exts: c.exts.clone(),
                };
                self.slots[idx] = Some(c);
                r
            }
            Kind::End => {
                let idx = p.frag_id as usize % self.slots.len();
                let same = matches!(&self.slots[idx], Some(c) if c.frag_id == p.frag_id);
                if !same {
                    return Exp::Err(E::UndefinedId);
                }
                let mut c = self.slots[idx].take().unwrap();
                if self.s - c.got.len() < payload.len() {
                    if let Err(e) = self.give_back() {
                        return Exp::Err(e);
                    }
                    return Exp::Err(E::SizePdu);
                }
                c.got.extend_from_slice(payload);
                let first_label_len = if c.from_reuse {
                    0
                } else {
                    match c.label {
                        Label::SixBytesLabel(_) => 6,
                        Label::ThreeBytesLabel(_) => 3,
                        _ => 0,
                    }
                };
                if c.total_len != c.got.len() + 2 + first_label_len {
                    if let Err(e) = self.give_back() {
                        return Exp::Err(e);
                    }
                    return Exp::Err(E::TotalLen);
                }
                let crc_field = u32::from_be_bytes(p.bytes[b..b + 4].try_into().unwrap());
                let origin = &pdus[c.pdu];
                if c.got != origin.bytes || crc_field != origin.crc {
                    if let Err(e) = self.give_back() {
                        return Exp::Err(e);
                    }
                    return Exp::Err(E::Crc);
                }
                Exp::Done {
                    pdu: c.got,
                    ptype: c.ptype,
                    label: c.label,
                    exts: c.exts,
                }
            }
        }
    }
}

fn observe(res: Result<(DecapStatus, usize), (DecapError, usize)>) -> (Exp, usize) {
    match res {
        Ok((DecapStatus::CompletedPkt(b, m), n)) => (
            Exp::Done {
                pdu: b[..m.pdu_len()].to_vec(),
                ptype: m.protocol_type(),
                label: m.label(),
                exts: m.extensions().clone(),
            },
            n,
        ),
        Ok((DecapStatus::FragmentedPkt(m), n)) => {
            assert_eq!(m.pdu_len(), 0);
            (
                Exp::Frag {
                    ptype: m.protocol_type(),
                    label: m.label(),
                    exts: m.extensions().clone(),
                },
                n,
            )
        }
        Ok((DecapStatus::Padding, n)) => (Exp::Padding, n),
        Err((e, n)) => {
            let k = match e {
                DecapError::ErrorNoLabelSaved => E::NoLabel,
                DecapError::ErrorUnkownMandatoryHeader => E::UnknownExt,
                DecapError::ErrorMemory(DecapMemoryError::StorageUnderflow) => E::Underflow,
                DecapError::ErrorMemory(DecapMemoryError::StorageOverflow(_)) => E::Overflow,
                DecapError::ErrorMemory(DecapMemoryError::UndefinedId) => E::UndefinedId,
                DecapError::ErrorSizePduBuffer => E::SizePdu,
                DecapError::ErrorTotalLength => E::TotalLen,
                DecapError::ErrorCrc => E::Crc,
                DecapError::ErrorSizeBuffer => E::SizeBuffer,
                other => panic!("unexpected error kind {:?}", other),
            };
            (Exp::Err(k), n)
        }
    }
}

fn checked_decap<M: GseDecapMemory>(d: &mut Decapsulator<M, DefaultCrc, TableManager>, buf: &[u8]) -> Result<(DecapStatus, usize), (DecapError, usize)> {
    let r = d.decap(buf);
    let n = match &r {
        Ok((_, n)) => *n,
        Err((_, n)) => *n,
    };
    assert!(n <= buf.len(), "consumed {} > buffer {}", n, buf.len());
    if !buf.is_empty() {
        assert!(n >= buf.len().min(2), "consumed {} on buffer {}", n, buf.len());
    }
    r
}

#[derive(Default, Debug)]
struct Stats {
    trials: u64,
    frames: u64,
    frames_lost: u64,
    pkts: [u64; 4],
    outcomes_done: u64,
    outcomes_frag: u64,
    err_nolabel: u64,
    err_unknown_ext: u64,
    err_underflow: u64,
    err_overflow: u64,
    err_sizepdu: u64,
    err_undefined: u64,
    err_total: u64,
    err_crc: u64,
    paddings: u64,
    single_trailing: u64,
    garbage_tails: u64,
    garbage_calls: u64,
    peeks: u64,
    deleted: u64,
    corrupted: u64,
    model_compared: u64,
    twin_compared: u64,
    max_frame: usize,
    max_pkts_in_frame: usize,
    ext_pkts: u64,
    reuse_pkts: u64,
}

fn new_dec(slots: usize, s: usize, max_pdu: usize, provision: usize) -> Dec {
    let mut m = SimpleGseMemory::new(slots, max_pdu, 0, 0);
    for _ in 0..provision {
        m.provision_storage(vec![0u8; s].into_boxed_slice()).unwrap();
    }
    Decapsulator::new(m, DefaultCrc, TableManager)
}

fn check_peek<M: GseDecapMemory>(d: &Decapsulator<M, DefaultCrc, TableManager>, p: &Pkt, framed: &[u8], st: &mut Stats) {
    let exp: Result<LabelorFragId, GetLabelorFragIdError> = match p.kind {
        Kind::Inter | Kind::End => Ok(LabelorFragId::FragId(p.frag_id)),
        _ => match p.wire {
            Label::ReUse => Err(GetLabelorFragIdError::ErrLabelReuse),
            l => Ok(LabelorFragId::Lbl(l)),
        },
    };
    assert_eq!(d.get_label_or_frag_id(&p.bytes), exp, "peek alone {:?}", p.kind);
    assert_eq!(d.get_label_or_frag_id(framed), exp, "peek framed {:?}", p.kind);
    st.peeks += 2;
}

fn one_trial<M: GseDecapMemory + PartialEq>(seed: u64, st: &mut Stats, var: bool) {
    let mut r = Rng(seed | 1);
    st.trials += 1;

    // ---- receiver configuration
    let slots = [1usize, 1, 2, 3, 4, 8, 256][r.below(7)];
    let s = [0usize, 8, 40, 300, 5000, 70000, 70000, 70000][r.below(8)];
    let max_pdu = if r.chance(50) { s } else { r.below(s + 1) };
    let cap = slots + 2;
    let provision = if r.chance(60) { cap } else { r.below(cap + 1) };
    let max_pdu = if var { 0 } else { max_pdu };
    let mut szr = Rng(seed ^ 0x5555);
    let mut sz = move || -> usize {
        if var {
            match szr.below(6) {
                0 => 0,
                1 => szr.below(20),
                2 => szr.below(400),
                3 => szr.below(6000),
                _ => 70000,
            }
        } else {
            s
        }
    };
    let mut ma = M::new(slots, max_pdu, 0, 0);
    let mut mb = M::new(slots, max_pdu, 0, 0);
    for _ in 0..provision {
        let z = sz();
        ma.provision_storage(vec![0u8; z].into_boxed_slice()).unwrap();
        mb.provision_storage(vec![0u8; z].into_boxed_slice()).unwrap();
    }
    let mut a = Decapsulator::new(ma, DefaultCrc, TableManager);
    let mut b = Decapsulator::new(mb, DefaultCrc, TableManager);
    let mut model = Model {
        slots: (0..slots).map(|_| None).collect(),
        count: provision,
        cap,
        s,
        last: None,
    };
    let mut model_on = !var;
    let reprovision_pct = [100usize, 100, 90, 50, 0][r.below(5)];

    // ---- sender configuration
    let mut enc = Encapsulator::new(DefaultCrc);
    match r.below(4) {
        0 => enc.disable_re_use_label(),
        1 => enc.enable_re_use_label_with_max_consecutive(r.range(1, 3) as u8),
        _ => {}
    }
    let l6 = r.bytes(6);
    let pool = [
        Label::SixBytesLabel([l6[0], l6[1], l6[2], l6[3], l6[4], l6[5] | 1]),
        Label::SixBytesLabel([0, 0, 0, 0, 0, 1]),
        Label::ThreeBytesLabel([l6[0], l6[1], l6[2]]),
        Label::SixBytesLabel([l6[0], l6[1], l6[2], l6[3], l6[4], l6[5] | 1]),
    ];
    let frag_ids: Vec<u8> = match r.below(3) {
        0 => vec![0],
        1 => vec![0, 1, 2, 3, 255, 254],
        _ => (0..6).map(|_| r.below(256) as u8).collect(),
    };
    let size_class = r.below(4);
    let max_flight = r.range(1, 4);
    let mut pdus: Vec<TxPdu> = vec![];
    let mut flight: Vec<(usize, ContextFrag)> = vec![];

    let nframes = r.range(1, 12);
    for _f in 0..nframes {
        // ---- build a frame with the real encapsulator
        let fsize = match r.below(10) {
            0 => r.range(2, 12),
            1 | 2 => r.range(2, 60),
            3 | 4 | 5 => r.range(2, 600),
            6 | 7 => r.range(2, 6000),
            _ => r.range(2, 70000),
        };
        let mut frame = vec![0u8; fsize];
        let mut off = 0usize;
        let mut pkts: Vec<Pkt> = vec![];
        let reset_mode = r.below(10);
        if reset_mode < 8 {
            enc.reset_last_label();
        }
        if r.chance(3) {
            match r.below(3) {
                0 => enc.disable_re_use_label(),
                1 => enc.enable_re_use_label(),
                _ => enc.enable_re_use_label_with_max_consecutive(r.range(1, 4) as u8),
            }
        }
        let mut fails = 0;
        while off < fsize && fails < 3 {
            if r.chance(3) {
                break;
            }
            let rem = fsize - off;
            let sub = if r.chance(55) {
                rem.min(r.range(4, 120))
            } else if r.chance(50) {
                rem.min(r.range(4, 5000))
            } else {
                rem
            };
            let cont = !flight.is_empty() && (flight.len() >= max_flight || r.chance(65));
            if cont {
                let i = r.below(flight.len());
                let (pi, ctx) = flight[i];
                match enc.encap_frag(&pdus[pi].bytes, &ctx, &mut frame[off..off + sub]) {
                    Ok(EncapStatus::CompletedPkt(n)) => {
                        let n = n as usize;
                        let carried = pdus[pi].bytes.len() - ctx.len_pdu_frag() as usize;
                        assert_eq!(n, 2 + 1 + carried + 4);
                        pkts.push(Pkt {
                            bytes: frame[off..off + n].to_vec(),
                            kind: Kind::End,
                            frag_id: ctx.frag_id(),
                            pdu: pi,
                            n: carried,
                            wire: Label::ReUse,
                        });
                        off += n;
                        flight.remove(i);
                    }
                    Ok(EncapStatus::FragmentedPkt(n, nctx)) => {
                        let n = n as usize;
                        let carried = (nctx.len_pdu_frag() - ctx.len_pdu_frag()) as usize;
                        assert_eq!(n, 3 + carried);
                        assert!(carried > 0);
                        pkts.push(Pkt {
                            bytes: frame[off..off + n].to_vec(),
                            kind: Kind::Inter,
                            frag_id: ctx.frag_id(),
                            pdu: pi,
                            n: carried,
                            wire: Label::ReUse,
                        });
                        off += n;
                        flight[i].1 = nctx;
                    }
                    Err(EncapError::ErrorSizeBuffer) => {
                        fails += 1;
                    }
                    Err(e) => panic!("encap_frag {:?}", e),
                }
            } else {
                // new PDU
                let len = match (size_class, r.below(10)) {
                    (_, 0) => 0,
                    (0, _) => r.below(30),
                    (1, _) => r.below(400),
                    (2, _) => r.below(6000),
                    (_, 1) => 65535 - 8 - r.below(3),
                    (_, 2) => r.range(4080, 4100),
                    (_, _) => r.below(30000),
                };
                let bytes = r.bytes(len);
                let label = rand_label(&mut r, &pool);
                let frag_id = frag_ids[r.below(frag_ids.len())];
                let use_ext = r.chance(35);
                let (exts, ptype, via_ext) = if use_ext {
                    let (e, p) = rand_exts(&mut r);
                    (e, p, true)
                } else {
                    let p = match r.below(12) {
                        0 => 0x0081,
                        1 => 0x0042,
                        2 => 0x0600,
                        3 => 0xFFFF,
                        _ => 0x0600 + r.below(0xFA00) as u16,
                    };
                    (vec![], p, false)
                };
                let md = EncapMetadata::new(ptype, label);
                let res = if via_ext {
                    enc.encap_ext(&bytes, frag_id, md, &mut frame[off..off + sub], exts.clone())
                } else {
                    enc.encap(&bytes, frag_id, md, &mut frame[off..off + sub])
                };
                match res {
                    Ok(status) => {
                        let (n, kind, crc, carried, ctx) = match status {
                            EncapStatus::CompletedPkt(n) => {
                                (n as usize, Kind::Complete, 0, bytes.len(), None)
                            }
                            EncapStatus::FragmentedPkt(n, c) => (
                                n as usize,
                                Kind::First,
                                c.crc(),
                                c.len_pdu_frag() as usize,
                                Some(c),
                            ),
                        };
                        assert!(n <= sub);
                        let lt = (frame[off] >> 4) & 3;
                        let wire = if lt == 3 { Label::ReUse } else { label };
                        match (lt, label) {
                            (0, Label::SixBytesLabel(_))
                            | (1, Label::ThreeBytesLabel(_))
                            | (2, Label::Broadcast) => {}
                            (3, Label::Broadcast) => panic!("broadcast replaced by re-use"),
                            (3, _) => {}
                            _ => panic!("label type bits {} for {:?}", lt, label),
                        }
                        if via_ext {
                            st.ext_pkts += 1;
                        }
                        if lt == 3 {
                            st.reuse_pkts += 1;
                        }
                        let pi = pdus.len();
                        pdus.push(TxPdu {
                            bytes,
                            ptype,
                            label,
                            exts,
                            via_ext,
                            crc,
                        });
                        pkts.push(Pkt {
                            bytes: frame[off..off + n].to_vec(),
                            kind,
                            frag_id,
                            pdu: pi,
                            n: carried,
                            wire,
                        });
                        off += n;
                        if let Some(c) = ctx {
                            // a PDU in flight on the same frag id is abandoned by the sender
                            flight.retain(|(_, fc)| fc.frag_id() != frag_id);
                            flight.push((pi, c));
                        }
                    }
                    Err(EncapError::ErrorSizeBuffer) => fails += 1,
                    Err(EncapError::ErrorPduLength) => fails += 1,
                    Err(e) => panic!("encap {:?}", e),
                }
            }
        }
        // the encapsulator never emits something that reads as padding; it never touches bytes behind
        for p in &pkts {
            assert!(p.bytes[0] >> 4 != 0, "packet reads as padding");
            st.pkts[p.kind as usize] += 1;
        }
        assert!(frame[off..].iter().all(|&x| x == 0));
        st.frames += 1;
        st.max_frame = st.max_frame.max(fsize);
        st.max_pkts_in_frame = st.max_pkts_in_frame.max(pkts.len());

        if r.chance(4) {
            st.frames_lost += 1;
            continue;
        }

        // ---- mutate: deletions / corruptions
        let mutate = r.chance(30);
        let mut kept: Vec<Pkt> = vec![];
        for p in pkts {
            if mutate && r.chance(8) {
                st.deleted += 1;
                continue;
            }
            let mut p = p;
            if mutate && r.chance(6) {
                let (x, y) = p.payload_range();
                if p.kind == Kind::End && r.chance(50) {
                    let i = y + r.below(4);
                    p.bytes[i] ^= 1 << r.below(8);
                    st.corrupted += 1;
                } else if y > x {
                    let i = x + r.below(y - x);
                    p.bytes[i] ^= 1 << r.below(8);
                    st.corrupted += 1;
                }
            }
            kept.push(p);
        }
        // ---- assemble the received frame
        let used: usize = kept.iter().map(|p| p.bytes.len()).sum();
        let mut rx: Vec<u8> = Vec::with_capacity(used + 16);
        for p in &kept {
            rx.extend_from_slice(&p.bytes);
        }
        // tail
        let tail_mode = r.below(12);
        let tail_start = rx.len();
        let mut garbage = false;
        match tail_mode {
            0 => {}
            1 => rx.push(0),
            2 => {
                rx.push(r.below(256) as u8);
            }
            3 => {
                let n = r.range(2, 200);
                rx.extend(r.bytes(n));
                garbage = true;
            }
            4 => {
                let z = r.range(0, 3);
                rx.extend(std::iter::repeat(0).take(z));
                // 0..3 zeros then garbage: the zeros read as padding only if >= 2 of them lead
                let n = r.range(1, 5000);
                rx.extend(r.bytes(n));
                garbage = true;
            }
            5 => rx.extend([0u8, 0]),
            _ => {
                let want = fsize.max(tail_start);
                rx.resize(want, 0);
            }
        }
        if rx.is_empty() {
            continue;
        }

        if reset_mode < 7 || reset_mode == 8 {
            a.reset_last_label();
            b.reset_last_label();
            model.last = None;
        }

        // ---- walk
        let mut pos = 0usize;
        for p in &kept {
            check_peek(&a, p, &rx[pos..], st);
            let ra = checked_decap(&mut a, &rx[pos..]);
            let rb = checked_decap(&mut b, &p.bytes);
            let (oa, na) = observe(ra);
            let (ob, nb) = observe(rb);
            assert_eq!(oa, ob, "framed vs alone differ, kind {:?} seed {}", p.kind, seed);
            assert_eq!(na, nb, "consumed framed vs alone, seed {}", seed);
            assert_eq!(na, p.bytes.len(), "consumed != packet length ({:?}, {:?}) seed {}", p.kind, oa, seed);
            st.twin_compared += 1;
            if model_on {
                let em = model.rx(p, &pdus);
                assert_eq!(oa, em, "model mismatch kind {:?} seed {}", p.kind, seed);
                st.model_compared += 1;
            }
            // peek agrees with decap
            match (&oa, p.kind) {
                (Exp::Done { label, .. }, Kind::Complete) | (Exp::Frag { label, .. }, Kind::First) => {
                    if p.wire != Label::ReUse {
                        assert_eq!(
                            a.get_label_or_frag_id(&p.bytes),
                            Ok(LabelorFragId::Lbl(*label))
                        );
                    }
                }
                _ => {}
            }
            match &oa {
                Exp::Done { .. } => {
                    st.outcomes_done += 1;
                    if r.chance(reprovision_pct) {
                        let z = sz();
                        let x = a.provision_storage(vec![0u8; z].into_boxed_slice()).is_ok();
                        let y = b.provision_storage(vec![0u8; z].into_boxed_slice()).is_ok();
                        assert_eq!(x, y);
                        if model_on {
                            assert_eq!(x, model.count < model.cap);
                        }
                        if x && model_on {
                            model.count += 1;
                        }
                    }
                }
                Exp::Frag { .. } => st.outcomes_frag += 1,
                Exp::Padding => panic!("packet read as padding"),
                Exp::Err(e) => match e {
                    E::NoLabel => st.err_nolabel += 1,
                    E::UnknownExt => st.err_unknown_ext += 1,
                    E::Underflow => st.err_underflow += 1,
                    E::Overflow => st.err_overflow += 1,
                    E::SizePdu => st.err_sizepdu += 1,
                    E::UndefinedId => st.err_undefined += 1,
                    E::TotalLen => st.err_total += 1,
                    E::Crc => st.err_crc += 1,
                    E::SizeBuffer => panic!("size buffer on a whole packet"),
                },
            }
            pos += na;
            // occasional storage juggling through the public API
            if r.chance(2) {
                let z = sz();
                let x = a.provision_storage(vec![0u8; z].into_boxed_slice()).is_ok();
                let y = b.provision_storage(vec![0u8; z].into_boxed_slice()).is_ok();
                assert_eq!(x, y);
                if model_on {
                    assert_eq!(x, model.count < model.cap);
                }
                if x && model_on {
                    model.count += 1;
                }
            } else if r.chance(1) {
                let x = a.new_pdu().is_ok();
                let y = b.new_pdu().is_ok();
                assert_eq!(x, y);
                if model_on {
                    assert_eq!(x, model.count > 0);
                }
                if x && model_on {
                    model.count -= 1;
                }
            }
        }
        assert_eq!(pos, tail_start);
        // ---- the tail
        let tail = &rx[tail_start..];
        if !garbage {
            if tail.len() >= 2 {
                let (oa, na) = observe(checked_decap(&mut a, tail));
                let (ob, nb) = observe(checked_decap(&mut b, tail));
                assert_eq!(oa, Exp::Padding);
                assert_eq!(na, tail.len());
                assert_eq!((oa, na), (ob, nb));
                model.last = None;
                st.paddings += 1;
                assert_eq!(
                    a.get_label_or_frag_id(tail),
                    Err(GetLabelorFragIdError::ErrHeaderRead)
                );
            } else if tail.len() == 1 {
                let (oa, na) = observe(checked_decap(&mut a, tail));
                let (ob, nb) = observe(checked_decap(&mut b, tail));
                assert_eq!(oa, Exp::Err(E::SizeBuffer));
                assert_eq!(na, 1);
                assert_eq!((oa, na), (ob, nb));
                model.last = None;
                st.single_trailing += 1;
                assert_eq!(
                    a.get_label_or_frag_id(tail),
                    Err(GetLabelorFragIdError::ErrSizeBuffer)
                );
            }
        } else {
            st.garbage_tails += 1;
            model_on = false;
            let mut q = 0usize;
            let mut calls = 0usize;
            while q < tail.len() {
                let _ = a.get_label_or_frag_id(&tail[q..]);
                let ra = a.decap(&tail[q..]);
                let rb = b.decap(&tail[q..]);
                assert_eq!(ra, rb);
                let n = match &ra {
                    Ok((_, n)) => *n,
                    Err((_, n)) => *n,
                };
                assert!(n <= tail.len() - q);
                assert!(n >= (tail.len() - q).min(2));
                if let Ok((DecapStatus::CompletedPkt(..), _)) = ra {
                    let z = sz();
                    let _ = a.provision_storage(vec![0u8; z].into_boxed_slice());
                    let _ = b.provision_storage(vec![0u8; z].into_boxed_slice());
                }
                q += n;
                calls += 1;
                assert!(calls <= tail.len());
            }
            assert_eq!(q, tail.len());
            st.garbage_calls += calls as u64;
        }
        // the public memory of both receivers must be identical
        assert!(a.memory == b.memory, "memories diverged, seed {}", seed);
    }
}

#[test]
fn f1_model_and_twin_frame_walk() {
    let mut st = Stats::default();
    let trials = 6000 * scale();
    for t in 0..trials {
        one_trial::<SimpleGseMemory>(0x9E3779B97F4A7C15u64.wrapping_mul(t + 1), &mut st, false);
    }
    println!("{:#?}", st);
}

// ---------------------------------------------------------------- part 2: totality on arbitrary bytes
fn state(i: usize, r: &mut Rng) -> Dec {
    // a family of receiver states
    let (slots, s, prov) = match i % 6 {
        0 => (1, 16, 0),
        1 => (1, 16, 3),
        2 => (2, 4096, 4),
        3 => (3, 0, 5),
        4 => (256, 64, 10),
        _ => (2, 70000, 4),
    };
    let mut d = new_dec(slots, s, 0, prov);
    // open contexts through the public memory (same / aliasing / other frag ids)
    let variant = i / 6;
    if variant >= 1 {
        for k in 0..3u8 {
            let fid = match variant % 4 {
                1 => k,
                2 => k.wrapping_mul(slots as u8).wrapping_add(1),
                3 => 255 - k,
                _ => r.below(256) as u8,
            };
            let store = vec![0u8; s].into_boxed_slice();
            let got = r.below(s + 1).min(65535) as u16;
            let ctx = DecapContext::new(
                [Label::Broadcast, Label::SixBytesLabel([1, 2, 3, 4, 5, 6]), Label::ThreeBytesLabel([0, 0, 0])][k as usize % 3],
                0x0800,
                fid,
                r.below(65536) as u16,
                got,
                k == 1,
                vec![],
            );
            let _ = d.memory.save_frag((ctx, store));
        }
    }
    // a remembered label
    if i % 2 == 1 {
        let mut pkt = vec![0xC0u8, 0x08, 0x12, 0x34, 9, 9, 9, 9, 9, 9];
        pkt[1] = 8;
        let _ = d.decap(&pkt);
        let _ = d.provision_storage(vec![0u8; s].into_boxed_slice());
    }
    d
}

#[test]
fn f2_totality_all_headers() {
    let mut r = Rng(0xF00D_F00D_1234_5678);
    let mut calls = 0u64;
    let nstates = 6 * 5;
    let stride = if scale() >= 4 { 1 } else { 1 };
    let tails: Vec<Vec<u8>> = vec![
        vec![0u8; 4200],
        vec![0xFFu8; 4200],
        {
            // extension ids all the way
            let mut v = vec![];
            for i in 0..2100 {
                v.extend([(1 + (i % 5)) as u8, i as u8]);
            }
            v
        },
        {
            let mut v = vec![0x07, 0xFF, 0xFF, 0x00, 0x01];
            v.extend(r.bytes(4195));
            v
        },
        r.bytes(4200),
        {
            // frag id 0, total length huge, protocol type = mandatory ids known to the table
            let mut v = vec![0x00, 0xFF, 0xFF, 0x00, 0x02, 1, 2, 3, 0x00, 0x81];
            v.extend(r.bytes(4190));
            v
        },
    ];
    for h in (0..=0xFFFFu32).step_by(stride) {
        let gse_len = (h & 0xFFF) as usize;
        let si = (h as usize).wrapping_mul(7) % nstates;
        for (ti, tail) in tails.iter().enumerate() {
            let mut d = state((si + ti) % nstates, &mut r);
            let mut buf = Vec::with_capacity(4300);
            buf.extend((h as u16).to_be_bytes());
            buf.extend_from_slice(tail);
            let full = gse_len + 2;
            let mut lens: Vec<usize> = vec![2, 3, 4, 5, 6, 7, 8, 9, 10, 11, 12, 13, 14];
            for d in [-3i64, -2, -1, 0, 1, 2, 7] {
                let l = full as i64 + d;
                if l >= 2 {
                    lens.push(l as usize);
                }
            }
            lens.push(buf.len());
            for l in lens {
                let l = l.min(buf.len());
                let b = &buf[..l];
                let _ = d.get_label_or_frag_id(b);
                let res = d.decap(b);
                let n = match &res {
                    Ok((_, n)) => *n,
                    Err((_, n)) => *n,
                };
                assert!(n <= l && n >= l.min(2), "hdr {:04x} len {} consumed {}", h, l, n);
                if let Ok((DecapStatus::CompletedPkt(bx, _), _)) = res {
                    let _ = d.provision_storage(bx);
                }
                calls += 1;
            }
            // and a full walk of the buffer
            let mut q = 0;
            let mut steps = 0;
            while q < buf.len() {
                let res = d.decap(&buf[q..]);
                let n = match &res {
                    Ok((_, n)) => *n,
                    Err((_, n)) => *n,
                };
                assert!(n <= buf.len() - q && n >= (buf.len() - q).min(2));
                if let Ok((DecapStatus::CompletedPkt(bx, _), _)) = res {
                    let _ = d.provision_storage(bx);
                }
                q += n;
                steps += 1;
                assert!(steps < 5000);
                calls += 1;
            }
        }
    }
    // lengths 0..=3 exhaustively in every state
    for si in 0..nstates {
        for l in 0..=3usize {
            let total = 1u32 << (8 * l);
            let mut d = state(si, &mut r);
            for v in 0..total {
                let bytes = v.to_be_bytes();
                let b = &bytes[4 - l..];
                if v % 4096 == 4095 {
                    d = state(si, &mut r);
                }
                let _ = d.get_label_or_frag_id(b);
                let res = d.decap(b);
                let n = match &res {
                    Ok((_, n)) => *n,
                    Err((_, n)) => *n,
                };
                assert!(n <= l && n >= l.min(2));
                if let Ok((DecapStatus::CompletedPkt(bx, _), _)) = res {
                    let _ = d.provision_storage(bx);
                }
                calls += 1;
            }
        }
    }
    println!("f2 decap calls: {}", calls);
}

// ---------------------------------------------------------------- part 3: peek reference model
fn peek_model(b: &[u8]) -> Result<LabelorFragId, GetLabelorFragIdError> {
    if b.len() < 2 {
        return Err(GetLabelorFragIdError::ErrSizeBuffer);
    }
    let s = b[0] >> 7 & 1;
    let e = b[0] >> 6 & 1;
    let lt = b[0] >> 4 & 3;
    if s == 0 && e == 0 && lt == 0 {
        return Err(GetLabelorFragIdError::ErrHeaderRead);
    }
    let ll = [6usize, 3, 0, 0][lt as usize];
    if s == 0 {
        if b.len() < 4 + ll {
            return Err(GetLabelorFragIdError::ErrSizeBuffer);
        }
        return Ok(LabelorFragId::FragId(b[2]));
    }
    if lt == 2 {
        return Ok(LabelorFragId::Lbl(Label::Broadcast));
    }
    if lt == 3 {
        return Err(GetLabelorFragIdError::ErrLabelReuse);
    }
    let off = if e == 0 { 7 } else { 4 };
    if b.len() < off + ll {
        return Err(GetLabelorFragIdError::ErrSizeBuffer);
    }
    Ok(LabelorFragId::Lbl(if ll == 6 {
        Label::SixBytesLabel(b[off..off + 6].try_into().unwrap())
    } else {
        Label::ThreeBytesLabel(b[off..off + 3].try_into().unwrap())
    }))
}

#[test]
fn f3_peek_total_and_reference() {
    let d = new_dec(1, 8, 0, 1);
    let mut r = Rng(77);
    let mut n = 0u64;
    for h in 0..=0xFFFFu32 {
        let mut buf = vec![];
        buf.extend((h as u16).to_be_bytes());
        buf.extend(r.bytes(14));
        for l in 0..=buf.len() {
            assert_eq!(d.get_label_or_frag_id(&buf[..l]), peek_model(&buf[..l]), "{:04x} {}", h, l);
            n += 1;
        }
        let z = [(h >> 8) as u8, h as u8, 0, 0, 0, 0, 0, 0, 0, 0, 0, 0, 0, 0, 0, 0];
        for l in 0..=z.len() {
            assert_eq!(d.get_label_or_frag_id(&z[..l]), peek_model(&z[..l]));
            n += 1;
        }
    }
    println!("f3 peeks: {}", n);
}

// ---------------------------------------------------------------- part 4: small-domain exhaustive end to end
#[test]
fn f5_small_exhaustive_end_to_end() {
    let l6 = Label::SixBytesLabel([1, 2, 3, 4, 5, 6]);
    let l3 = Label::ThreeBytesLabel([7, 8, 9]);
    // (label given, prime the encapsulator and receiver with that label first => auto re-use)
    let label_cases: Vec<(Label, bool)> = vec![
        (l6, false),
        (l3, false),
        (Label::Broadcast, false),
        (Label::ReUse, true), // explicit re-use after a primed 6 byte label
        (l6, true),           // automatic re-use
        (l3, true),
    ];
    let chains: Vec<(Vec<Extension>, u16)> = vec![
        (vec![], 0x0800),
        (vec![], 0x0081),
        (vec![Extension::new(0x0100, &[]).unwrap()], 0x0800),
        (vec![Extension::new(0x0205, &[1, 2]).unwrap(), Extension::new(0x81, &[]).unwrap()], 0x81),
        (vec![Extension::new(0x02, &[1, 2, 3]).unwrap()], 0x0800),
        (vec![Extension::new(0x0501, &[1, 2, 3, 4, 5, 6, 7, 8]).unwrap(), Extension::new(0x83, &[5, 4, 3, 2, 1]).unwrap()], 0x83),
        (vec![Extension::new(0x55, &[1]).unwrap()], 0x0800),
    ];
    let mut pkts = 0u64;
    let mut pdus_done = 0u64;
    for (label, primed) in &label_cases {
        for (chain, ptype) in &chains {
            for pdu_len in 0..=20usize {
                let pdu: Vec<u8> = (0..pdu_len).map(|i| (i * 7 + 3) as u8).collect();
                for b1 in 0..=56usize {
                    for b2 in 4..=13usize {
                        let mut enc = Encapsulator::new(DefaultCrc);
                        let mut dec = new_dec(2, 64, 64, 4);
                        let mut frame = vec![0u8; 400];
                        let mut off = 0;
                        let mut exp_label = *label;
                        if *primed {
                            let prime = if *label == Label::ReUse { l6 } else { *label };
                            let n = match enc.encap(b"x", 0, EncapMetadata::new(0x0800, prime), &mut frame[off..off + 20]) {
                                Ok(EncapStatus::CompletedPkt(n)) => n as usize,
                                o => panic!("{:?}", o),
                            };
                            off += n;
                            exp_label = prime;
                        }
                        let start = off;
                        let md = EncapMetadata::new(*ptype, *label);
                        let res = if chain.is_empty() {
                            enc.encap(&pdu, 9, md, &mut frame[off..off + b1])
                        } else {
                            enc.encap_ext(&pdu, 9, md, &mut frame[off..off + b1], chain.clone())
                        };
                        let mut ctx = match res {
                            Err(EncapError::ErrorSizeBuffer) => continue,
                            Err(e) => panic!("{:?}", e),
                            Ok(EncapStatus::CompletedPkt(n)) => {
                                off += n as usize;
                                None
                            }
                            Ok(EncapStatus::FragmentedPkt(n, c)) => {
                                off += n as usize;
                                Some(c)
                            }
                        };
                        assert!(off - start <= b1);
                        let mut guard = 0;
                        while let Some(c) = ctx {
                            let bl = if c.len_pdu_frag() as usize == pdu.len() { b2.max(7) } else { b2 };
                            match enc.encap_frag(&pdu, &c, &mut frame[off..off + bl]) {
                                Ok(EncapStatus::CompletedPkt(n)) => {
                                    off += n as usize;
                                    ctx = None;
                                }
                                Ok(EncapStatus::FragmentedPkt(n, c2)) => {
                                    off += n as usize;
                                    ctx = Some(c2);
                                }
                                Err(e) => panic!("{:?} b2 {} ctx {:?}", e, bl, c),
                            }
                            guard += 1;
                            assert!(guard < 40);
                        }
                        // walk: total frame = packets + padding (variable: 0,1,2.. bytes)
                        let pad = (b1 + b2) % 4;
                        let fr = &frame[..off + pad];
                        let mut q = 0;
                        let mut delivered = None;
                        let mut seen = 0;
                        let unknown = chain.iter().any(|e| e.id() == 0x55);
                        while q < off {
                            let pk = dec.get_label_or_frag_id(&fr[q..]);
                            let r = checked_decap(&mut dec, &fr[q..]);
                            pkts += 1;
                            let hdr = fr[q];
                            let n = 2 + (((hdr as usize) & 0xF) << 8 | fr[q + 1] as usize);
                            let s_bit = hdr & 0x80 != 0;
                            let lt = (hdr >> 4) & 3;
                            if !s_bit {
                                assert_eq!(pk, Ok(LabelorFragId::FragId(9)));
                            } else if q >= start {
                                if *primed {
                                    assert_eq!(lt, 3);
                                    assert_eq!(pk, Err(GetLabelorFragIdError::ErrLabelReuse));
                                } else {
                                    assert_eq!(pk, Ok(LabelorFragId::Lbl(*label)));
                                }
                            }
                            match r {
                                Ok((DecapStatus::CompletedPkt(bx, m), used)) => {
                                    assert_eq!(used, n);
                                    if q >= start {
                                        delivered = Some((bx[..m.pdu_len()].to_vec(), m.clone()));
                                    }
                                    dec.provision_storage(bx).unwrap();
                                }
                                Ok((DecapStatus::FragmentedPkt(m), used)) => {
                                    assert_eq!(used, n);
                                    assert_eq!(m.label(), exp_label);
                                }
                                Ok((DecapStatus::Padding, _)) => panic!("padding inside"),
                                Err((e, used)) => {
                                    assert_eq!(used, n, "{:?}", e);
                                    if unknown && s_bit && q >= start {
                                        assert_eq!(e, DecapError::ErrorUnkownMandatoryHeader);
                                    } else if unknown {
                                        assert_eq!(e, DecapError::ErrorMemory(DecapMemoryError::UndefinedId));
                                    } else {
                                        panic!("unexpected {:?}", e);
                                    }
                                }
                            }
                            q += n;
                            seen += 1;
                        }
                        assert_eq!(q, off);
                        assert!(seen >= 1);
                        if pad >= 2 {
                            assert_eq!(dec.decap(&fr[q..]), Ok((DecapStatus::Padding, pad)));
                        } else if pad == 1 {
                            assert_eq!(dec.decap(&fr[q..]), Err((DecapError::ErrorSizeBuffer, 1)));
                        }
                        if unknown {
                            assert!(delivered.is_none());
                        } else {
                            let (got, m) = delivered.expect("pdu not delivered");
                            assert_eq!(got, pdu);
                            assert_eq!(m.label(), exp_label);
                            assert_eq!(m.protocol_type(), *ptype);
                            let exp_exts = if chain.is_empty() && *ptype == 0x81 {
                                vec![Extension::new(0x81, &[]).unwrap()]
                            } else {
                                chain.clone()
                            };
                            assert_eq!(m.extensions(), &exp_exts);
                            pdus_done += 1;
                        }
                    }
                }
            }
        }
    }
    println!("f5 packets walked: {}, pdus delivered: {}", pkts, pdus_done);
}

// ---------------------------------------------------------------- part 5: mutated valid packets, nasty manager, alone vs followed
#[derive(Clone, Copy)]
struct NastyManager;
impl MandatoryHeaderExtensionManager for NastyManager {
    fn is_mandatory_header_id_known(&self, id: u16) -> MandatoryHeaderExt {
        match id % 5 {
            0 => MandatoryHeaderExt::Final((id & 0xFF) as u8),
            1 => MandatoryHeaderExt::NonFinal((id & 0xFF) as u8),
            2 => MandatoryHeaderExt::NonFinal(0),
            3 => MandatoryHeaderExt::Final(0),
            _ => MandatoryHeaderExt::Unknown,
        }
    }
}

#[test]
fn f4_mutated_valid_packets() {
    let mut r = Rng(0xABCDEF0123456789);
    let iters = 400_000 * scale();
    let mut diff_classes: std::collections::BTreeMap<String, u64> = Default::default();
    let mut calls = 0u64;
    for it in 0..iters {
        // a valid packet
        let mut enc = Encapsulator::new(DefaultCrc);
        let pool = [Label::SixBytesLabel([9, 8, 7, 6, 5, 4])];
        let label = rand_label(&mut r, &pool);
        let len = if r.chance(90) { r.below(60) } else { r.below(8000) };
        let pdu = r.bytes(len);
        let mut buf = vec![0u8; 8192];
        let sub = if r.chance(50) { r.range(13, 80) } else { 8192 };
        let (exts, ptype) = rand_exts(&mut r);
        let first = if r.chance(60) {
            enc.encap_ext(&pdu, (it % 7) as u8, EncapMetadata::new(ptype, label), &mut buf[..sub], exts)
        } else {
            enc.encap(&pdu, (it % 7) as u8, EncapMetadata::new(if ptype < 0x600 { 0x0800 } else { ptype }, label), &mut buf[..sub])
        };
        let mut pkts: Vec<Vec<u8>> = vec![];
        match first {
            Ok(EncapStatus::CompletedPkt(n)) => pkts.push(buf[..n as usize].to_vec()),
            Ok(EncapStatus::FragmentedPkt(n, mut c)) => {
                pkts.push(buf[..n as usize].to_vec());
                loop {
                    let sub = if r.chance(50) { r.range(7, 80) } else { 8192 };
                    match enc.encap_frag(&pdu, &c, &mut buf[..sub]) {
                        Ok(EncapStatus::CompletedPkt(n)) => {
                            pkts.push(buf[..n as usize].to_vec());
                            break;
                        }
                        Ok(EncapStatus::FragmentedPkt(n, c2)) => {
                            pkts.push(buf[..n as usize].to_vec());
                            c = c2;
                        }
                        Err(e) => panic!("{:?}", e),
                    }
                }
            }
            Err(_) => continue,
        }
        // twin receivers with the nasty manager
        let slots = [1usize, 2, 3][r.below(3)];
        let s = [0usize, 16, 64, 9000][r.below(4)];
        let prov = r.below(slots + 3);
        let mk = |slots: usize, s: usize, prov: usize| {
            let mut m = SimpleGseMemory::new(slots, 0, 0, 0);
            for _ in 0..prov {
                m.provision_storage(vec![0u8; s].into_boxed_slice()).unwrap();
            }
            Decapsulator::new(m, DefaultCrc, NastyManager)
        };
        let mut a = mk(slots, s, prov);
        let mut b = mk(slots, s, prov);
        for p in pkts.iter() {
            let mut p = p.clone();
            // mutate
            let k = r.below(4);
            for _ in 0..k {
                let i = if r.chance(60) { r.below(p.len().min(16)) } else { r.below(p.len()) };
                if r.chance(50) {
                    p[i] ^= 1 << r.below(8);
                } else {
                    p[i] = r.below(256) as u8;
                }
            }
            if r.chance(10) {
                let cut = r.below(p.len() + 1);
                p.truncate(cut);
            }
            let mut framed = p.clone();
            let tl = r.below(40);
            if r.chance(50) {
                framed.extend(r.bytes(tl));
            } else {
                framed.extend(std::iter::repeat(0).take(tl));
            }
            let _ = a.get_label_or_frag_id(&framed);
            let ra = a.decap(&framed);
            let rb = b.decap(&p);
            calls += 2;
            let (na, nb) = (
                match &ra { Ok((_, n)) | Err((_, n)) => *n },
                match &rb { Ok((_, n)) | Err((_, n)) => *n },
            );
            assert!(na <= framed.len() && na >= framed.len().min(2));
            assert!(nb <= p.len() && nb >= p.len().min(2));
            let same = match (&ra, &rb) {
                (Ok((x, _)), Ok((y, _))) => x == y,
                (Err((x, _)), Err((y, _))) => x == y,
                _ => false,
            };
            if !same || na != nb {
                let class = format!(
                    "{} | {}",
                    match &ra { Ok((s, _)) => s.to_str().to_string(), Err((e, _)) => format!("{:?}", std::mem::discriminant(e)).to_string() + &format!(" {}", e.to_str()) },
                    match &rb { Ok((s, _)) => s.to_str().to_string(), Err((e, _)) => format!(" {}", e.to_str()) }
                );
                *diff_classes.entry(class).or_insert(0) += 1;
                // a difference must come with "framed consumed everything" or a truncated alone packet
                let announced = if p.len() >= 2 { 2 + (((p[0] as usize) & 0xF) << 8 | p[1] as usize) } else { 0 };
                assert!(
                    na == framed.len() || p.len() < announced || p.len() < 2 || p[0] >> 4 == 0,
                    "difference without whole-buffer consumption: {:?} vs {:?} pkt {:02x?}",
                    ra, rb, &p[..p.len().min(24)]
                );
                // resynchronise the twins
                a = mk(slots, s, prov);
                b = mk(slots, s, prov);
                break;
            }
            if let Ok((DecapStatus::CompletedPkt(bx, _), _)) = ra {
                let _ = a.provision_storage(bx);
            }
            if let Ok((DecapStatus::CompletedPkt(bx, _), _)) = rb {
                let _ = b.provision_storage(bx);
            }
        }
    }
    println!("f4 decap calls {} ; alone/framed difference classes: {:#?}", calls, diff_classes);
}

// ---------------------------------------------------------------- part 6: bounded-exhaustive receiver histories against the model
#[derive(Clone)]
enum Sym {
    P(Pkt),
    Reset,
    Take,
    Provision,
    Pad2,
    One,
}

fn build_alphabet() -> (Vec<Sym>, Vec<TxPdu>) {
    let l6 = Label::SixBytesLabel([1, 2, 3, 4, 5, 6]);
    let l3 = Label::ThreeBytesLabel([7, 8, 9]);
    let mut pdus: Vec<TxPdu> = vec![];
    let mut syms: Vec<Sym> = vec![];
    let mut buf = vec![0u8; 200];
    // helper closure-free code: (label, prime label, frag id, pdu len, first buffer, following buffers, ext chain, ptype)
    struct Job {
        label: Label,
        prime: Option<Label>,
        fid: u8,
        len: usize,
        b1: usize,
        b2: usize,
        exts: Vec<Extension>,
        ptype: u16,
    }
    let jobs = vec![
        Job { label: l6, prime: None, fid: 0, len: 10, b1: 100, b2: 0, exts: vec![], ptype: 0x0800 }, // complete 6B
        Job { label: l6, prime: Some(l6), fid: 0, len: 9, b1: 100, b2: 0, exts: vec![], ptype: 0x0800 }, // complete re-use
        Job { label: Label::Broadcast, prime: None, fid: 0, len: 3, b1: 100, b2: 0, exts: vec![], ptype: 0x0800 }, // complete broadcast
        Job { label: l3, prime: None, fid: 0, len: 20, b1: 100, b2: 0, exts: vec![], ptype: 0x0800 }, // complete, oversize for 12 byte storages
        Job { label: l3, prime: None, fid: 0, len: 2, b1: 100, b2: 0, exts: vec![Extension::new(0x55, &[1]).unwrap()], ptype: 0x0800 }, // unknown ext
        Job { label: l6, prime: None, fid: 0, len: 10, b1: 17, b2: 6, exts: vec![], ptype: 0x0800 }, // first(4) inter(3) end(3)
        Job { label: l6, prime: Some(l6), fid: 2, len: 8, b1: 12, b2: 12, exts: vec![], ptype: 0x0800 }, // re-use first, aliasing id
        Job { label: l3, prime: None, fid: 1, len: 11, b1: 16, b2: 20, exts: vec![Extension::new(0x0101, &[]).unwrap()], ptype: 0x0800 }, // first with ext + end
        Job { label: Label::Broadcast, prime: None, fid: 0, len: 30, b1: 21, b2: 40, exts: vec![], ptype: 0x0800 }, // first carrying 14 > 12 bytes
    ];
    for j in jobs {
        let mut enc = Encapsulator::new(DefaultCrc);
        if let Some(p) = j.prime {
            enc.encap(b"zz", 0, EncapMetadata::new(0x0800, p), &mut buf[..40]).unwrap();
        }
        let bytes: Vec<u8> = (0..j.len).map(|i| (i as u8).wrapping_mul(31).wrapping_add(j.fid)).collect();
        let md = EncapMetadata::new(j.ptype, j.label);
        let res = if j.exts.is_empty() {
            enc.encap(&bytes, j.fid, md, &mut buf[..j.b1])
        } else {
            enc.encap_ext(&bytes, j.fid, md, &mut buf[..j.b1], j.exts.clone())
        };
        let pi = pdus.len();
        let wire = |b0: u8, l: Label| if (b0 >> 4) & 3 == 3 { Label::ReUse } else { l };
        match res.unwrap() {
            EncapStatus::CompletedPkt(n) => {
                pdus.push(TxPdu { bytes: bytes.clone(), ptype: j.ptype, label: j.label, exts: j.exts.clone(), via_ext: !j.exts.is_empty(), crc: 0 });
                syms.push(Sym::P(Pkt { bytes: buf[..n as usize].to_vec(), kind: Kind::Complete, frag_id: j.fid, pdu: pi, n: bytes.len(), wire: wire(buf[0], j.label) }));
            }
            EncapStatus::FragmentedPkt(n, mut c) => {
                pdus.push(TxPdu { bytes: bytes.clone(), ptype: j.ptype, label: j.label, exts: j.exts.clone(), via_ext: !j.exts.is_empty(), crc: c.crc() });
                syms.push(Sym::P(Pkt { bytes: buf[..n as usize].to_vec(), kind: Kind::First, frag_id: j.fid, pdu: pi, n: c.len_pdu_frag() as usize, wire: wire(buf[0], j.label) }));
                loop {
                    let step = match enc.encap_frag(&bytes, &c, &mut buf[..j.b2]) {
                        Ok(x) => x,
                        Err(_) => enc.encap_frag(&bytes, &c, &mut buf[..20]).unwrap(),
                    };
                    match step {
                        EncapStatus::CompletedPkt(n) => {
                            syms.push(Sym::P(Pkt { bytes: buf[..n as usize].to_vec(), kind: Kind::End, frag_id: j.fid, pdu: pi, n: bytes.len() - c.len_pdu_frag() as usize, wire: Label::ReUse }));
                            break;
                        }
                        EncapStatus::FragmentedPkt(n, c2) => {
                            syms.push(Sym::P(Pkt { bytes: buf[..n as usize].to_vec(), kind: Kind::Inter, frag_id: j.fid, pdu: pi, n: (c2.len_pdu_frag() - c.len_pdu_frag()) as usize, wire: Label::ReUse }));
                            c = c2;
                        }
                    }
                }
            }
        }
    }
    syms.extend([Sym::Reset, Sym::Take, Sym::Provision, Sym::Pad2, Sym::One]);
    (syms, pdus)
}

#[test]
fn f6_bounded_exhaustive_histories() {
    let (syms, pdus) = build_alphabet();
    let depth = if scale() >= 3 { 6 } else { 5 };
    let k = syms.len();
    println!("f6 alphabet {} symbols, depth {}", k, depth);
    let mut total = 0u64;
    let mut steps = 0u64;
    let garbage_tail = [0xA5u8, 0x5A, 0xFF, 0x00, 0x13, 0x37, 0xC0, 0x02];
    for (slots, prov) in [(2usize, 2usize), (1, 3), (2, 0), (3, 5)] {
        let cap = slots + 2;
        let s = 12usize;
        let mut idx = vec![0usize; depth];
        'outer: loop {
            // run the sequence
            let mut d = new_dec(slots, s, s, prov);
            let mut m = Model { slots: (0..slots).map(|_| None).collect(), count: prov, cap, s, last: None };
            for &i in idx.iter() {
                steps += 1;
                match &syms[i] {
                    Sym::P(p) => {
                        // presented followed by garbage: the outcome must be the model's, the length the packet's
                        let mut framed = p.bytes.clone();
                        framed.extend_from_slice(&garbage_tail);
                        let (o, n) = observe(checked_decap(&mut d, &framed));
                        let e = m.rx(p, &pdus);
                        assert_eq!(o, e, "sequence {:?}", idx);
                        assert_eq!(n, p.bytes.len(), "sequence {:?}", idx);
                    }
                    Sym::Reset => {
                        d.reset_last_label();
                        m.last = None;
                    }
                    Sym::Take => {
                        let x = d.new_pdu().is_ok();
                        assert_eq!(x, m.count > 0);
                        if x {
                            m.count -= 1;
                        }
                    }
                    Sym::Provision => {
                        let x = d.provision_storage(vec![0u8; s].into_boxed_slice()).is_ok();
                        assert_eq!(x, m.count < m.cap);
                        if x {
                            m.count += 1;
                        }
                    }
                    Sym::Pad2 => {
                        assert_eq!(d.decap(&[0, 0]), Ok((DecapStatus::Padding, 2)));
                        m.last = None;
                    }
                    Sym::One => {
                        assert_eq!(d.decap(&[0xC5]), Err((DecapError::ErrorSizeBuffer, 1)));
                        m.last = None;
                    }
                }
            }
            total += 1;
            // next sequence
            let mut pos = depth;
            loop {
                if pos == 0 {
                    break 'outer;
                }
                pos -= 1;
                idx[pos] += 1;
                if idx[pos] < k {
                    break;
                }
                idx[pos] = 0;
            }
        }
    }
    println!("f6 sequences {} steps {}", total, steps);
}


// ---------------------------------------------------------------- part 7: a legal user-defined memory (exact frag id keys, FIFO storages of any size)
#[derive(PartialEq)]
struct VarMemory {
    free: std::collections::VecDeque<Box<[u8]>>,
    frags: std::collections::BTreeMap<u8, (DecapContext, Box<[u8]>)>,
    max_free: usize,
}
impl GseDecapMemory for VarMemory {
    fn new(max_frag_id: usize, _max_pdu_size: usize, _d: usize, _f: usize) -> Self {
        VarMemory { free: Default::default(), frags: Default::default(), max_free: max_frag_id + 2 }
    }
    fn provision_storage(&mut self, storage: Box<[u8]>) -> Result<(), DecapMemoryError> {
        if self.free.len() >= self.max_free {
            return Err(DecapMemoryError::StorageOverflow(storage));
        }
        self.free.push_back(storage);
        Ok(())
    }
    fn new_pdu(&mut self) -> Result<Box<[u8]>, DecapMemoryError> {
        self.free.pop_front().ok_or(DecapMemoryError::StorageUnderflow)
    }
    fn new_frag(&mut self, context: DecapContext) -> Result<(DecapContext, Box<[u8]>), DecapMemoryError> {
        match self.frags.remove(&context.frag_id) {
            Some((_, b)) => Ok((context, b)),
            None => self.new_pdu().map(|b| (context, b)),
        }
    }
    fn take_frag(&mut self, frag_id: u8) -> Result<(DecapContext, Box<[u8]>), DecapMemoryError> {
        self.frags.remove(&frag_id).ok_or(DecapMemoryError::UndefinedId)
    }
    fn save_frag(&mut self, context: (DecapContext, Box<[u8]>)) -> Result<(), DecapMemoryError> {
        if self.frags.contains_key(&context.0.frag_id) {
            return Err(DecapMemoryError::MemoryCorrupted);
        }
        self.frags.insert(context.0.frag_id, context);
        Ok(())
    }
}

#[test]
fn f7_twin_walk_user_memory_variable_storages() {
    let mut st = Stats::default();
    let trials = 3000 * scale();
    for t in 0..trials {
        one_trial::<VarMemory>(0xD1B54A32D192ED03u64.wrapping_mul(t + 1), &mut st, true);
    }
    println!("{:#?}", st);
    let mut st = Stats::default();
    for t in 0..trials {
        one_trial::<SimpleGseMemory>(0xA24BAED4963EE407u64.wrapping_mul(t + 1), &mut st, true);
    }
    println!("{:#?}", st);
}

// ---------------------------------------------------------------- part 8: extreme sizes end to end
fn e2e(label: Label, prime: bool, pdu_len: usize, exts: Vec<Extension>, ptype: u16, bufs: &[usize]) -> Result<(u64, u64), EncapError> {
    let mut enc = Encapsulator::new(DefaultCrc);
    let mut dec = new_dec(1, 70000, 0, 2);
    let mut frame = vec![0u8; 70000 * 2 + 200];
    let mut off = 0;
    let l6 = Label::SixBytesLabel([1, 2, 3, 4, 5, 6]);
    let mut exp_label = label;
    if prime {
        let p = if label == Label::ReUse { l6 } else { label };
        match enc.encap(b"x", 0, EncapMetadata::new(0x0800, p), &mut frame[off..]).unwrap() {
            EncapStatus::CompletedPkt(n) => off += n as usize,
            _ => panic!(),
        }
        exp_label = p;
    }
    let pdu: Vec<u8> = (0..pdu_len).map(|i| (i as u32).wrapping_mul(2654435761).to_le_bytes()[1]).collect();
    let md = EncapMetadata::new(ptype, label);
    let mut bi = 0;
    let mut nb = |rem: usize| {
        let b = bufs[bi % bufs.len()].min(rem);
        bi += 1;
        b
    };
    let rem = frame.len() - off;
    let b = nb(rem);
    let r = if exts.is_empty() {
        enc.encap(&pdu, 200, md, &mut frame[off..off + b])
    } else {
        enc.encap_ext(&pdu, 200, md, &mut frame[off..off + b], exts.clone())
    };
    let mut ctx = match r? {
        EncapStatus::CompletedPkt(n) => {
            off += n as usize;
            None
        }
        EncapStatus::FragmentedPkt(n, c) => {
            off += n as usize;
            Some(c)
        }
    };
    let mut guard = 0;
    while let Some(c) = ctx {
        let rem = frame.len() - off;
        let mut b = nb(rem);
        if c.len_pdu_frag() as usize == pdu.len() {
            b = b.max(7);
        }
        match enc.encap_frag(&pdu, &c, &mut frame[off..off + b]).unwrap() {
            EncapStatus::CompletedPkt(n) => {
                off += n as usize;
                ctx = None;
            }
            EncapStatus::FragmentedPkt(n, c2) => {
                off += n as usize;
                ctx = Some(c2);
            }
        }
        guard += 1;
        assert!(guard < 70000);
    }
    let fr = &frame[..off + 2];
    let mut q = 0;
    let mut pk = 0u64;
    let mut delivered = 0u64;
    while q < off {
        let hdr = fr[q];
        let n = 2 + (((hdr as usize) & 0xF) << 8 | fr[q + 1] as usize);
        let peek = dec.get_label_or_frag_id(&fr[q..]);
        if hdr & 0x80 == 0 {
            assert_eq!(peek, Ok(LabelorFragId::FragId(200)));
        } else if pk > 0 || !prime {
            if prime {
                assert_eq!(peek, Err(GetLabelorFragIdError::ErrLabelReuse));
            } else {
                assert_eq!(peek, Ok(LabelorFragId::Lbl(label)));
            }
        }
        match checked_decap(&mut dec, &fr[q..]) {
            Ok((DecapStatus::CompletedPkt(bx, m), used)) => {
                assert_eq!(used, n);
                if !(prime && pk == 0) {
                    assert_eq!(&bx[..m.pdu_len()], &pdu[..]);
                    assert_eq!(m.label(), exp_label);
                    assert_eq!(m.protocol_type(), ptype);
                    assert_eq!(m.extensions(), &exts);
                    delivered += 1;
                }
                dec.provision_storage(bx).unwrap();
            }
            Ok((DecapStatus::FragmentedPkt(_), used)) => assert_eq!(used, n),
            o => panic!("{:?}", o),
        }
        q += n;
        pk += 1;
    }
    assert_eq!(q, off);
    assert_eq!(dec.decap(&fr[q..]), Ok((DecapStatus::Padding, 2)));
    assert_eq!(delivered, 1);
    Ok((pk, delivered))
}

#[test]
fn f8_extreme_sizes() {
    let l6 = Label::SixBytesLabel([1, 2, 3, 4, 5, 6]);
    let l3 = Label::ThreeBytesLabel([0, 0, 0]);
    let mut pk = 0;
    let bufsets: Vec<Vec<usize>> = vec![vec![usize::MAX], vec![4097], vec![4098], vec![4096], vec![14, 4], vec![20, 5, 4097, 7], vec![300]];
    for (label, prime, max) in [
        (l6, false, 65527usize),
        (l3, false, 65530),
        (Label::Broadcast, false, 65533),
        (Label::ReUse, true, 65533),
        (l6, true, 65533),
    ] {
        for bufs in &bufsets {
            for d in 0..3 {
                pk += e2e(label, prime, max - d, vec![], 0xFFFF, bufs).unwrap().0;
            }
            assert_eq!(e2e(label, prime, max + 1, vec![], 0xFFFF, bufs), Err(EncapError::ErrorPduLength));
            // around the complete / fragmented limit
            for len in 4080..=4100 {
                pk += e2e(label, prime, len, vec![], 0x0600, bufs).unwrap().0;
            }
        }
    }
    // header extensions filling almost a whole packet
    for n_ext in [1usize, 100, 400, 405, 406, 407, 408, 409] {
        let exts: Vec<Extension> = (0..n_ext).map(|i| Extension::new(0x0500 | (i as u16 & 0xFF), &[i as u8; 8]).unwrap()).collect();
        for label in [l6, Label::Broadcast] {
            for len in [0usize, 1, 5, 6, 7, 8, 9, 10, 11, 12, 13, 14, 15, 16, 17, 18, 19, 20, 30, 100, 5000] {
                for bufs in [vec![usize::MAX], vec![4097, 9], vec![4090, 8]] {
                    match e2e(label, false, len, exts.clone(), 0x0800, &bufs) {
                        Ok((n, _)) => pk += n,
                        Err(EncapError::ErrorSizeBuffer) => {}
                        Err(e) => panic!("{:?}", e),
                    }
                }
            }
        }
    }
    println!("f8 packets {}", pk);
}
