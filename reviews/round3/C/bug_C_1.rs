// C13, clause "encap_ext never returns Ok for a combination of extensions and protocol type
// that it cannot encode decodably" / round-trip clause.
// The same mandatory id is used as a NON-final extension and as the FINAL extension of one chain.
// A MandatoryHeaderExtensionManager maps an id to ONE role, so no receiver can decode the packet,
// yet encap_ext returns Ok.
use dvb_gse_rust::crc::DefaultCrc;
use dvb_gse_rust::gse_decap::{DecapStatus, Decapsulator, GseDecapMemory, SimpleGseMemory};
use dvb_gse_rust::gse_encap::{EncapMetadata, EncapStatus, Encapsulator};
use dvb_gse_rust::header_extension::{Extension, MandatoryHeaderExt, MandatoryHeaderExtensionManager};
use dvb_gse_rust::label::Label;

struct Mgr(MandatoryHeaderExt2);
#[derive(Clone, Copy)]
enum MandatoryHeaderExt2 {
    Final,
    NonFinal,
}
impl MandatoryHeaderExtensionManager for Mgr {
    fn is_mandatory_header_id_known(&self, id: u16) -> MandatoryHeaderExt {
        match (id, self.0) {
            (0x0010, MandatoryHeaderExt2::Final) => MandatoryHeaderExt::Final(2),
            (0x0010, MandatoryHeaderExt2::NonFinal) => MandatoryHeaderExt::NonFinal(2),
            _ => MandatoryHeaderExt::Unknown,
        }
    }
}

#[test]
fn bug_c_1_same_mandatory_id_final_and_non_final() {
    let pdu = *b"PAYLOAD!";
    let exts = vec![
        Extension::new(0x0010, &[0xAA, 0xBB]).unwrap(), // non-final position
        Extension::new(0x0010, &[0xCC, 0xDD]).unwrap(), // final position: stands for the protocol type
    ];
    let md = EncapMetadata::new(0x0010, Label::Broadcast);

    let mut enc = Encapsulator::new(DefaultCrc {});
    let mut buf = [0u8; 64];
    let r = enc.encap_ext(&pdu, 0, md, &mut buf, exts.clone());
    let len = match r {
        Ok(EncapStatus::CompletedPkt(l)) => l as usize,
        Err(_) => return, // refusing the combination is the expected behaviour
        other => panic!("{:?}", other),
    };

    // encap_ext said Ok: then some receiver that knows id 0x0010 must get the chain back.
    // The manager can give the id only one role; try both.
    let mut decoded_by_someone = false;
    for role in [MandatoryHeaderExt2::Final, MandatoryHeaderExt2::NonFinal] {
        let mut mem = SimpleGseMemory::new(1, 64, 0, 0);
        mem.provision_storage(vec![0u8; 64].into_boxed_slice()).unwrap();
        let mut dec = Decapsulator::new(mem, DefaultCrc {}, Mgr(role));
        if let Ok((DecapStatus::CompletedPkt(b, m), n)) = dec.decap(&buf[..len]) {
            if n == len
                && m.extensions()[..] == exts[..]
                && m.protocol_type() == 0x0010
                && b[..m.pdu_len()] == pdu[..]
            {
                decoded_by_someone = true;
            }
        }
    }
    assert!(
        decoded_by_someone,
        "encap_ext returned Ok({}) for a chain no receiver manager can decode",
        len
    );
}
