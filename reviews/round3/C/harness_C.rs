// Adversarial harness, theme: HEADER EXTENSIONS end to end (C13 / C06 / C10).
// Public API only. Independent wire parser + independent CRC + model of the expected outcome.

use dvb_gse_rust::crc::DefaultCrc;
use dvb_gse_rust::gse_decap::{
    DecapError, DecapMemoryError, DecapStatus, Decapsulator, GseDecapMemory, SimpleGseMemory,
};
use dvb_gse_rust::gse_encap::{ContextFrag, EncapError, EncapMetadata, EncapStatus, Encapsulator};
use dvb_gse_rust::header_extension::{
    Extension, ExtensionData, MandatoryHeaderExt, MandatoryHeaderExtensionManager,
    NewExtensionError, SignalisationMandatoryExtensionHeaderManager,
    SimpleMandatoryExtensionHeaderManager,
};
use dvb_gse_rust::label::Label;

// ---------------------------------------------------------------- rng
pub struct Rng(u64);
impl Rng {
    pub fn new(s: u64) -> Self {
        Rng(s.wrapping_mul(0x9E3779B97F4A7C15) | 1)
    }
    pub fn next(&mut self) -> u64 {
        let mut x = self.0;
        x ^= x << 13;
        x ^= x >> 7;
        x ^= x << 17;
        self.0 = x;
        x.wrapping_mul(0x2545F4914F6CDD1D)
    }
    pub fn below(&mut self, n: usize) -> usize {
        (self.next() % (n as u64)) as usize
    }
    pub fn bytes(&mut self, n: usize) -> Vec<u8> {
        (0..n).map(|_| (self.next() >> 32) as u8).collect()
    }
}

// ---------------------------------------------------------------- independent crc (bitwise, MSB first)
fn crc_bitwise(chunks: &[&[u8]]) -> u32 {
    let mut crc: u32 = 0xFFFF_FFFF;
    for c in chunks {
        for b in c.iter() {
            crc ^= (*b as u32) << 24;
            for _ in 0..8 {
                if crc & 0x8000_0000 != 0 {
                    crc = (crc << 1) ^ 0x04C1_1DB7;
                } else {
                    crc <<= 1;
                }
            }
        }
    }
    crc
}

// ---------------------------------------------------------------- knowledge of mandatory ids
#[derive(Clone)]
pub struct Know(pub Vec<Option<(bool, u8)>>); // index = id (0..256) -> (is_final, data len)

impl MandatoryHeaderExtensionManager for Know {
    fn is_mandatory_header_id_known(&self, id: u16) -> MandatoryHeaderExt {
        match self.0.get(id as usize).copied().flatten() {
            None => MandatoryHeaderExt::Unknown,
            Some((true, n)) => MandatoryHeaderExt::Final(n),
            Some((false, n)) => MandatoryHeaderExt::NonFinal(n),
        }
    }
}

/// The "world" table: role and data length of every mandatory id, as agreed between sender and receiver.
fn world_role(id: u16) -> (bool, u8) {
    assert!(id < 0x100);
    let is_final = id >= 0x80 || id == 0 || id == 1;
    let len = match id {
        0x7F => 255,
        0x7E => 100,
        0x7D => 9,
        0xFF => 255,
        0xFE => 37,
        0x81 | 0x82 => 0,
        _ => (id % 9) as u8,
    };
    (is_final, len)
}
fn know_all() -> Know {
    Know((0..256u16).map(|i| Some(world_role(i))).collect())
}
fn know_subset(rng: &mut Rng, keep_per_mille: usize) -> Know {
    Know(
        (0..256u16)
            .map(|i| {
                if rng.below(1000) < keep_per_mille {
                    Some(world_role(i))
                } else {
                    None
                }
            })
            .collect(),
    )
}

// ---------------------------------------------------------------- independent parser
#[derive(Debug, Clone, PartialEq, Eq)]
pub struct Parsed {
    kind: u8, // 0 complete 1 first 2 intermediate 3 end
    lt: u8,
    gse_len: usize,
    frag_id: Option<u8>,
    total_len: Option<u16>,
    label: Vec<u8>,
    exts: Vec<(u16, Vec<u8>)>,
    ptype: Option<u16>,
    payload: Vec<u8>,
    crc: Option<u32>,
    ext_area_len: usize,
    first_unknown: Option<u16>,
}

fn parse(pkt: &[u8], know: &Know) -> Result<Parsed, String> {
    if pkt.len() < 2 {
        return Err("short".into());
    }
    let h = u16::from_be_bytes([pkt[0], pkt[1]]);
    let s = h >> 15 & 1;
    let e = h >> 14 & 1;
    let lt = (h >> 12 & 3) as u8;
    let gse_len = (h & 0xFFF) as usize;
    if s == 0 && e == 0 && lt == 0 {
        return Err("padding".into());
    }
    if pkt.len() != gse_len + 2 {
        return Err(format!("len mismatch pkt {} gse {}", pkt.len(), gse_len));
    }
    let kind = match (s, e) {
        (1, 1) => 0,
        (1, 0) => 1,
        (0, 0) => 2,
        _ => 3,
    };
    let mut p = Parsed {
        kind,
        lt,
        gse_len,
        frag_id: None,
        total_len: None,
        label: vec![],
        exts: vec![],
        ptype: None,
        payload: vec![],
        crc: None,
        ext_area_len: 0,
        first_unknown: None,
    };
    let mut o = 2usize;
    let need = |o: usize, n: usize| -> Result<(), String> {
        if o + n > pkt.len() {
            Err(format!("truncated at {} need {}", o, n))
        } else {
            Ok(())
        }
    };
    if kind != 0 {
        need(o, 1)?;
        p.frag_id = Some(pkt[o]);
        o += 1;
    }
    if kind == 1 {
        need(o, 2)?;
        p.total_len = Some(u16::from_be_bytes([pkt[o], pkt[o + 1]]));
        o += 2;
    }
    if kind == 0 || kind == 1 {
        need(o, 2)?;
        let mut t = u16::from_be_bytes([pkt[o], pkt[o + 1]]);
        o += 2;
        let ll = match lt {
            0 => 6,
            1 => 3,
            _ => 0,
        };
        need(o, ll)?;
        p.label = pkt[o..o + ll].to_vec();
        o += ll;
        let ext_start = o;
        loop {
            if t >= 0x600 {
                p.ptype = Some(t);
                break;
            }
            if t >= 0x100 {
                let n = ((t >> 8) as usize - 1) * 2;
                need(o, n)?;
                p.exts.push((t, pkt[o..o + n].to_vec()));
                o += n;
            } else {
                match know.0[t as usize] {
                    None => {
                        p.first_unknown = Some(t);
                        return Ok(p);
                    }
                    Some((fin, n)) => {
                        need(o, n as usize)?;
                        p.exts.push((t, pkt[o..o + n as usize].to_vec()));
                        o += n as usize;
                        if fin {
                            p.ptype = Some(t);
                            break;
                        }
                    }
                }
            }
            need(o, 2)?;
            t = u16::from_be_bytes([pkt[o], pkt[o + 1]]);
            o += 2;
        }
        p.ext_area_len = o - ext_start;
        p.payload = pkt[o..].to_vec();
    } else if kind == 2 {
        p.payload = pkt[o..].to_vec();
    } else {
        if pkt.len() < o + 4 {
            return Err("end too short".into());
        }
        p.payload = pkt[o..pkt.len() - 4].to_vec();
        p.crc = Some(u32::from_be_bytes(pkt[pkt.len() - 4..].try_into().unwrap()));
    }
    Ok(p)
}

// ---------------------------------------------------------------- helpers
fn ext_pairs(exts: &[Extension]) -> Vec<(u16, Vec<u8>)> {
    exts.iter()
        .map(|e| {
            let d: Vec<u8> = match e.data() {
                ExtensionData::NoData => vec![],
                ExtensionData::Data2(d) => d.to_vec(),
                ExtensionData::Data4(d) => d.to_vec(),
                ExtensionData::Data6(d) => d.to_vec(),
                ExtensionData::Data8(d) => d.to_vec(),
                ExtensionData::MandatoryData(d) => d.clone(),
            };
            (e.id(), d)
        })
        .collect()
}

fn label_bytes(l: &Label) -> Vec<u8> {
    match l {
        Label::SixBytesLabel(b) => b.to_vec(),
        Label::ThreeBytesLabel(b) => b.to_vec(),
        _ => vec![],
    }
}
fn label_lt(l: &Label) -> u8 {
    match l {
        Label::SixBytesLabel(_) => 0,
        Label::ThreeBytesLabel(_) => 1,
        Label::Broadcast => 2,
        Label::ReUse => 3,
    }
}

const STORAGE: usize = 65536;
type Dec<M> = Decapsulator<SimpleGseMemory, DefaultCrc, M>;
fn mk_decap<M: MandatoryHeaderExtensionManager>(m: M, slots: usize) -> Dec<M> {
    let mut memory = SimpleGseMemory::new(slots, STORAGE, 0, 0);
    for _ in 0..slots + 2 {
        memory
            .provision_storage(vec![0u8; STORAGE].into_boxed_slice())
            .unwrap();
    }
    Decapsulator::new(memory, DefaultCrc {}, m)
}

/// draw one extension consistent with the world table. `allow_final`: may draw a final mandatory one.
fn draw_ext(rng: &mut Rng, want_final: bool) -> Extension {
    if want_final {
        let pool: [u16; 10] = [0x00, 0x01, 0x80, 0x81, 0x82, 0x88, 0xAB, 0xFE, 0xFF, 0x90];
        let id = pool[rng.below(pool.len())];
        let (f, n) = world_role(id);
        assert!(f);
        return Extension::new(id, &rng.bytes(n as usize)).unwrap();
    }
    match rng.below(8) {
        0 => Extension::new(0x100 + rng.below(256) as u16, &[]).unwrap(),
        1 => Extension::new(0x200 + rng.below(256) as u16, &rng.bytes(2)).unwrap(),
        2 => Extension::new(0x300 + rng.below(256) as u16, &rng.bytes(4)).unwrap(),
        3 => Extension::new(0x400 + rng.below(256) as u16, &rng.bytes(6)).unwrap(),
        4 => Extension::new(0x500 + rng.below(256) as u16, &rng.bytes(8)).unwrap(),
        _ => {
            // non final mandatory
            let id = 2 + rng.below(0x7E) as u16; // 2..0x7F
            let (f, n) = world_role(id);
            assert!(!f);
            Extension::new(id, &rng.bytes(n as usize)).unwrap()
        }
    }
}

/// chain + protocol type consistent with the world table
fn draw_chain(rng: &mut Rng, n: usize) -> (Vec<Extension>, u16) {
    let fin = rng.below(3) == 0;
    let mut v = vec![];
    for i in 0..n {
        if fin && i == n - 1 {
            v.push(draw_ext(rng, true));
        } else {
            v.push(draw_ext(rng, false));
        }
    }
    let pt = if fin {
        v.last().unwrap().id()
    } else {
        let pool: [u16; 8] = [0x600, 0x601, 0x0800, 0x86DD, 0xFFFF, 0x0700, 0x6000, 0x0601];
        pool[rng.below(pool.len())]
    };
    (v, pt)
}

fn wire_ext_len(exts: &[Extension], fin: bool) -> usize {
    exts.iter().map(|e| e.len()).sum::<usize>() - if fin { 2 } else { 0 }
}

#[derive(Default, Debug)]
pub struct Stats {
    encap_ok: usize,
    encap_err: usize,
    complete: usize,
    fragmented: usize,
    pkts: usize,
    rejected_unknown: usize,
}

/// One full scenario: encap_ext with `first_buf`, continuation buffers from `cont`, check all of C06+C13 on the way.
/// `sent_label`: label passed in the metadata. `eff_lt`: the label type expected on the wire
/// `resolved`: the label the receiver must report.
#[allow(clippy::too_many_arguments)]
fn scenario<M: MandatoryHeaderExtensionManager>(
    enc: &mut Encapsulator<DefaultCrc>,
    dec: &mut Dec<M>,
    know: &Know,
    pdu: &[u8],
    frag_id: u8,
    pt: u16,
    sent_label: Label,
    wire_label: Label,
    resolved: Label,
    exts: &[Extension],
    first_buf: usize,
    cont: &mut dyn FnMut(usize) -> usize,
    st: &mut Stats,
) -> Result<(), String> {
    let fin = pt < 0x100;
    let mut buf = vec![0x5Au8; first_buf];
    // sentinel pattern that differs per position
    for (i, b) in buf.iter_mut().enumerate() {
        *b = (i as u8).wrapping_mul(31).wrapping_add(7);
    }
    let orig = buf.clone();
    let r = enc.encap_ext(
        pdu,
        frag_id,
        EncapMetadata::new(pt, sent_label),
        &mut buf,
        exts.to_vec(),
    );
    let want_pairs = ext_pairs(exts);
    let extw = wire_ext_len(exts, fin);
    let ll = wire_label.len();
    let (len, mut ctx) = match r {
        Err(_) => {
            st.encap_err += 1;
            return Ok(());
        }
        Ok(EncapStatus::CompletedPkt(l)) => (l as usize, None),
        Ok(EncapStatus::FragmentedPkt(l, c)) => (l as usize, Some(c)),
    };
    st.encap_ok += 1;
    st.pkts += 1;
    if len > first_buf {
        return Err(format!("len {} > buffer {}", len, first_buf));
    }
    if buf[len..] != orig[len..] {
        return Err("bytes beyond the returned length modified".into());
    }
    if len > 4097 {
        return Err("pkt > 4097".into());
    }
    let p = parse(&buf[..len], know).map_err(|e| format!("first packet unparsable: {}", e))?;
    if p.first_unknown.is_some() {
        return Err("parser: unknown with full knowledge?".into());
    }
    if p.lt != label_lt(&wire_label) || p.label != label_bytes(&wire_label) {
        return Err(format!("label on wire {:?} lt {}", p.label, p.lt));
    }
    if p.exts != want_pairs {
        return Err(format!("exts on wire {:?} != {:?}", p.exts, want_pairs));
    }
    if p.ptype != Some(pt) {
        return Err(format!("ptype on wire {:?}", p.ptype));
    }
    if p.ext_area_len != extw {
        return Err("ext area length".into());
    }
    let sent0 = p.payload.len();
    if pdu[..sent0] != p.payload[..] {
        return Err("payload of first pkt".into());
    }
    match (&ctx, p.kind) {
        (None, 0) => {
            if sent0 != pdu.len() {
                return Err("complete does not carry whole pdu".into());
            }
            if p.frag_id.is_some() {
                return Err("fragid in complete".into());
            }
        }
        (Some(c), 1) => {
            if p.frag_id != Some(frag_id) || c.frag_id() != frag_id {
                return Err("frag id".into());
            }
            if p.total_len != Some((pdu.len() + 2 + ll) as u16) {
                return Err(format!("total len {:?}", p.total_len));
            }
            if c.len_pdu_frag() as usize != sent0 {
                return Err("ctx len".into());
            }
            if sent0 >= pdu.len() && !pdu.is_empty() {
                return Err("first fragment carries the whole pdu".into());
            }
            let tl = ((pdu.len() + 2 + ll) as u16).to_be_bytes();
            let want_crc = crc_bitwise(&[&tl, &pt.to_be_bytes(), &label_bytes(&wire_label), pdu]);
            if c.crc() != want_crc {
                return Err("ctx crc".into());
            }
        }
        _ => return Err(format!("status / S-E bits mismatch kind {}", p.kind)),
    }

    // ---- receiver
    let d = dec.decap(&buf[..len]);
    match (&ctx, d) {
        (None, Ok((DecapStatus::CompletedPkt(b, md), n))) => {
            if n != len {
                return Err(format!("decap consumed {} != {}", n, len));
            }
            if md.pdu_len() != pdu.len() || b[..md.pdu_len()] != pdu[..] {
                return Err("pdu differs".into());
            }
            if md.protocol_type() != pt {
                return Err(format!("ptype {:#x} != {:#x}", md.protocol_type(), pt));
            }
            if md.label() != resolved {
                return Err(format!("label {:?} != {:?}", md.label(), resolved));
            }
            if md.extensions()[..] != exts[..] {
                return Err(format!("ext list {:?} != {:?}", md.extensions(), exts));
            }
            dec.provision_storage(b).map_err(|_| "provision".to_string())?;
            st.complete += 1;
            return Ok(());
        }
        (Some(_), Ok((DecapStatus::FragmentedPkt(md), n))) => {
            if n != len {
                return Err(format!("decap consumed {} != {}", n, len));
            }
            if md.protocol_type() != pt || md.label() != resolved || md.extensions()[..] != exts[..]
            {
                return Err(format!("first frag metadata {:?}", md));
            }
        }
        (_, other) => return Err(format!("decap of first packet: {:?}", other.map(|x| x.1))),
    }
    // ---- continuation
    let mut guard = 0;
    loop {
        guard += 1;
        if guard > 200000 {
            return Err("no progress".into());
        }
        let c = ctx.unwrap();
        let bl = cont(pdu.len() - c.len_pdu_frag() as usize);
        let mut b2 = vec![0u8; bl];
        for (i, b) in b2.iter_mut().enumerate() {
            *b = (i as u8).wrapping_mul(13).wrapping_add(3);
        }
        let o2 = b2.clone();
        match enc.encap_frag(pdu, &c, &mut b2) {
            Err(EncapError::ErrorSizeBuffer) => {
                if bl >= 8 {
                    return Err(format!("encap_frag refuses a {} byte buffer", bl));
                }
                continue;
            }
            Err(e) => return Err(format!("encap_frag {:?}", e)),
            Ok(EncapStatus::FragmentedPkt(l, nc)) => {
                let l = l as usize;
                st.pkts += 1;
                if l > bl || b2[l..] != o2[l..] {
                    return Err("inter: length/bytes beyond".into());
                }
                let q = parse(&b2[..l], know).map_err(|e| format!("inter unparsable {}", e))?;
                if q.kind != 2 || q.lt != 3 || q.frag_id != Some(frag_id) {
                    return Err("inter header".into());
                }
                let a = c.len_pdu_frag() as usize;
                if q.payload.is_empty() || q.payload[..] != pdu[a..a + q.payload.len()] {
                    return Err("inter payload".into());
                }
                if nc.len_pdu_frag() as usize != a + q.payload.len() || nc.crc() != c.crc() {
                    return Err("inter ctx".into());
                }
                match dec.decap(&b2[..l]) {
                    Ok((DecapStatus::FragmentedPkt(md), n)) => {
                        if n != l
                            || md.protocol_type() != pt
                            || md.label() != resolved
                            || md.extensions()[..] != exts[..]
                        {
                            return Err("inter decap metadata".into());
                        }
                    }
                    other => return Err(format!("inter decap {:?}", other.map(|x| x.1))),
                }
                ctx = Some(nc);
            }
            Ok(EncapStatus::CompletedPkt(l)) => {
                let l = l as usize;
                st.pkts += 1;
                if l > bl || b2[l..] != o2[l..] {
                    return Err("end: length/bytes beyond".into());
                }
                let q = parse(&b2[..l], know).map_err(|e| format!("end unparsable {}", e))?;
                let a = c.len_pdu_frag() as usize;
                if q.kind != 3 || q.lt != 3 || q.frag_id != Some(frag_id) {
                    return Err("end header".into());
                }
                if q.payload[..] != pdu[a..] || q.crc != Some(c.crc()) {
                    return Err("end payload/crc".into());
                }
                match dec.decap(&b2[..l]) {
                    Ok((DecapStatus::CompletedPkt(b, md), n)) => {
                        if n != l {
                            return Err("end consumed".into());
                        }
                        if md.pdu_len() != pdu.len() || b[..md.pdu_len()] != pdu[..] {
                            return Err("reassembled pdu differs".into());
                        }
                        if md.protocol_type() != pt
                            || md.label() != resolved
                            || md.extensions()[..] != exts[..]
                        {
                            return Err(format!("reassembled metadata {:?}", md));
                        }
                        dec.provision_storage(b).map_err(|_| "provision".to_string())?;
                    }
                    other => return Err(format!("end decap {:?}", other.map(|x| x.1))),
                }
                st.fragmented += 1;
                return Ok(());
            }
        }
    }
}

fn labels(rng: &mut Rng) -> Label {
    match rng.below(4) {
        0 => Label::SixBytesLabel(rng.bytes(6).try_into().unwrap()),
        1 => Label::ThreeBytesLabel(rng.bytes(3).try_into().unwrap()),
        2 => Label::Broadcast,
        _ => Label::ThreeBytesLabel([0, 0, 0]),
    }
}

// ================================================================ T1: constructor
#[test]
fn t1_constructor_exhaustive() {
    let data = [0xC3u8; 1100];
    let mut n = 0usize;
    for id in 0..=65535u16 {
        for len in (0..=12usize).chain([100, 255, 256, 1000]) {
            let r = Extension::new(id, &data[..len]);
            let expect_ok = if id >= 0x600 {
                false
            } else if id < 0x100 {
                true
            } else {
                len == ((id >> 8) as usize - 1) * 2
            };
            assert_eq!(r.is_ok(), expect_ok, "id {:#x} len {}", id, len);
            match r {
                Ok(e) => {
                    assert_eq!(e.id(), id);
                    assert_eq!(e.len(), 2 + len);
                    assert_eq!(ext_pairs(&[e])[0].1, data[..len].to_vec());
                }
                Err(NewExtensionError::IncorrectExtensionId) => assert!(id >= 0x600),
                Err(NewExtensionError::IdAndVecSizeNotMatchingError) => {
                    assert!((0x100..0x600).contains(&id))
                }
            }
            n += 1;
        }
    }
    println!("constructor cases {}", n);
}

// ================================================================ T2: every buffer size, small pdus, chains 1..=6
#[test]
fn t2_roundtrip_every_buffer_size() {
    let know = know_all();
    let mut dec = mk_decap(know.clone(), 4);
    let mut rng = Rng::new(2);
    let mut st = Stats::default();
    let mut cases = 0usize;
    for iter in 0..6000 {
        let n = 1 + rng.below(6);
        let (exts, pt) = draw_chain(&mut rng, n);
        let label = labels(&mut rng);
        let pdu_len = [0usize, 1, 2, 3, 4, 5, 9, 17, 40][rng.below(9)];
        let pdu = rng.bytes(pdu_len);
        let fin = pt < 0x100;
        let h = 2 + 2 + label.len() + wire_ext_len(&exts, fin);
        // modes: 0 plain (re-use disabled), 1 automatic re-use (label sent before), 2 explicit ReUse
        let mode = iter % 3;
        for bl in 0..=h + pdu_len + 8 {
            let mut enc = Encapsulator::new(DefaultCrc {});
            dec.reset_last_label();
            let (sent, wire, resolved) = match (mode, label) {
                (0, l) => {
                    enc.disable_re_use_label();
                    (l, l, l)
                }
                (_, Label::Broadcast) => (Label::Broadcast, Label::Broadcast, Label::Broadcast),
                (m, l) => {
                    // prime both sides with a complete packet carrying label l
                    let mut b = [0u8; 64];
                    let r = enc
                        .encap(b"x", 0, EncapMetadata::new(0x0800, l), &mut b)
                        .unwrap();
                    let EncapStatus::CompletedPkt(pl) = r else { panic!() };
                    match dec.decap(&b[..pl as usize]) {
                        Ok((DecapStatus::CompletedPkt(bx, _), _)) => {
                            dec.provision_storage(bx).unwrap()
                        }
                        o => panic!("{:?}", o),
                    }
                    if m == 1 {
                        (l, Label::ReUse, l)
                    } else {
                        (Label::ReUse, Label::ReUse, l)
                    }
                }
            };
            // when the label on the wire is shorter, the header is shorter too: still every size covered
            let mut k = 0usize;
            let mut cont = |rem: usize| {
                k += 1;
                // cycle through small sizes, sometimes exactly the end size
                match k % 5 {
                    0 => rem + 7,
                    1 => 4,
                    2 => 8,
                    3 => 5,
                    _ => rem + 6,
                }
            };
            let fid = (iter % 7) as u8;
            if let Err(e) = scenario(
                &mut enc, &mut dec, &know, &pdu, fid, pt, sent, wire, resolved, &exts, bl,
                &mut cont, &mut st,
            ) {
                panic!(
                    "T2 iter {} bl {} pt {:#x} label {:?} mode {} exts {:?} pdu_len {}: {}",
                    iter, bl, pt, label, mode, exts, pdu_len, e
                );
            }
            cases += 1;
        }
    }
    println!("T2 cases {} {:?}", cases, st);
    assert!(st.complete > 1000 && st.fragmented > 1000);
}

// ================================================================ T3: chains that fill a packet, max lengths, huge buffers
fn long_chain(rng: &mut Rng, target: usize, fin: bool) -> (Vec<Extension>, u16) {
    // build a chain whose wire size (ext area) is exactly `target` when possible
    let mut v = vec![];
    let mut cur = if fin { 0usize } else { 2 }; // trailing protocol type
    let last = if fin { Some(draw_ext(rng, true)) } else { None };
    if let Some(l) = &last {
        cur += l.len() - 2; // its id takes the slot of ... (counted below for uniformity)
        cur += 2;
        if v.is_empty() {
            // if it is the only extension its id is in the protocol type field: handled by caller formula
        }
    }
    // NB: wire_ext_len = sum(len) - (fin?2:0); we simply add until sum reaches target
    let mut sum = last.as_ref().map(|l| l.len()).unwrap_or(0);
    let goal = target + if fin { 2 } else { 0 };
    let _ = cur;
    while sum < goal {
        let rem = goal - sum;
        let e = if rem >= 257 && rng.below(2) == 0 {
            Extension::new(0x7F, &rng.bytes(255)).unwrap()
        } else if rem >= 102 && rng.below(3) == 0 {
            Extension::new(0x7E, &rng.bytes(100)).unwrap()
        } else if rem >= 10 && rng.below(2) == 0 {
            Extension::new(0x500 + rng.below(256) as u16, &rng.bytes(8)).unwrap()
        } else if rem >= 4 && rem != 5 && rng.below(2) == 0 {
            Extension::new(0x200 + rng.below(256) as u16, &rng.bytes(2)).unwrap()
        } else if rem == 3 || rem == 5 {
            // odd remainder: id 10 has 1 data byte (10 % 9)
            Extension::new(10, &rng.bytes(1)).unwrap()
        } else if rem >= 2 {
            Extension::new(0x100 + rng.below(256) as u16, &[]).unwrap()
        } else {
            break; // rem == 1 impossible: leave one short
        };
        sum += e.len();
        v.push(e);
    }
    let pt = if let Some(l) = last {
        let id = l.id();
        v.push(l);
        id
    } else {
        0x0800
    };
    (v, pt)
}

#[test]
fn t3_packet_filling_chains() {
    let know = know_all();
    let mut dec = mk_decap(know.clone(), 4);
    let mut rng = Rng::new(3);
    let mut st = Stats::default();
    let mut cases = 0usize;
    let labels_l = [
        Label::Broadcast,
        Label::ThreeBytesLabel([1, 2, 3]),
        Label::SixBytesLabel([1, 2, 3, 4, 5, 6]),
    ];
    for iter in 0..400 {
        let label = labels_l[iter % 3];
        let fin = rng.below(3) == 0;
        // ext area target around the maximum
        let base = 4095 - 2 - label.len(); // ext + pdu must be <= base for a complete packet... (ext area includes trailing ptype)
        let target = match rng.below(4) {
            0 => base - rng.below(12),
            1 => base + rng.below(8),
            2 => base - 20 - rng.below(300),
            _ => 1000 + rng.below(3000),
        };
        let (exts, pt) = long_chain(&mut rng, target, fin);
        let extw = wire_ext_len(&exts, pt < 0x100);
        for pdu_len in [0usize, 1, 2, 3, 4, 5, 6, 7, 8, 30, 5000, 65535 - 2 - label.len(), 65535 - 1 - label.len()] {
            let pdu = rng.bytes(pdu_len);
            for bl in [
                4090usize, 4093, 4094, 4095, 4096, 4097, 4098, 4099, 4100, 4101, 4102, 5000, 70000,
                2 + 2 + label.len() + extw + pdu_len,
                2 + 2 + label.len() + extw + pdu_len + 1,
                (2 + 2 + label.len() + extw + pdu_len).saturating_sub(1),
                2 + 2 + label.len() + extw + 3,
                2 + 2 + label.len() + extw + 2,
                2 + 2 + label.len() + extw + 4,
            ] {
                let mut enc = Encapsulator::new(DefaultCrc {});
                enc.disable_re_use_label();
                dec.reset_last_label();
                let mut k = 0usize;
                let mut cont = |rem: usize| {
                    k += 1;
                    match k % 4 {
                        0 => 70000,
                        1 => 4097,
                        2 => rem + 7,
                        _ => 4096,
                    }
                };
                if let Err(e) = scenario(
                    &mut enc, &mut dec, &know, &pdu, 3, pt, label, label, label, &exts, bl,
                    &mut cont, &mut st,
                ) {
                    panic!(
                        "T3 iter {} bl {} pt {:#x} label {:?} extw {} n_ext {} pdu_len {}: {}",
                        iter, bl, pt, label, extw, exts.len(), pdu_len, e
                    );
                }
                cases += 1;
            }
        }
    }
    println!("T3 cases {} {:?}", cases, st);
}

// ================================================================ T4: receivers that know some / none of the ids
#[test]
fn t4_partial_knowledge() {
    let all = know_all();
    let mut rng = Rng::new(4);
    let mut n_rej = 0usize;
    let mut n_ok = 0usize;
    for iter in 0..3000 {
        let keep = [0usize, 300, 700, 950][iter % 4];
        let know = know_subset(&mut rng, keep);
        let mut dec = mk_decap_small(know.clone(), 2, 600);
        let n = 1 + rng.below(5);
        let (exts, pt) = draw_chain(&mut rng, n);
        let label = labels(&mut rng);
        let pdu_len = 1 + rng.below(60);
        let pdu = rng.bytes(pdu_len);
        let mut enc = Encapsulator::new(DefaultCrc {});
        enc.disable_re_use_label();
        let fin = pt < 0x100;
        let h = 2 + 2 + label.len() + wire_ext_len(&exts, fin);
        let frag = rng.below(2) == 0 && pdu_len > 4;
        let bl = if frag { h + 3 + rng.below(pdu_len - 3) } else { h + pdu_len + rng.below(5) };
        let mut buf = vec![0u8; bl + 300];
        let r = enc
            .encap_ext(&pdu, 1, EncapMetadata::new(pt, label), &mut buf[..bl], exts.clone())
            .unwrap();
        let (len, ctx) = match r {
            EncapStatus::CompletedPkt(l) => (l as usize, None),
            EncapStatus::FragmentedPkt(l, c) => (l as usize, Some(c)),
        };
        // trailing garbage after the packet
        let g = rng.bytes(300);
        let gl = 300.min(buf.len() - len);
        buf[len..len + gl].copy_from_slice(&g[..gl]);
        // what should happen?
        let pall = parse(&buf[..len], &all).unwrap();
        let first_unknown = pall
            .exts
            .iter()
            .find(|(id, _)| *id < 0x100 && know.0[*id as usize].is_none());
        // first keep a pending reassembly of frag id 1? only half the time
        let d = dec.decap(&buf);
        match first_unknown {
            Some(_) => {
                match d {
                    Err((DecapError::ErrorUnkownMandatoryHeader, n)) => assert_eq!(n, len, "iter {}", iter),
                    o => panic!("iter {} expected unknown-mandatory drop, got {:?}", iter, o.map(|x| x.1)),
                }
                n_rej += 1;
                // a continuation must not complete anything
                if let Some(c) = ctx {
                    let mut b2 = vec![0u8; 4097];
                    let r2 = enc.encap_frag(&pdu, &c, &mut b2).unwrap();
                    let EncapStatus::CompletedPkt(l2) = r2 else { panic!() };
                    match dec.decap(&b2[..l2 as usize]) {
                        Err((DecapError::ErrorMemory(DecapMemoryError::UndefinedId), n)) => {
                            assert_eq!(n, l2 as usize)
                        }
                        o => panic!("iter {} continuation after drop {:?}", iter, o.map(|x| x.1)),
                    }
                }
            }
            None => {
                n_ok += 1;
                match (ctx, d) {
                    (None, Ok((DecapStatus::CompletedPkt(b, md), n))) => {
                        assert_eq!(n, len);
                        assert_eq!(&b[..md.pdu_len()], &pdu[..]);
                        assert_eq!(md.extensions()[..], exts[..]);
                        assert_eq!(md.protocol_type(), pt);
                        assert_eq!(md.label(), label);
                    }
                    (Some(c), Ok((DecapStatus::FragmentedPkt(md), n))) => {
                        assert_eq!(n, len);
                        assert_eq!(md.extensions()[..], exts[..]);
                        let mut b2 = vec![0u8; 4097];
                        let r2 = enc.encap_frag(&pdu, &c, &mut b2).unwrap();
                        let EncapStatus::CompletedPkt(l2) = r2 else { panic!() };
                        match dec.decap(&b2[..l2 as usize]) {
                            Ok((DecapStatus::CompletedPkt(b, md), n)) => {
                                assert_eq!(n, l2 as usize);
                                assert_eq!(&b[..md.pdu_len()], &pdu[..]);
                                assert_eq!(md.extensions()[..], exts[..]);
                                assert_eq!(md.protocol_type(), pt);
                                assert_eq!(md.label(), label);
                            }
                            o => panic!("iter {} {:?}", iter, o.map(|x| x.1)),
                        }
                    }
                    (_, o) => panic!("iter {} {:?}", iter, o.map(|x| x.1)),
                }
            }
        }
    }
    println!("T4 rejected {} accepted {}", n_rej, n_ok);
    assert!(n_rej > 300 && n_ok > 300);
}

fn mk_decap_small<M: MandatoryHeaderExtensionManager>(m: M, slots: usize, sz: usize) -> Dec<M> {
    let mut memory = SimpleGseMemory::new(slots, sz, 0, 0);
    for _ in 0..slots + 2 {
        memory
            .provision_storage(vec![0u8; sz].into_boxed_slice())
            .unwrap();
    }
    Decapsulator::new(memory, DefaultCrc {}, m)
}

// ================================================================ T5: frames
#[derive(Clone, Debug, PartialEq, Eq)]
enum Out {
    Complete(Vec<u8>, u16, Label, Vec<Extension>),
    Frag(u16, Label, Vec<Extension>),
    Padding,
    Err(DecapError),
}
fn out_of(r: Result<(DecapStatus, usize), (DecapError, usize)>) -> (Out, usize, Option<Box<[u8]>>) {
    match r {
        Ok((DecapStatus::CompletedPkt(b, md), n)) => (
            Out::Complete(
                b[..md.pdu_len()].to_vec(),
                md.protocol_type(),
                md.label(),
                md.extensions().clone(),
            ),
            n,
            Some(b),
        ),
        Ok((DecapStatus::FragmentedPkt(md), n)) => (
            Out::Frag(md.protocol_type(), md.label(), md.extensions().clone()),
            n,
            None,
        ),
        Ok((DecapStatus::Padding, n)) => (Out::Padding, n, None),
        Err((e, n)) => {
            // give a storage carried by the error back? (not with SimpleGseMemory here)
            (Out::Err(e), n, None)
        }
    }
}

#[test]
fn t5_frames() {
    let mut rng = Rng::new(5);
    let mut total_pkts = 0usize;
    let mut total_frames = 0usize;
    let mut rejected = 0usize;
    for iter in 0..1500 {
        let keep = [1000usize, 1000, 800, 0][iter % 4];
        let know = if keep == 1000 { know_all() } else { know_subset(&mut rng, keep) };
        // two receivers with the same history: A walks frames, B gets every packet alone
        let mut a = mk_decap_small(know.clone(), 4, 3000);
        let mut b = mk_decap_small(know.clone(), 4, 3000);
        let mut enc = Encapsulator::new(DefaultCrc {});
        if iter % 2 == 0 {
            enc.disable_re_use_label();
        }
        // pending PDUs being fragmented: (pdu, ctx)
        let mut pend: Vec<(Vec<u8>, ContextFrag)> = vec![];
        let mut next_fid = 0u8;
        let label_pool = [
            Label::Broadcast,
            Label::ThreeBytesLabel([7, 7, 7]),
            Label::SixBytesLabel([9, 9, 9, 9, 9, 9]),
            Label::ThreeBytesLabel([0, 0, 0]),
        ];
        for _frame in 0..(2 + rng.below(4)) {
            total_frames += 1;
            enc.reset_last_label();
            a.reset_last_label();
            b.reset_last_label();
            let mut frame: Vec<u8> = vec![];
            let mut pkts: Vec<(usize, usize)> = vec![];
            let npk = 1 + rng.below(7);
            for _ in 0..npk {
                let mut buf = vec![0u8; 1 + rng.below(400)];
                let choice = rng.below(10);
                let res = if !pend.is_empty() && choice < 5 {
                    let i = rng.below(pend.len());
                    let (pdu, c) = pend[i].clone();
                    match enc.encap_frag(&pdu, &c, &mut buf) {
                        Ok(EncapStatus::CompletedPkt(l)) => {
                            pend.remove(i);
                            // sometimes corrupt the crc -> rejected packet
                            if rng.below(6) == 0 {
                                buf[l as usize - 1] ^= 0x40;
                                rejected += 1;
                            }
                            Some(l as usize)
                        }
                        Ok(EncapStatus::FragmentedPkt(l, nc)) => {
                            pend[i].1 = nc;
                            Some(l as usize)
                        }
                        Err(_) => None,
                    }
                } else {
                    let pdu_len = rng.below(500);
                    let pdu = rng.bytes(pdu_len);
                    let label = label_pool[rng.below(4)];
                    let fid = next_fid;
                    next_fid = (next_fid + 1) % 4;
                    let r = if choice == 9 {
                        enc.encap(&pdu, fid, EncapMetadata::new(0x0800, label), &mut buf)
                    } else {
                        let n = 1 + rng.below(4);
                        let (exts, pt) = draw_chain(&mut rng, n);
                        enc.encap_ext(&pdu, fid, EncapMetadata::new(pt, label), &mut buf, exts)
                    };
                    match r {
                        Ok(EncapStatus::CompletedPkt(l)) => Some(l as usize),
                        Ok(EncapStatus::FragmentedPkt(l, c)) => {
                            pend.retain(|(_, c2)| c2.frag_id() != fid);
                            if pend.len() < 3 {
                                pend.push((pdu, c));
                            }
                            Some(l as usize)
                        }
                        Err(_) => None,
                    }
                };
                if let Some(l) = res {
                    // never reads as padding
                    assert!(!(buf[0] & 0xF0 == 0), "padding-like packet emitted");
                    pkts.push((frame.len(), l));
                    frame.extend_from_slice(&buf[..l]);
                }
            }
            // trailing padding 0..6 bytes
            let npad = rng.below(7);
            frame.extend(std::iter::repeat(0u8).take(npad));
            // walk
            let mut off = 0usize;
            let mut idx = 0usize;
            while off < frame.len() {
                let (oa, na, sa) = out_of(a.decap(&frame[off..]));
                if idx < pkts.len() {
                    let (po, pl) = pkts[idx];
                    assert_eq!(po, off, "iter {} walk desync", iter);
                    // alone, followed by garbage of random length
                    let mut alone = frame[po..po + pl].to_vec();
                    if rng.below(2) == 0 {
                        let gl = rng.below(40);
                        alone.extend(rng.bytes(gl));
                    }
                    let (ob, nb, sb) = out_of(b.decap(&alone));
                    assert_eq!(oa, ob, "iter {} pkt {} outcome differs in frame / alone", iter, idx);
                    assert_eq!(na, pl, "iter {} pkt {} consumed {} != {} ({:?})", iter, idx, na, pl, oa);
                    assert_eq!(nb, pl, "iter {} pkt {} alone consumed {} != {} ({:?})", iter, idx, nb, pl, ob);
                    if let Some(s) = sa {
                        a.provision_storage(s).unwrap();
                    }
                    if let Some(s) = sb {
                        b.provision_storage(s).unwrap();
                    }
                    if matches!(oa, Out::Err(_)) {
                        rejected += 1;
                    }
                    total_pkts += 1;
                    idx += 1;
                } else {
                    let rest = frame.len() - off;
                    if rest >= 2 {
                        assert_eq!(oa, Out::Padding);
                        assert_eq!(na, rest);
                    } else {
                        assert_eq!(na, rest);
                    }
                }
                off += na;
            }
            assert_eq!(idx, pkts.len());
            assert_eq!(off, frame.len());
        }
    }
    println!("T5 frames {} pkts {} rejected {}", total_frames, total_pkts, rejected);
}

// ================================================================ T6: bundled managers
#[test]
fn t6_simple_and_signalisation() {
    let mut rng = Rng::new(6);
    let mut simple = mk_decap_small(SimpleMandatoryExtensionHeaderManager {}, 2, 300);
    let mut sig = mk_decap_small(SignalisationMandatoryExtensionHeaderManager {}, 2, 300);
    let mut n = 0;
    for iter in 0..4000 {
        let mut enc = Encapsulator::new(DefaultCrc {});
        enc.disable_re_use_label();
        simple.reset_last_label();
        sig.reset_last_label();
        // chain of optional extensions, optionally ended by 0x81 / 0x82 (no data) or another mandatory
        let mut exts = vec![];
        for _ in 0..rng.below(4) {
            let h = 1 + rng.below(5) as u16;
            exts.push(Extension::new((h << 8) | rng.below(256) as u16, &rng.bytes((h as usize - 1) * 2)).unwrap());
        }
        let tail = rng.below(5);
        let pt: u16 = match tail {
            0 => {
                exts.push(Extension::new(0x81, &[]).unwrap());
                0x81
            }
            1 => {
                exts.push(Extension::new(0x82, &[]).unwrap());
                0x82
            }
            2 => {
                exts.push(Extension::new(0x83, &[]).unwrap());
                0x83
            }
            _ => 0x0800,
        };
        if exts.is_empty() {
            continue;
        }
        let label = labels(&mut rng);
        let pl = 1 + rng.below(100);
        let pdu = rng.bytes(pl);
        let mut buf = vec![0u8; 400];
        let cut = rng.below(2) == 0;
        let fin = pt < 0x100;
        let h = 4 + label.len() + wire_ext_len(&exts, fin);
        let bl = if cut && pdu.len() > 4 { h + 3 + rng.below(pdu.len() - 3) } else { 400 };
        let r = enc
            .encap_ext(&pdu, 0, EncapMetadata::new(pt, label), &mut buf[..bl], exts.clone())
            .unwrap();
        let (l, ctx) = match r {
            EncapStatus::CompletedPkt(l) => (l as usize, None),
            EncapStatus::FragmentedPkt(l, c) => (l as usize, Some(c)),
        };
        let mut b2 = vec![0u8; 400];
        let l2 = ctx.map(|c| match enc.encap_frag(&pdu, &c, &mut b2).unwrap() {
            EncapStatus::CompletedPkt(l) => l as usize,
            _ => panic!(),
        });
        // simple: accepts iff no mandatory
        let has_mand = tail <= 2;
        let sig_ok = tail != 2;
        for (which, ok) in [(0, !has_mand), (1, sig_ok)] {
            let d1 = if which == 0 { simple.decap(&buf[..l + 20]) } else { sig.decap(&buf[..l + 20]) };
            let fin_out = match (ok, l2, d1) {
                (false, _, Err((DecapError::ErrorUnkownMandatoryHeader, c))) => {
                    assert_eq!(c, l);
                    if let Some(l2) = l2 {
                        let d2 = if which == 0 { simple.decap(&b2[..l2]) } else { sig.decap(&b2[..l2]) };
                        assert!(matches!(d2, Err((DecapError::ErrorMemory(DecapMemoryError::UndefinedId), c2)) if c2 == l2));
                    }
                    None
                }
                (true, None, Ok((DecapStatus::CompletedPkt(b, md), c))) => {
                    assert_eq!(c, l);
                    Some((b, md))
                }
                (true, Some(l2), Ok((DecapStatus::FragmentedPkt(_), c))) => {
                    assert_eq!(c, l);
                    let d2 = if which == 0 { simple.decap(&b2[..l2]) } else { sig.decap(&b2[..l2]) };
                    match d2 {
                        Ok((DecapStatus::CompletedPkt(b, md), c2)) => {
                            assert_eq!(c2, l2);
                            Some((b, md))
                        }
                        o => panic!("iter {} {:?}", iter, o.map(|x| x.1)),
                    }
                }
                (_, _, o) => panic!("iter {} which {} ok {} {:?}", iter, which, ok, o.map(|x| x.1)),
            };
            if let Some((b, md)) = fin_out {
                assert_eq!(&b[..md.pdu_len()], &pdu[..]);
                assert_eq!(md.extensions()[..], exts[..]);
                assert_eq!(md.protocol_type(), pt);
                assert_eq!(md.label(), label);
                if which == 0 { simple.provision_storage(b).unwrap() } else { sig.provision_storage(b).unwrap() };
                n += 1;
            }
        }
    }
    println!("T6 accepted {}", n);
}

// ================================================================ T7: encap_ext argument validation around the protocol type borders
#[test]
fn t7_protocol_type_borders() {
    let mut enc = Encapsulator::new(DefaultCrc {});
    enc.disable_re_use_label();
    let pdu = [1u8, 2, 3, 4];
    let mut n_ok = 0;
    for pt in (0u16..=0x700).chain([0x7FF, 0x800, 0xFFFE, 0xFFFF]) {
        for last in [0x00u16, 0x01, 0xFE, 0xFF, 0x100, 0x1FF, 0x2AB, 0x5FF] {
            for first_opt in [false, true] {
                let mut exts = vec![];
                if first_opt {
                    exts.push(Extension::new(0x3FF, &[1, 2, 3, 4]).unwrap());
                }
                let d = if last < 0x100 { vec![9u8; world_role(last).1 as usize] } else { vec![0u8; ((last >> 8) as usize - 1) * 2] };
                exts.push(Extension::new(last, &d).unwrap());
                let mut buf = [0u8; 400];
                let r = enc.encap_ext(&pdu, 0, EncapMetadata::new(pt, Label::Broadcast), &mut buf, exts.clone());
                let expect_ok = pt >= 0x600 || (pt < 0x100 && last == pt);
                assert_eq!(r.is_ok(), expect_ok, "pt {:#x} last {:#x} -> {:?}", pt, last, r);
                if (0x100..0x600).contains(&pt) {
                    assert_eq!(r, Err(EncapError::ErrorProtocolType));
                }
                if let Ok(EncapStatus::CompletedPkt(l)) = r {
                    // decodable under a receiver whose table gives `last` the role the sender used
                    let mut k = know_all();
                    if last < 0x100 {
                        k.0[last as usize] = Some((pt < 0x100, world_role(last).1));
                    }
                    let mut dec = mk_decap_small(k, 1, 64);
                    match dec.decap(&buf[..l as usize]) {
                        Ok((DecapStatus::CompletedPkt(b, md), c)) => {
                            assert_eq!(c, l as usize);
                            assert_eq!(&b[..md.pdu_len()], &pdu[..]);
                            assert_eq!(md.protocol_type(), pt);
                            assert_eq!(md.extensions()[..], exts[..]);
                            n_ok += 1;
                        }
                        o => panic!("pt {:#x} last {:#x} {:?}", pt, last, o.map(|x| x.1)),
                    }
                }
            }
        }
    }
    println!("T7 ok {}", n_ok);
}

// ================================================================ T8: storage too small / no storage, packets with chains, inside frames
#[test]
fn t8_storage_limits_with_chains() {
    let know = know_all();
    let mut rng = Rng::new(8);
    let (mut n_small, mut n_ok, mut n_none) = (0, 0, 0);
    for iter in 0..4000 {
        let s = 1 + rng.below(40);
        let provision = rng.below(4) != 0;
        let mut memory = SimpleGseMemory::new(2, s, 0, 0);
        if provision {
            for _ in 0..3 {
                memory.provision_storage(vec![0u8; s].into_boxed_slice()).unwrap();
            }
        }
        let mut dec = Decapsulator::new(memory, DefaultCrc {}, know.clone());
        let mut enc = Encapsulator::new(DefaultCrc {});
        enc.disable_re_use_label();
        let mut frame = vec![];
        let mut exp = vec![];
        for _ in 0..4 {
            let n = 1 + rng.below(4);
            let (exts, pt) = draw_chain(&mut rng, n);
            let label = labels(&mut rng);
            let pl = rng.below(60);
            let pdu = rng.bytes(pl);
            let fin = pt < 0x100;
            let h = 4 + label.len() + wire_ext_len(&exts, fin);
            let frag = rng.below(2) == 0 && pl > 6;
            let bl = if frag { h + 3 + 1 + rng.below(pl - 5) } else { h + pl };
            let mut buf = vec![0u8; bl];
            match enc.encap_ext(&pdu, 1, EncapMetadata::new(pt, label), &mut buf, exts.clone()).unwrap() {
                EncapStatus::CompletedPkt(l) => {
                    assert_eq!(l as usize, bl);
                    frame.extend_from_slice(&buf);
                    exp.push((bl, 0u8, pl, pdu.clone(), exts.clone()));
                }
                EncapStatus::FragmentedPkt(l, c) => {
                    assert_eq!(l as usize, bl);
                    frame.extend_from_slice(&buf);
                    exp.push((bl, 1u8, c.len_pdu_frag() as usize, pdu.clone(), exts.clone()));
                    let mut b2 = vec![0u8; 200];
                    let EncapStatus::CompletedPkt(l2) = enc.encap_frag(&pdu, &c, &mut b2).unwrap() else { panic!() };
                    frame.extend_from_slice(&b2[..l2 as usize]);
                    exp.push((l2 as usize, 2u8, pl, pdu.clone(), exts.clone()));
                }
            }
        }
        frame.extend_from_slice(&[0, 0, 0]);
        let mut off = 0;
        let mut first_ok = false;
        for (len, kind, plen, pdu, exts) in exp {
            let r = dec.decap(&frame[off..]);
            match kind {
                0 => match r {
                    Ok((DecapStatus::CompletedPkt(b, md), c)) => {
                        assert!(provision && plen <= s, "iter {}", iter);
                        assert_eq!(c, len);
                        assert_eq!(&b[..md.pdu_len()], &pdu[..]);
                        assert_eq!(md.extensions()[..], exts[..]);
                        dec.provision_storage(b).unwrap();
                        n_ok += 1;
                    }
                    Err((DecapError::ErrorSizePduBuffer, c)) => {
                        assert!(provision && plen > s, "iter {}", iter);
                        assert_eq!(c, len);
                        n_small += 1;
                    }
                    Err((DecapError::ErrorMemory(DecapMemoryError::StorageUnderflow), c)) => {
                        assert!(!provision);
                        assert_eq!(c, len);
                        n_none += 1;
                    }
                    o => panic!("iter {} {:?}", iter, o.map(|x| x.1)),
                },
                1 => match r {
                    Ok((DecapStatus::FragmentedPkt(md), c)) => {
                        assert!(provision && plen <= s, "iter {}", iter);
                        assert_eq!(c, len);
                        assert_eq!(md.extensions()[..], exts[..]);
                        first_ok = true;
                    }
                    Err((DecapError::ErrorSizePduBuffer, c)) => {
                        assert!(provision && plen > s);
                        assert_eq!(c, len);
                        first_ok = false;
                        n_small += 1;
                    }
                    Err((DecapError::ErrorMemory(DecapMemoryError::StorageUnderflow), c)) => {
                        assert!(!provision);
                        assert_eq!(c, len);
                        first_ok = false;
                        n_none += 1;
                    }
                    o => panic!("iter {} {:?}", iter, o.map(|x| x.1)),
                },
                _ => match r {
                    Ok((DecapStatus::CompletedPkt(b, md), c)) => {
                        assert!(first_ok && plen <= s, "iter {}", iter);
                        assert_eq!(c, len);
                        assert_eq!(&b[..md.pdu_len()], &pdu[..]);
                        assert_eq!(md.extensions()[..], exts[..]);
                        dec.provision_storage(b).unwrap();
                        n_ok += 1;
                    }
                    Err((DecapError::ErrorSizePduBuffer, c)) => {
                        assert!(first_ok && plen > s, "iter {}", iter);
                        assert_eq!(c, len);
                        n_small += 1;
                    }
                    Err((DecapError::ErrorMemory(DecapMemoryError::UndefinedId), c)) => {
                        assert!(!first_ok, "iter {}", iter);
                        assert_eq!(c, len);
                    }
                    o => panic!("iter {} {:?}", iter, o.map(|x| x.1)),
                },
            }
            off += len;
        }
        match dec.decap(&frame[off..]) {
            Ok((DecapStatus::Padding, 3)) => {}
            o => panic!("{:?}", o.map(|x| x.1)),
        }
    }
    println!("T8 ok {} too small {} none {}", n_ok, n_small, n_none);
}

// ================================================================ T9: exhaustive chains 1..=4 over every class
fn class_pool() -> (Vec<Extension>, Vec<Extension>) {
    let mut nonlast = vec![];
    for h in 1u16..=5 {
        let d: Vec<u8> = (0..(h as usize - 1) * 2).map(|i| 0xA0 + i as u8 + h as u8).collect();
        nonlast.push(Extension::new((h << 8) | (0x11 * h), &d).unwrap());
    }
    for id in 9u16..=17 {
        let d: Vec<u8> = (0..world_role(id).1).map(|i| 0x30 + i + id as u8).collect();
        assert!(!world_role(id).0);
        nonlast.push(Extension::new(id, &d).unwrap());
    }
    let mut finals = vec![];
    for id in 0x87u16..=0x8F {
        let d: Vec<u8> = (0..world_role(id).1).map(|i| 0x60 + i).collect();
        assert!(world_role(id).0);
        finals.push(Extension::new(id, &d).unwrap());
    }
    (nonlast, finals)
}

#[test]
fn t9_exhaustive_chains() {
    let know = know_all();
    let mut dec = mk_decap_small(know.clone(), 2, 64);
    let (nonlast, finals) = class_pool();
    let mut st = Stats::default();
    let labels_l = [
        Label::Broadcast,
        Label::ThreeBytesLabel([1, 2, 3]),
        Label::SixBytesLabel([1, 2, 3, 4, 5, 6]),
    ];
    let mut chains: Vec<Vec<Extension>> = vec![vec![]];
    let mut cases = 0usize;
    for depth in 1..=4usize {
        // all prefixes of length depth-1 are in `chains`
        let prefixes = chains.clone();
        let mut next = vec![];
        for p in &prefixes {
            if p.len() != depth - 1 {
                continue;
            }
            for (li, last) in nonlast.iter().chain(finals.iter()).enumerate() {
                let mut c = p.clone();
                c.push(last.clone());
                let is_fin = li >= nonlast.len();
                for pt in if is_fin { vec![last.id()] } else { vec![0x0600u16, 0xFFFF] } {
                    let extw = wire_ext_len(&c, is_fin);
                    for label in labels_l {
                        for pdu_len in [0usize, 1, 5] {
                            let pdu: Vec<u8> = (0..pdu_len).map(|i| 0xE0 + i as u8).collect();
                            let h = 4 + label.len() + extw;
                            let bls: Vec<usize> = if depth <= 2 {
                                (0..=h + pdu_len + 5).collect()
                            } else {
                                vec![h - 1, h, h + 2, h + 3, h + 4, h + pdu_len - 1, h + pdu_len, h + pdu_len + 3, h + pdu_len + 4, 4097, 5000]
                            };
                            for bl in bls {
                                let mut enc = Encapsulator::new(DefaultCrc {});
                                enc.disable_re_use_label();
                                let mut k = 0;
                                let mut cont = |rem: usize| {
                                    k += 1;
                                    if k % 2 == 1 { 4 } else { rem + 7 }
                                };
                                if let Err(e) = scenario(&mut enc, &mut dec, &know, &pdu, 0, pt, label, label, label, &c, bl, &mut cont, &mut st) {
                                    panic!("T9 chain {:?} pt {:#x} label {:?} pdu {} bl {}: {}", c, pt, label, pdu_len, bl, e);
                                }
                                cases += 1;
                            }
                        }
                    }
                }
                if !is_fin {
                    next.push(c);
                }
            }
        }
        chains.extend(next);
    }
    println!("T9 cases {} {:?}", cases, st);
}

// ================================================================ T10: receivers with arbitrary (wrong) tables, mutated packets: no panic, 0 < consumed <= len
#[test]
fn t10_wrong_tables_and_mutations_no_panic() {
    let mut rng = Rng::new(10);
    let mut n = 0usize;
    for _ in 0..60000 {
        let know = Know(
            (0..256)
                .map(|_| match rng.below(3) {
                    0 => None,
                    1 => Some((true, [0u8, 1, 2, 7, 255][rng.below(5)])),
                    _ => Some((false, [0u8, 1, 2, 7, 255][rng.below(5)])),
                })
                .collect(),
        );
        let mut dec = mk_decap_small(know, 2, 200);
        let mut enc = Encapsulator::new(DefaultCrc {});
        let nn = 1 + rng.below(5);
        let (exts, pt) = draw_chain(&mut rng, nn);
        let label = labels(&mut rng);
        let pl = rng.below(80);
        let pdu = rng.bytes(pl);
        let bl = 10 + rng.below(200);
        let mut buf = vec![0u8; bl];
        let mut frame = vec![];
        if let Ok(s) = enc.encap_ext(&pdu, rng.below(3) as u8, EncapMetadata::new(pt, label), &mut buf, exts) {
            match s {
                EncapStatus::CompletedPkt(l) => frame.extend_from_slice(&buf[..l as usize]),
                EncapStatus::FragmentedPkt(l, c) => {
                    frame.extend_from_slice(&buf[..l as usize]);
                    let mut b2 = vec![0u8; 300];
                    if let Ok(EncapStatus::CompletedPkt(l2)) = enc.encap_frag(&pdu, &c, &mut b2) {
                        frame.extend_from_slice(&b2[..l2 as usize]);
                    }
                }
            }
        }
        // mutate a few bytes sometimes
        if !frame.is_empty() {
            for _ in 0..rng.below(3) {
                let i = rng.below(frame.len().min(24));
                frame[i] = (rng.next() >> 40) as u8;
            }
        }
        let cut = rng.below(8);
        let fl = frame.len();
        if cut == 0 && fl > 0 {
            frame.truncate(rng.below(fl));
        }
        let mut off = 0;
        while off < frame.len() {
            let (c, st) = match dec.decap(&frame[off..]) {
                Ok((DecapStatus::CompletedPkt(b, md), c)) => {
                    assert!(md.pdu_len() <= b.len());
                    (c, Some(b))
                }
                Ok((_, c)) => (c, None),
                Err((DecapError::ErrorMemory(DecapMemoryError::StorageOverflow(b)), c))
                | Err((DecapError::ErrorMemory(DecapMemoryError::BufferTooSmall(b)), c)) => (c, Some(b)),
                Err((_, c)) => (c, None),
            };
            if let Some(b) = st {
                let _ = dec.provision_storage(b);
            }
            assert!(c > 0 && off + c <= frame.len(), "consumed {} of {}", c, frame.len() - off);
            off += c;
            n += 1;
        }
    }
    println!("T10 decap calls {}", n);
}
