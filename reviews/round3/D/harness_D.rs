//! Reviewer D harness: SIZE ARITHMETIC on the sender (public API only).
//!
//! Independent model of the sender (which packet kind, how long, how much payload, which error),
//! independent serializer of the expected packet (byte-exact comparison of everything the sender
//! writes), independent CRC-32, and a receiver round trip.
//!
//! HARNESS_FULL=1 switches the O(1) preview sweeps to the full two-dimensional domain
//! (0..=70000 x 0..=70000); meant for optimized builds.

use dvb_gse_rust::crc::{CrcCalculator, DefaultCrc};
use dvb_gse_rust::gse_decap::{
    read_gse_header, DecapStatus, Decapsulator, GseDecapMemory, SimpleGseMemory,
};
use dvb_gse_rust::gse_encap::{
    encap_frag_preview, encap_preview, ContextFrag, EncapError, EncapMetadata, EncapPreview,
    EncapStatus, Encapsulator,
};
use dvb_gse_rust::header_extension::{
    Extension, ExtensionData, MandatoryHeaderExt, MandatoryHeaderExtensionManager,
};
use dvb_gse_rust::label::Label;

const MAXN: usize = 70000;
const FILL: u8 = 0xA5;

fn full() -> bool {
    std::env::var("HARNESS_FULL").map(|v| v == "1").unwrap_or(false)
}

fn pdu_bytes() -> Vec<u8> {
    (0..MAXN)
        .map(|i| ((i.wrapping_mul(31)) ^ (i >> 8).wrapping_mul(17) ^ (i >> 16).wrapping_mul(7)) as u8)
        .collect()
}

// ---------------------------------------------------------------------------------------------
// kinds
#[derive(Debug, PartialEq, Eq, Clone, Copy)]
enum K {
    Complete,
    First,
    Inter,
    End,
}

fn kind_of_preview(p: &EncapPreview) -> K {
    // PktType lives in a private module: reference values are obtained through read_gse_header
    let c = read_gse_header(0xE004).unwrap().1;
    let f = read_gse_header(0xA004).unwrap().1;
    let i = read_gse_header(0x3004).unwrap().1;
    let e = read_gse_header(0x7004).unwrap().1;
    let t = p.pkt_type();
    if t == c {
        K::Complete
    } else if t == f {
        K::First
    } else if t == i {
        K::Inter
    } else if t == e {
        K::End
    } else {
        unreachable!()
    }
}

// ---------------------------------------------------------------------------------------------
// CRC
/// cheap, length/metadata sensitive calculator: legal user-provided implementation of the trait.
#[derive(Clone, Debug, PartialEq, Eq)]
struct CheapCrc;
fn cheap(pdu: &[u8], pt: u16, tl: u16, label: &[u8]) -> u32 {
    let mut x = 0x9E37_79B9u32.wrapping_mul(pdu.len() as u32 + 1);
    x ^= (pt as u32) << 16;
    x ^= tl as u32;
    x = x.rotate_left(5) ^ (label.len() as u32);
    for b in label {
        x = x.rotate_left(3) ^ (*b as u32);
    }
    if let (Some(a), Some(b)) = (pdu.first(), pdu.last()) {
        x = x.rotate_left(7) ^ ((*a as u32) << 8) ^ (*b as u32);
    }
    x
}
impl CrcCalculator for CheapCrc {
    fn calculate_crc32(&self, pdu: &[u8], pt: u16, tl: u16, label: &[u8]) -> u32 {
        cheap(pdu, pt, tl, label)
    }
}

/// bitwise CRC-32/MPEG-2 (poly 0x04C11DB7, init all ones, no reflection, no final xor)
fn crc_bitwise(chunks: &[&[u8]]) -> u32 {
    let mut crc = 0xFFFF_FFFFu32;
    for c in chunks {
        for b in c.iter() {
            crc ^= (*b as u32) << 24;
            for _ in 0..8 {
                crc = if crc & 0x8000_0000 != 0 {
                    (crc << 1) ^ 0x04C1_1DB7
                } else {
                    crc << 1
                };
            }
        }
    }
    crc
}

// ---------------------------------------------------------------------------------------------
// labels
#[derive(Debug, Clone, Copy, PartialEq, Eq)]
enum LCfg {
    Bc,
    L3,
    L6,
    ExplicitReuse,
    L3Reused,
    L6Reused,
}
const ALL_LCFG: [LCfg; 6] = [
    LCfg::Bc,
    LCfg::L3,
    LCfg::L6,
    LCfg::ExplicitReuse,
    LCfg::L3Reused,
    LCfg::L6Reused,
];
const L3: Label = Label::ThreeBytesLabel([0x11, 0x22, 0x33]);
const L6: Label = Label::SixBytesLabel([0xC1, 0xC2, 0xC3, 0xC4, 0xC5, 0xC6]);

impl LCfg {
    /// label handed to the sender
    fn given(self) -> Label {
        match self {
            LCfg::Bc => Label::Broadcast,
            LCfg::L3 | LCfg::L3Reused => L3,
            LCfg::L6 | LCfg::L6Reused => L6,
            LCfg::ExplicitReuse => Label::ReUse,
        }
    }
    /// label that must be on the wire
    fn wire(self) -> Label {
        match self {
            LCfg::Bc => Label::Broadcast,
            LCfg::L3 => L3,
            LCfg::L6 => L6,
            _ => Label::ReUse,
        }
    }
    /// label to prime the sender (and the receiver) with
    fn prime(self) -> Option<Label> {
        match self {
            LCfg::L3Reused => Some(L3),
            LCfg::L6Reused | LCfg::ExplicitReuse => Some(L6),
            _ => None,
        }
    }
    /// label the receiver must report
    fn received(self) -> Label {
        match self {
            LCfg::Bc => Label::Broadcast,
            LCfg::L3 | LCfg::L3Reused => L3,
            _ => L6,
        }
    }
    fn substituted(self) -> bool {
        matches!(self, LCfg::L3Reused | LCfg::L6Reused)
    }
}
fn lt_bits(l: &Label) -> u16 {
    match l {
        Label::SixBytesLabel(_) => 0,
        Label::ThreeBytesLabel(_) => 1,
        Label::Broadcast => 2,
        Label::ReUse => 3,
    }
}
fn label_bytes(l: &Label) -> Vec<u8> {
    match l {
        Label::SixBytesLabel(b) => b.to_vec(),
        Label::ThreeBytesLabel(b) => b.to_vec(),
        _ => vec![],
    }
}

// ---------------------------------------------------------------------------------------------
// extensions
fn ext_data_bytes(e: &Extension) -> Vec<u8> {
    match e.data() {
        ExtensionData::Data2(d) => d.to_vec(),
        ExtensionData::Data4(d) => d.to_vec(),
        ExtensionData::Data6(d) => d.to_vec(),
        ExtensionData::Data8(d) => d.to_vec(),
        ExtensionData::NoData => vec![],
        ExtensionData::MandatoryData(d) => d.clone(),
    }
}
/// bytes between the label and the payload (the first id sits in the protocol type field)
fn ext_tail(exts: &[Extension], ptype: u16) -> Vec<u8> {
    let mut v = vec![];
    for (i, e) in exts.iter().enumerate() {
        if i > 0 {
            v.extend_from_slice(&e.id().to_be_bytes());
        }
        v.extend_from_slice(&ext_data_bytes(e));
    }
    if ptype >= 0x600 {
        v.extend_from_slice(&ptype.to_be_bytes());
    }
    v
}

// ---------------------------------------------------------------------------------------------
// model of the sender
/// n: PDU length, l: wire label length, e: bytes between label and payload, buf: buffer length
fn model_first(n: usize, l: usize, e: usize, buf: usize) -> Result<(K, usize, usize), EncapError> {
    let complete = 2 + 2 + l + e + n;
    if complete <= buf && complete <= 4097 {
        return Ok((K::Complete, complete, n));
    }
    let hdr = 2 + 1 + 2 + 2 + l + e;
    if hdr > buf || hdr > 4097 {
        return Err(EncapError::ErrorSizeBuffer);
    }
    if n + 2 + l > 65535 {
        return Err(EncapError::ErrorPduLength);
    }
    let room = buf.min(4097) - hdr;
    Ok((K::First, hdr + room, room))
}
/// rem: bytes not sent yet
fn model_next(rem: usize, buf: usize) -> Result<(K, usize, usize), EncapError> {
    let end = 2 + 1 + rem + 4;
    if end <= buf && end <= 4097 {
        return Ok((K::End, end, rem));
    }
    if rem > 0 && buf >= 4 {
        let payload = (buf.min(4097) - 3).min(rem);
        return Ok((K::Inter, 3 + payload, payload));
    }
    Err(EncapError::ErrorSizeBuffer)
}

#[allow(clippy::too_many_arguments)]
fn expected_packet(
    kind: K,
    lt: u16,
    frag_id: u8,
    total_len: u16,
    type_field: u16,
    label: &[u8],
    tail: &[u8],
    payload: &[u8],
    crc: u32,
) -> Vec<u8> {
    let mut body = vec![];
    match kind {
        K::Complete => {
            body.extend_from_slice(&type_field.to_be_bytes());
            body.extend_from_slice(label);
            body.extend_from_slice(tail);
            body.extend_from_slice(payload);
        }
        K::First => {
            body.push(frag_id);
            body.extend_from_slice(&total_len.to_be_bytes());
            body.extend_from_slice(&type_field.to_be_bytes());
            body.extend_from_slice(label);
            body.extend_from_slice(tail);
            body.extend_from_slice(payload);
        }
        K::Inter => {
            body.push(frag_id);
            body.extend_from_slice(payload);
        }
        K::End => {
            body.push(frag_id);
            body.extend_from_slice(payload);
            body.extend_from_slice(&crc.to_be_bytes());
        }
    }
    assert!(body.len() <= 4095, "model produced gse length {}", body.len());
    let (s, e) = match kind {
        K::Complete => (1u16, 1u16),
        K::First => (1, 0),
        K::Inter => (0, 0),
        K::End => (0, 1),
    };
    let lt = match kind {
        K::Inter | K::End => 3,
        _ => lt,
    };
    let hdr: u16 = (s << 15) | (e << 14) | (lt << 12) | body.len() as u16;
    let mut v = hdr.to_be_bytes().to_vec();
    v.extend_from_slice(&body);
    v
}

// ---------------------------------------------------------------------------------------------
// arena: a buffer whose untouched state is known
struct Arena {
    buf: Vec<u8>,
    reference: Vec<u8>,
}
impl Arena {
    fn new() -> Self {
        Arena {
            buf: vec![FILL; MAXN + 16],
            reference: vec![FILL; MAXN + 16],
        }
    }
    fn check_tail_and_restore(&mut self, written: usize, buf_len: usize, what: &str) {
        assert!(written <= buf_len, "{what}: returned {written} > buffer {buf_len}");
        assert!(
            self.buf[written..buf_len] == self.reference[written..buf_len],
            "{what}: bytes at or beyond the returned length were modified"
        );
        self.buf[..written].fill(FILL);
    }
    fn check_untouched(&self, buf_len: usize, what: &str) {
        assert!(
            self.buf[..buf_len] == self.reference[..buf_len],
            "{what}: buffer modified although an error was returned"
        );
    }
}

// ---------------------------------------------------------------------------------------------
// first call checker (encap or encap_ext), returns the context if a first fragment was emitted
struct FirstOut {
    kind: K,
    pkt: Vec<u8>,
    ctx: Option<ContextFrag>,
    sent: usize,
}

#[allow(clippy::too_many_arguments)]
fn check_first_call<C: CrcCalculator>(
    enc: &mut Encapsulator<C>,
    crc_of: &dyn Fn(&[u8], u16, u16, &[u8]) -> u32,
    pdu: &[u8],
    frag_id: u8,
    ptype: u16,
    lcfg: LCfg,
    exts: Option<&[Extension]>,
    arena: &mut Arena,
    buf_len: usize,
) -> Result<FirstOut, EncapError> {
    let n = pdu.len();
    let wire = lcfg.wire();
    let lb = label_bytes(&wire);
    let l = lb.len();
    let (tail, type_field) = match exts {
        Some(x) => (ext_tail(x, ptype), x[0].id()),
        None => (vec![], ptype),
    };
    let e = tail.len();
    let what = format!(
        "first call n={n} buf={buf_len} lcfg={lcfg:?} ptype={ptype:#x} e={e} ext={}",
        exts.is_some()
    );
    let meta = EncapMetadata::new(ptype, lcfg.given());
    let model = model_first(n, l, e, buf_len);

    // preview (no extensions, no substitution)
    if exts.is_none() && !lcfg.substituted() {
        let p = encap_preview(pdu, meta, &arena.buf[..buf_len]);
        match (&p, &model) {
            (Ok(p), Ok((k, len, _))) => {
                assert_eq!(kind_of_preview(p), *k, "{what}: preview kind");
                assert_eq!(p.pkt_len() as usize, *len, "{what}: preview length");
            }
            (Err(a), Err(b)) => assert_eq!(a, b, "{what}: preview error"),
            _ => panic!("{what}: preview {p:?} model {model:?}"),
        }
        arena.check_untouched(buf_len, &what);
    }

    let r = match exts {
        Some(x) => enc.encap_ext(pdu, frag_id, meta, &mut arena.buf[..buf_len], x.to_vec()),
        None => enc.encap(pdu, frag_id, meta, &mut arena.buf[..buf_len]),
    };
    match (r, model) {
        (Err(a), Err(b)) => {
            assert_eq!(a, b, "{what}: error");
            arena.check_untouched(buf_len, &what);
            Err(a)
        }
        (Ok(st), Ok((k, len, payload))) => {
            let total_len = (n + 2 + l) as u16;
            let crc = crc_of(pdu, ptype, total_len, &lb);
            let exp = expected_packet(
                k,
                lt_bits(&wire),
                frag_id,
                total_len,
                type_field,
                &lb,
                &tail,
                &pdu[..payload],
                crc,
            );
            assert_eq!(exp.len(), len, "{what}: model self-consistency");
            let (got_len, ctx) = match st {
                EncapStatus::CompletedPkt(x) => {
                    assert_eq!(k, K::Complete, "{what}: completed status but model says {k:?}");
                    (x as usize, None)
                }
                EncapStatus::FragmentedPkt(x, c) => {
                    assert_eq!(k, K::First, "{what}: fragmented status but model says {k:?}");
                    assert_eq!(c.frag_id(), frag_id, "{what}: ctx frag id");
                    assert_eq!(c.crc(), crc, "{what}: ctx crc");
                    assert_eq!(c.len_pdu_frag() as usize, payload, "{what}: ctx position");
                    assert!(payload < n, "{what}: first fragment carries the whole PDU");
                    (x as usize, Some(c))
                }
            };
            assert_eq!(got_len, len, "{what}: returned length");
            assert!(got_len <= buf_len, "{what}: returned length above buffer");
            assert!(arena.buf[..got_len] == exp[..], "{what}: packet bytes differ from the expected packet");
            let gse_len = (u16::from_be_bytes([arena.buf[0], arena.buf[1]]) & 0x0FFF) as usize;
            assert_eq!(gse_len + 2, got_len, "{what}: gse length");
            let pkt = arena.buf[..got_len].to_vec();
            arena.check_tail_and_restore(got_len, buf_len, &what);
            Ok(FirstOut {
                kind: k,
                pkt,
                ctx,
                sent: payload,
            })
        }
        (r, m) => panic!("{what}: sender {r:?} model {m:?}"),
    }
}

struct NextOut {
    kind: K,
    pkt: Vec<u8>,
    ctx: Option<ContextFrag>,
    payload: usize,
}

fn check_next_call<C: CrcCalculator>(
    enc: &Encapsulator<C>,
    pdu: &[u8],
    ctx: &ContextFrag,
    arena: &mut Arena,
    buf_len: usize,
) -> Result<NextOut, EncapError> {
    let n = pdu.len();
    let pos = ctx.len_pdu_frag() as usize;
    let what = format!("next call n={n} pos={pos} buf={buf_len}");
    let model = if pos > n {
        Err(EncapError::ErrorPduLength)
    } else {
        model_next(n - pos, buf_len)
    };
    let ctx_copy = *ctx;
    let p = encap_frag_preview(pdu, ctx, &arena.buf[..buf_len]);
    arena.check_untouched(buf_len, &what);
    assert_eq!(*ctx, ctx_copy);
    match (&p, &model) {
        (Ok(p), Ok((k, len, payload))) => {
            assert_eq!(kind_of_preview(p), *k, "{what}: preview kind");
            assert_eq!(p.pkt_len() as usize, *len, "{what}: preview length");
            assert_eq!(p.pdu_len(), *payload, "{what}: preview payload");
        }
        (Err(a), Err(b)) => assert_eq!(a, b, "{what}: preview error"),
        _ => panic!("{what}: preview {p:?} model {model:?}"),
    }
    let r = enc.encap_frag(pdu, ctx, &mut arena.buf[..buf_len]);
    assert_eq!(*ctx, ctx_copy);
    match (r, model) {
        (Err(a), Err(b)) => {
            assert_eq!(a, b, "{what}: error");
            arena.check_untouched(buf_len, &what);
            Err(a)
        }
        (Ok(st), Ok((k, len, payload))) => {
            let exp = expected_packet(
                k,
                3,
                ctx.frag_id(),
                0,
                0,
                &[],
                &[],
                &pdu[pos..pos + payload],
                ctx.crc(),
            );
            assert_eq!(exp.len(), len);
            let (got_len, nctx) = match st {
                EncapStatus::CompletedPkt(x) => {
                    assert_eq!(k, K::End, "{what}: completed but model {k:?}");
                    (x as usize, None)
                }
                EncapStatus::FragmentedPkt(x, c) => {
                    assert_eq!(k, K::Inter, "{what}: fragmented but model {k:?}");
                    assert!(payload >= 1, "{what}: empty intermediate fragment");
                    assert_eq!(c.frag_id(), ctx.frag_id(), "{what}: frag id changed");
                    assert_eq!(c.crc(), ctx.crc(), "{what}: crc changed");
                    assert_eq!(c.len_pdu_frag() as usize, pos + payload, "{what}: ctx advance");
                    (x as usize, Some(c))
                }
            };
            assert_eq!(got_len, len, "{what}: returned length");
            assert!(arena.buf[..got_len] == exp[..], "{what}: packet bytes differ");
            let pkt = arena.buf[..got_len].to_vec();
            arena.check_tail_and_restore(got_len, buf_len, &what);
            Ok(NextOut {
                kind: k,
                pkt,
                ctx: nctx,
                payload,
            })
        }
        (r, m) => panic!("{what}: sender {r:?} model {m:?}"),
    }
}

fn prime<C: CrcCalculator>(enc: &mut Encapsulator<C>, lcfg: LCfg) -> Option<Vec<u8>> {
    lcfg.prime().map(|pl| {
        let mut scratch = [0u8; 64];
        let st = enc
            .encap(&[9, 8, 7], 0, EncapMetadata::new(0x0800, pl), &mut scratch)
            .unwrap();
        match st {
            EncapStatus::CompletedPkt(x) => scratch[..x as usize].to_vec(),
            _ => unreachable!(),
        }
    })
}

// ---------------------------------------------------------------------------------------------
// domains
fn uniq(mut v: Vec<usize>) -> Vec<usize> {
    v.retain(|x| *x <= MAXN);
    v.sort_unstable();
    v.dedup();
    v
}
fn around(v: &mut Vec<usize>, c: usize, d: usize) {
    for x in c.saturating_sub(d)..=c + d {
        v.push(x);
    }
}
fn pdu_lengths() -> Vec<usize> {
    let mut v: Vec<usize> = (0..=24).collect();
    around(&mut v, 4090, 12);
    around(&mut v, 8187, 8);
    around(&mut v, 32768, 2);
    around(&mut v, 65530, 9);
    v.extend([100, 1000, 2048, 4000, 5000, 12000, 40000, 69999, 70000]);
    uniq(v)
}
fn buffer_lengths() -> Vec<usize> {
    let mut v: Vec<usize> = (0..=30).collect();
    around(&mut v, 4095, 12);
    around(&mut v, 8192, 3);
    around(&mut v, 65535, 6);
    v.extend([64, 100, 1000, 2048, 4000, 5000, 40000, 69999, 70000]);
    uniq(v)
}

// ---------------------------------------------------------------------------------------------
// receiver
#[derive(Clone)]
struct Mgr {
    non_final: Vec<(u16, u8)>,
    final_: Vec<(u16, u8)>,
}
impl MandatoryHeaderExtensionManager for Mgr {
    fn is_mandatory_header_id_known(&self, id: u16) -> MandatoryHeaderExt {
        for (i, d) in &self.non_final {
            if *i == id {
                return MandatoryHeaderExt::NonFinal(*d);
            }
        }
        for (i, d) in &self.final_ {
            if *i == id {
                return MandatoryHeaderExt::Final(*d);
            }
        }
        MandatoryHeaderExt::Unknown
    }
}
fn receiver<C: CrcCalculator>(crc: C, slots: usize, mgr: Mgr) -> Decapsulator<SimpleGseMemory, C, Mgr> {
    let mut memory = SimpleGseMemory::new(slots, 65536, 0, 0);
    for _ in 0..slots + 1 {
        memory
            .provision_storage(vec![0u8; 65536].into_boxed_slice())
            .unwrap();
    }
    Decapsulator::new(memory, crc, mgr)
}

#[allow(clippy::too_many_arguments)]
fn feed<C: CrcCalculator>(
    dec: &mut Decapsulator<SimpleGseMemory, C, Mgr>,
    pkts: &[Vec<u8>],
    pdu: &[u8],
    ptype: u16,
    label: Label,
    exts: &[Extension],
    trailing: usize,
    what: &str,
) {
    let mut wirebuf = vec![];
    for (i, p) in pkts.iter().enumerate() {
        wirebuf.clear();
        wirebuf.extend_from_slice(p);
        wirebuf.resize(p.len() + trailing, 0xFF);
        let r = dec.decap(&wirebuf);
        let last = i + 1 == pkts.len();
        match r {
            Ok((DecapStatus::FragmentedPkt(md), used)) => {
                assert!(!last, "{what}: last packet #{i} answered with a fragmented status");
                assert_eq!(used, p.len(), "{what}: consumed length of packet #{i}");
                assert_eq!(md.label(), label, "{what}: label of fragmented status #{i}");
                assert_eq!(md.protocol_type(), ptype, "{what}: ptype of fragmented status #{i}");
                assert_eq!(md.extensions().as_slice(), exts, "{what}: exts of fragmented status #{i}");
            }
            Ok((DecapStatus::CompletedPkt(bx, md), used)) => {
                assert!(last, "{what}: packet #{i} of {} completed early", pkts.len());
                assert_eq!(used, p.len(), "{what}: consumed length of packet #{i}");
                assert_eq!(md.pdu_len(), pdu.len(), "{what}: pdu length");
                assert!(bx[..pdu.len()] == *pdu, "{what}: pdu bytes");
                assert_eq!(md.label(), label, "{what}: label");
                assert_eq!(md.protocol_type(), ptype, "{what}: ptype");
                assert_eq!(md.extensions().as_slice(), exts, "{what}: exts");
                dec.provision_storage(bx).unwrap();
            }
            other => panic!("{what}: packet #{i}/{} (len {}) -> {other:?}", pkts.len(), p.len()),
        }
    }
}

// =============================================================================================
// TEST 1: first call, PDU length x buffer length x label configuration, byte exact
#[test]
fn d01_first_call_grid() {
    let pdu = pdu_bytes();
    let mut arena = Arena::new();
    let ns = pdu_lengths();
    let bs = buffer_lengths();
    let mut count = 0u64;
    for lcfg in ALL_LCFG {
        for &n in &ns {
            // also the buffers around the size at which this PDU fits completely
            let mut bl = bs.clone();
            for l in [0usize, 3, 6] {
                around(&mut bl, n + 4 + l, 4);
                around(&mut bl, n + 7 + l, 2);
            }
            let bl = uniq(bl);
            for &b in &bl {
                let mut enc = Encapsulator::new(CheapCrc);
                prime(&mut enc, lcfg);
                let ptype = if count % 3 == 0 { 0x0800 } else { 0xFFFF - (count % 1000) as u16 };
                let _ = check_first_call(
                    &mut enc,
                    &cheap,
                    &pdu[..n],
                    (count % 256) as u8,
                    ptype,
                    lcfg,
                    None,
                    &mut arena,
                    b,
                );
                count += 1;
            }
        }
    }
    println!("d01: {count} first calls checked");
}

// TEST 2: all protocol types, preview == encap (errors included), some sizes
#[test]
fn d02_all_protocol_types() {
    let pdu = pdu_bytes();
    let mut arena = Arena::new();
    let mut count = 0u64;
    for pt in 0..=0xFFFFu32 {
        let pt = pt as u16;
        for (n, b) in [(10usize, 100usize), (10, 12), (10, 3), (5000, 5000), (65534, 70000)] {
            for label in [Label::Broadcast, L3, L6, Label::SixBytesLabel([0; 6])] {
                let meta = EncapMetadata::new(pt, label);
                let p = encap_preview(&pdu[..n], meta, &arena.buf[..b]);
                let mut enc = Encapsulator::new(CheapCrc);
                let r = enc.encap(&pdu[..n], 1, meta, &mut arena.buf[..b]);
                match (p, r) {
                    (Err(a), Err(c)) => {
                        assert_eq!(a, c, "pt={pt:#x} n={n} b={b}");
                        arena.check_untouched(b, "d02");
                    }
                    (Ok(p), Ok(EncapStatus::CompletedPkt(x))) => {
                        assert_eq!(kind_of_preview(&p), K::Complete);
                        assert_eq!(p.pkt_len(), x);
                        assert_eq!(&arena.buf[2..4], &pt.to_be_bytes());
                        arena.check_tail_and_restore(x as usize, b, "d02");
                    }
                    (Ok(p), Ok(EncapStatus::FragmentedPkt(x, _))) => {
                        assert_eq!(kind_of_preview(&p), K::First);
                        assert_eq!(p.pkt_len(), x);
                        assert_eq!(&arena.buf[5..7], &pt.to_be_bytes());
                        arena.check_tail_and_restore(x as usize, b, "d02");
                    }
                    (p, r) => panic!("pt={pt:#x} n={n} b={b}: preview {p:?} encap {r:?}"),
                }
                let rejected = (0x100..0x600).contains(&pt);
                if rejected && label != Label::SixBytesLabel([0; 6]) {
                    assert_eq!(p_err(&pdu[..n], meta, &arena.buf[..b]), Some(EncapError::ErrorProtocolType));
                }
                count += 1;
            }
        }
    }
    println!("d02: {count} (ptype, size, label) triples");
}
fn p_err(pdu: &[u8], meta: EncapMetadata, buf: &[u8]) -> Option<EncapError> {
    encap_preview(pdu, meta, buf).err()
}

// TEST 3: continuation call: (PDU length, position, buffer length)
fn next_call_sweep(ns: &[usize], small_exhaustive: bool) -> u64 {
    let pdu = pdu_bytes();
    let mut arena = Arena::new();
    let enc = Encapsulator::new(CheapCrc);
    let mut count = 0u64;
    for &n in ns {
        let mut positions: Vec<usize> = vec![];
        if small_exhaustive {
            positions.extend(0..=n + 2);
        } else {
            positions.extend(0..=14);
            for rem in (0..=14).chain(4080..=4100).chain(8180..=8192) {
                if rem <= n {
                    positions.push(n - rem);
                }
            }
            let mut p = 0;
            while p <= n {
                positions.push(p);
                p += 4093;
            }
            positions.push(n + 1);
            positions.push(65535);
        }
        let positions = uniq(positions);
        for &pos in &positions {
            if pos > 65535 {
                continue;
            }
            let mut bl: Vec<usize> = if small_exhaustive {
                (0..=n + 12).collect()
            } else {
                let mut v: Vec<usize> = (0..=16).collect();
                around(&mut v, 4096, 7);
                around(&mut v, 65535, 2);
                v.push(70000);
                v
            };
            if pos <= n {
                around(&mut bl, n - pos + 5, 5);
            }
            let bl = uniq(bl);
            for &b in &bl {
                let ctx = ContextFrag::new((count % 256) as u8, 0xDEAD_0000 ^ count as u32, pos as u16);
                let _ = check_next_call(&enc, &pdu[..n], &ctx, &mut arena, b);
                count += 1;
            }
        }
    }
    count
}
#[test]
fn d03_next_call_small_exhaustive() {
    let ns: Vec<usize> = (0..=48).collect();
    let c = next_call_sweep(&ns, true);
    println!("d03: {c} continuation calls (n 0..=48, every position 0..=n+2, every buffer 0..=n+12)");
}
#[test]
fn d04_next_call_boundaries() {
    let mut ns = vec![];
    around(&mut ns, 4090, 10);
    around(&mut ns, 8187, 6);
    ns.extend(65525..=65535);
    ns.extend([100, 5000, 12285, 40000]);
    let ns = uniq(ns);
    let c = next_call_sweep(&ns, false);
    println!("d04: {c} continuation calls around the boundaries");
}

// TEST 5: every position of a long PDU, three buffers each (position arithmetic, u16 context)
#[test]
fn d05_next_call_every_position() {
    let pdu = pdu_bytes();
    let mut arena = Arena::new();
    let enc = Encapsulator::new(CheapCrc);
    let mut count = 0u64;
    for n in [65535usize, 65533, 4100] {
        for pos in 0..=n {
            for b in [7usize, 11, 4097, 70000] {
                if b > 100 && pos % 7 != 0 && n - pos > 4200 {
                    continue;
                }
                let ctx = ContextFrag::new(pos as u8, pos as u32, pos as u16);
                let _ = check_next_call(&enc, &pdu[..n], &ctx, &mut arena, b);
                count += 1;
            }
        }
    }
    println!("d05: {count} continuation calls");
}

// TEST 6: O(1) previews against the model over the two-dimensional domain
fn preview_first_sweep(label: Label, l: usize) -> u64 {
    let pdu = pdu_bytes();
    let buf = vec![0u8; MAXN];
    let meta = EncapMetadata::new(0x86DD, label);
    let (ns, bs): (Vec<usize>, Vec<usize>) = if full() {
        ((0..=MAXN).collect(), (0..=MAXN).collect())
    } else {
        let mut ns = pdu_lengths();
        ns.extend((0..=MAXN).step_by(97));
        let mut bs = buffer_lengths();
        bs.extend((0..=MAXN).step_by(89));
        (uniq(ns), uniq(bs))
    };
    let mut count = 0u64;
    for &n in &ns {
        for &b in &bs {
            let p = encap_preview(&pdu[..n], meta, &buf[..b]);
            let m = model_first(n, l, 0, b);
            match (&p, &m) {
                (Ok(p), Ok((k, len, _))) => {
                    if kind_of_preview(p) != *k || p.pkt_len() as usize != *len {
                        panic!("n={n} b={b} label={label:?}: preview {p:?} model {m:?}");
                    }
                }
                (Err(a), Err(c)) if a == c => {}
                _ => panic!("n={n} b={b} label={label:?}: preview {p:?} model {m:?}"),
            }
            count += 1;
        }
    }
    count
}
#[test]
fn d06a_preview_first_broadcast() {
    println!("d06a: {}", preview_first_sweep(Label::Broadcast, 0));
}
#[test]
fn d06b_preview_first_l3() {
    println!("d06b: {}", preview_first_sweep(L3, 3));
}
#[test]
fn d06c_preview_first_l6() {
    println!("d06c: {}", preview_first_sweep(L6, 6));
}
#[test]
fn d06d_preview_first_reuse() {
    println!("d06d: {}", preview_first_sweep(Label::ReUse, 0));
}

fn preview_next_sweep(from_end: bool) -> u64 {
    let pdu = pdu_bytes();
    let buf = vec![0u8; MAXN];
    let (rems, bs): (Vec<usize>, Vec<usize>) = if full() {
        ((0..=65535).collect(), (0..=MAXN).collect())
    } else {
        let mut r = pdu_lengths();
        r.extend((0..=65535).step_by(97));
        r.retain(|x| *x <= 65535);
        let mut bs = buffer_lengths();
        bs.extend((0..=MAXN).step_by(89));
        (uniq(r), uniq(bs))
    };
    let mut count = 0u64;
    for &rem in &rems {
        let (n, pos) = if from_end { (65535, 65535 - rem) } else { (rem, 0) };
        let ctx = ContextFrag::new(3, 0x1234_5678, pos as u16);
        for &b in &bs {
            let p = encap_frag_preview(&pdu[..n], &ctx, &buf[..b]);
            let m = model_next(rem, b);
            match (&p, &m) {
                (Ok(p), Ok((k, len, pay))) => {
                    if kind_of_preview(p) != *k || p.pkt_len() as usize != *len || p.pdu_len() != *pay {
                        panic!("rem={rem} n={n} b={b}: preview {p:?} model {m:?}");
                    }
                }
                (Err(a), Err(c)) if a == c => {}
                _ => panic!("rem={rem} n={n} b={b}: preview {p:?} model {m:?}"),
            }
            count += 1;
        }
    }
    count
}
#[test]
fn d07a_preview_next_pos0() {
    println!("d07a: {}", preview_next_sweep(false));
}
#[test]
fn d07b_preview_next_from_end() {
    println!("d07b: {}", preview_next_sweep(true));
}

// ---------------------------------------------------------------------------------------------
// chains
struct Rng(u64);
impl Rng {
    fn next(&mut self) -> u64 {
        self.0 ^= self.0 << 13;
        self.0 ^= self.0 >> 7;
        self.0 ^= self.0 << 17;
        self.0
    }
    fn below(&mut self, n: usize) -> usize {
        (self.next() % n as u64) as usize
    }
}

#[derive(Debug, Clone)]
enum Sched {
    Const(usize),
    Cycle(Vec<usize>),
    /// room for the remaining payload plus k bytes (k < 7: no room for the CRC)
    JustShort(usize),
    Random(u64),
}
impl Sched {
    fn size(&self, call: usize, rem_plus_hdr: usize, rng: &mut Rng) -> usize {
        match self {
            Sched::Const(b) => *b,
            Sched::Cycle(v) => v[call % v.len()],
            Sched::JustShort(k) => (rem_plus_hdr + k).min(MAXN),
            Sched::Random(_) => match rng.below(10) {
                0 => rng.below(8),
                1 => 7 + rng.below(10),
                2 => 4090 + rng.below(12),
                3 => MAXN - rng.below(5000),
                4 => rem_plus_hdr + rng.below(9),
                5 => rem_plus_hdr.saturating_sub(rng.below(9)),
                _ => 13 + rng.below(3000),
            },
        }
    }
}

/// runs a whole PDU through the sender with full checks; returns the packets
#[allow(clippy::too_many_arguments)]
fn run_chain<C: CrcCalculator>(
    enc: &mut Encapsulator<C>,
    crc_of: &dyn Fn(&[u8], u16, u16, &[u8]) -> u32,
    pdu: &[u8],
    frag_id: u8,
    ptype: u16,
    lcfg: LCfg,
    exts: Option<&[Extension]>,
    sched: &Sched,
    arena: &mut Arena,
) -> Option<Vec<Vec<u8>>> {
    let n = pdu.len();
    let mut rng = Rng(match sched {
        Sched::Random(s) => *s | 1,
        _ => 1,
    });
    let l = label_bytes(&lcfg.wire()).len();
    let e = exts.map(|x| ext_tail(x, ptype).len()).unwrap_or(0);
    let what = format!("chain n={n} lcfg={lcfg:?} e={e} sched={sched:?}");
    let mut pkts = vec![];
    let mut call = 0usize;
    let mut offered_13 = 0usize;
    // first call
    let (mut ctx, mut sent) = loop {
        assert!(call < 200, "{what}: first call never accepted");
        let b = sched.size(call, n + 4 + l + e, &mut rng);
        call += 1;
        if b >= 13 + e {
            offered_13 += 1;
        }
        match check_first_call(enc, crc_of, pdu, frag_id, ptype, lcfg, exts, arena, b) {
            Ok(o) => {
                pkts.push(o.pkt);
                if o.kind == K::Complete {
                    return Some(pkts);
                }
                break (o.ctx.unwrap(), o.sent);
            }
            Err(EncapError::ErrorSizeBuffer) => {
                assert!(b < 13 + e, "{what}: buffer of {b} bytes refused by the first call");
                if matches!(sched, Sched::Const(_)) {
                    return None;
                }
            }
            Err(EncapError::ErrorPduLength) => {
                assert!(n + 2 + l > 65535, "{what}: ErrorPduLength for a PDU that fits");
                return None;
            }
            Err(x) => panic!("{what}: {x:?}"),
        }
    };
    let rem_after_first = n - sent;
    let mut calls_ge7 = 0usize;
    let mut refused = 0usize;
    loop {
        let rem = n - sent;
        let b = sched.size(call, rem + 3, &mut rng);
        call += 1;
        match check_next_call(enc, pdu, &ctx, arena, b) {
            Ok(o) => {
                if b >= 7 {
                    calls_ge7 += 1;
                }
                refused = 0;
                pkts.push(o.pkt);
                sent += o.payload;
                match o.kind {
                    K::End => {
                        assert_eq!(sent, n, "{what}: end packet before the whole PDU was sent");
                        break;
                    }
                    K::Inter => {
                        ctx = o.ctx.unwrap();
                    }
                    _ => unreachable!(),
                }
            }
            Err(EncapError::ErrorSizeBuffer) => {
                assert!(b < 7, "{what}: buffer of {b} bytes refused by a continuation call (rem {rem})");
                refused += 1;
                if matches!(sched, Sched::Const(_)) || refused > 400 {
                    return None;
                }
            }
            Err(x) => panic!("{what}: {x:?}"),
        }
        assert!(
            calls_ge7 <= rem_after_first + 1,
            "{what}: more than remaining+1 calls with buffers >= 7"
        );
    }
    let _ = offered_13;
    Some(pkts)
}

fn chain_pdu_lengths() -> Vec<usize> {
    let mut v: Vec<usize> = (0..=20).collect();
    around(&mut v, 4090, 8);
    around(&mut v, 8185, 3);
    v.extend([100, 2000, 12281, 30000]);
    uniq(v)
}

// TEST 8: chains + round trip (plain encap), DefaultCrc on both sides checked against bitwise CRC
#[test]
fn d08_chains_round_trip() {
    let pdu = pdu_bytes();
    let mut arena = Arena::new();
    let mgr = Mgr { non_final: vec![], final_: vec![] };
    let mut dec = receiver(DefaultCrc, 4, mgr);
    let crc_of = |p: &[u8], pt: u16, tl: u16, lb: &[u8]| crc_bitwise(&[&tl.to_be_bytes(), &pt.to_be_bytes(), lb, p]);
    let mut scheds: Vec<Sched> = vec![];
    for b in (7..=20).chain(4093..=4100).chain([70000, 65535, 65536, 5000]) {
        scheds.push(Sched::Const(b));
    }
    for k in 0..=8 {
        scheds.push(Sched::JustShort(k));
    }
    scheds.push(Sched::Cycle(vec![0, 3, 13, 6, 2, 7]));
    scheds.push(Sched::Cycle(vec![12, 19, 4, 70000, 5]));
    scheds.push(Sched::Cycle(vec![4097, 4, 4096, 6, 70000]));
    scheds.push(Sched::Cycle(vec![16, 6, 6, 6, 6, 6, 4]));
    for s in 1..=12 {
        scheds.push(Sched::Random(s * 7919));
    }
    let mut chains = 0u64;
    let mut packets = 0u64;
    for &n in &chain_pdu_lengths() {
        for lcfg in ALL_LCFG {
            for sched in &scheds {
                if n > 9000 {
                    if let Sched::Const(b) = sched {
                        if *b < 13 && *b != 7 {
                            continue;
                        }
                    }
                }
                let frag_id = (chains % 256) as u8;
                let ptype = 0x0600 + (chains % 0xF9FF) as u16;
                let mut enc = Encapsulator::new(DefaultCrc);
                let primer = prime(&mut enc, lcfg);
                let Some(pkts) =
                    run_chain(&mut enc, &crc_of, &pdu[..n], frag_id, ptype, lcfg, None, sched, &mut arena)
                else {
                    continue;
                };
                dec.reset_last_label();
                if let Some(pp) = primer {
                    match dec.decap(&pp) {
                        Ok((DecapStatus::CompletedPkt(bx, _), _)) => dec.provision_storage(bx).unwrap(),
                        o => panic!("primer {o:?}"),
                    }
                }
                let what = format!("round trip n={n} lcfg={lcfg:?} sched={sched:?}");
                feed(&mut dec, &pkts, &pdu[..n], ptype, lcfg.received(), &[], (chains % 3) as usize * 5, &what);
                chains += 1;
                packets += pkts.len() as u64;
            }
        }
    }
    println!("d08: {chains} chains, {packets} packets");
}

// TEST 9: the longest PDUs, a few schedules, round trip
#[test]
fn d09_longest_pdus_round_trip() {
    let pdu = pdu_bytes();
    let mut arena = Arena::new();
    let mgr = Mgr { non_final: vec![], final_: vec![] };
    let mut dec = receiver(DefaultCrc, 1, mgr);
    let crc_of = |p: &[u8], pt: u16, tl: u16, lb: &[u8]| crc_bitwise(&[&tl.to_be_bytes(), &pt.to_be_bytes(), lb, p]);
    let scheds = [
        Sched::Const(70000),
        Sched::Const(4097),
        Sched::Const(4096),
        Sched::Const(13),
        Sched::Const(7),
        Sched::Cycle(vec![4097, 4, 6, 70000, 7, 0]),
        Sched::Random(4242),
        Sched::JustShort(3),
        Sched::JustShort(6),
    ];
    let mut chains = 0u64;
    let mut packets = 0u64;
    for n in 65520..=65536usize {
        for lcfg in ALL_LCFG {
            for sched in &scheds {
                let l = label_bytes(&lcfg.wire()).len();
                if matches!(sched, Sched::Const(7)) && !(n + 2 + l == 65535 || n == 65520) {
                    continue;
                }
                let mut enc = Encapsulator::new(DefaultCrc);
                let primer = prime(&mut enc, lcfg);
                let frag_id = 255 - (chains % 256) as u8;
                let r = run_chain(&mut enc, &crc_of, &pdu[..n], frag_id, 0xFFFF, lcfg, None, sched, &mut arena);
                if n + 2 + l > 65535 {
                    assert!(r.is_none(), "n={n} lcfg={lcfg:?}: accepted although the total length overflows");
                    continue;
                }
                let Some(pkts) = r else { continue };
                dec.reset_last_label();
                if let Some(pp) = primer {
                    match dec.decap(&pp) {
                        Ok((DecapStatus::CompletedPkt(bx, _), _)) => dec.provision_storage(bx).unwrap(),
                        o => panic!("primer {o:?}"),
                    }
                }
                let what = format!("long round trip n={n} lcfg={lcfg:?} sched={sched:?}");
                feed(&mut dec, &pkts, &pdu[..n], 0xFFFF, lcfg.received(), &[], 0, &what);
                chains += 1;
                packets += pkts.len() as u64;
            }
        }
    }
    println!("d09: {chains} chains, {packets} packets");
}

// ---------------------------------------------------------------------------------------------
// extensions
fn ext_chains() -> Vec<(Vec<Extension>, u16, bool)> {
    // (chain, protocol type, receivable by our manager)
    let mut v = vec![];
    let d = |k: usize| -> Vec<u8> { (0..k).map(|i| (i as u8).wrapping_mul(3).wrapping_add(0x40)).collect() };
    v.push((vec![Extension::new(0x0100, &[]).unwrap()], 0x0800, true));
    v.push((vec![Extension::new(0x02AB, &d(2)).unwrap()], 0x0800, true));
    v.push((vec![Extension::new(0x0301, &d(4)).unwrap()], 0x86DD, true));
    v.push((vec![Extension::new(0x0400, &d(6)).unwrap()], 0xFFFF, true));
    v.push((vec![Extension::new(0x05FF, &d(8)).unwrap()], 0x0600, true));
    v.push((
        vec![
            Extension::new(0x0501, &d(8)).unwrap(),
            Extension::new(0x0502, &d(8)).unwrap(),
            Extension::new(0x0203, &d(2)).unwrap(),
            Extension::new(0x0104, &d(0)).unwrap(),
        ],
        0x0800,
        true,
    ));
    for k in [0usize, 1, 7, 255] {
        v.push((vec![Extension::new(0x0042, &d(k)).unwrap()], 0x0800, true));
        v.push((vec![Extension::new(0x0081, &d(k)).unwrap()], 0x0081, true));
        v.push((
            vec![
                Extension::new(0x0305, &d(4)).unwrap(),
                Extension::new(0x0042, &d(k)).unwrap(),
                Extension::new(0x0081, &d(k)).unwrap(),
            ],
            0x0081,
            true,
        ));
    }
    // long mandatory data: header close to the largest GSE packet (sender only)
    for k in [256usize, 2000, 4070, 4080, 4084, 4085, 4086, 4087, 4088, 4089, 4090, 4091, 4092, 4093, 4094, 4095, 4096, 5000, 70000] {
        v.push((vec![Extension::new(0x0042, &d(k)).unwrap()], 0x0800, false));
        v.push((vec![Extension::new(0x0081, &d(k)).unwrap()], 0x0081, false));
    }
    v
}
fn mgr_for(exts: &[Extension]) -> Mgr {
    let mut m = Mgr { non_final: vec![], final_: vec![] };
    for e in exts {
        if e.id() == 0x42 {
            m.non_final.push((0x42, ext_data_bytes(e).len() as u8));
        }
        if e.id() == 0x81 {
            m.final_.push((0x81, ext_data_bytes(e).len() as u8));
        }
    }
    m
}

// TEST 10: encap_ext first call grid (byte exact), boundaries shifted by the extension bytes
#[test]
fn d10_ext_first_call_grid() {
    let pdu = pdu_bytes();
    let mut arena = Arena::new();
    let mut count = 0u64;
    for (exts, ptype, _) in ext_chains() {
        let e = ext_tail(&exts, ptype).len();
        for lcfg in ALL_LCFG {
            let l = label_bytes(&lcfg.wire()).len();
            let mut ns: Vec<usize> = (0..=10).collect();
            let full_at = 4093usize.saturating_sub(l + e); // largest PDU in a complete packet
            around(&mut ns, full_at, 5);
            around(&mut ns, 65533 - l, 3);
            ns.extend([100, 4090, 4095, 4096, 5000]);
            let ns = uniq(ns);
            for &n in &ns {
                let mut bs: Vec<usize> = (0..=12).collect();
                around(&mut bs, 4 + l + e, 3);
                around(&mut bs, 7 + l + e, 3);
                around(&mut bs, 4 + l + e + n, 4);
                around(&mut bs, 4096, 4);
                bs.extend([65535, 65536, 70000]);
                let bs = uniq(bs);
                for &b in &bs {
                    let mut enc = Encapsulator::new(CheapCrc);
                    prime(&mut enc, lcfg);
                    let _ = check_first_call(
                        &mut enc,
                        &cheap,
                        &pdu[..n],
                        (count % 256) as u8,
                        ptype,
                        lcfg,
                        Some(&exts),
                        &mut arena,
                        b,
                    );
                    count += 1;
                }
            }
        }
    }
    println!("d10: {count} encap_ext first calls");
}

// TEST 11: encap_ext + encap_frag chains, round trip with a manager that knows the ids
#[test]
fn d11_ext_chains_round_trip() {
    let pdu = pdu_bytes();
    let mut arena = Arena::new();
    let crc_of = |p: &[u8], pt: u16, tl: u16, lb: &[u8]| crc_bitwise(&[&tl.to_be_bytes(), &pt.to_be_bytes(), lb, p]);
    let mut chains = 0u64;
    let mut packets = 0u64;
    for (exts, ptype, receivable) in ext_chains() {
        let e = ext_tail(&exts, ptype).len();
        if e > 4200 {
            continue;
        }
        let mut dec = receiver(DefaultCrc, 2, mgr_for(&exts));
        for lcfg in ALL_LCFG {
            let l = label_bytes(&lcfg.wire()).len();
            let mut ns: Vec<usize> = (0..=9).collect();
            around(&mut ns, 4093usize.saturating_sub(l + e), 3);
            ns.extend([300, 4100, 9000]);
            let ns = uniq(ns);
            for &n in &ns {
                let mut scheds = vec![
                    Sched::Const(70000),
                    Sched::Const(4097),
                    Sched::Const(7 + l + e),
                    Sched::Const(8 + l + e),
                    Sched::Const(13 + e),
                    Sched::Const(20 + e),
                    Sched::Cycle(vec![7 + l + e, 4, 5, 6, 7]),
                    Sched::Cycle(vec![0, 6 + l + e, 9 + l + e, 3, 70000]),
                    Sched::JustShort(2),
                    Sched::Random(99 + n as u64),
                ];
                if n > 1000 {
                    scheds.retain(|s| !matches!(s, Sched::Cycle(_)));
                }
                for sched in &scheds {
                    let mut enc = Encapsulator::new(DefaultCrc);
                    let primer = prime(&mut enc, lcfg);
                    let frag_id = (chains % 256) as u8;
                    let Some(pkts) = run_chain_ext(&mut enc, &crc_of, &pdu[..n], frag_id, ptype, lcfg, &exts, sched, &mut arena)
                    else {
                        continue;
                    };
                    chains += 1;
                    packets += pkts.len() as u64;
                    if !receivable {
                        continue;
                    }
                    dec.reset_last_label();
                    if let Some(pp) = primer {
                        match dec.decap(&pp) {
                            Ok((DecapStatus::CompletedPkt(bx, _), _)) => dec.provision_storage(bx).unwrap(),
                            o => panic!("primer {o:?}"),
                        }
                    }
                    let what = format!("ext round trip n={n} e={e} ptype={ptype:#x} lcfg={lcfg:?} sched={sched:?}");
                    feed(&mut dec, &pkts, &pdu[..n], ptype, lcfg.received(), &exts, (chains % 2) as usize * 9, &what);
                }
            }
        }
    }
    println!("d11: {chains} chains, {packets} packets");
}

/// like run_chain but tolerant about which first buffers are refused (the header is longer)
#[allow(clippy::too_many_arguments)]
fn run_chain_ext<C: CrcCalculator>(
    enc: &mut Encapsulator<C>,
    crc_of: &dyn Fn(&[u8], u16, u16, &[u8]) -> u32,
    pdu: &[u8],
    frag_id: u8,
    ptype: u16,
    lcfg: LCfg,
    exts: &[Extension],
    sched: &Sched,
    arena: &mut Arena,
) -> Option<Vec<Vec<u8>>> {
    let n = pdu.len();
    let l = label_bytes(&lcfg.wire()).len();
    let e = ext_tail(exts, ptype).len();
    if 7 + l + e > 4097 && 4 + l + e + n > 4097 {
        // can never be sent: only check that it is refused
        let r = check_first_call(enc, crc_of, pdu, frag_id, ptype, lcfg, Some(exts), arena, MAXN);
        assert!(r.is_err());
        return None;
    }
    run_chain(enc, crc_of, pdu, frag_id, ptype, lcfg, Some(exts), sched, arena)
}

// TEST 12: several PDUs interleaved on different frag ids through one sender / one receiver,
// re-use enabled with a maximum, buffers carved out of one base band frame
#[test]
fn d12_interleaved_bbframes() {
    let pdu = pdu_bytes();
    let crc_of = |p: &[u8], pt: u16, tl: u16, lb: &[u8]| crc_bitwise(&[&tl.to_be_bytes(), &pt.to_be_bytes(), lb, p]);
    let mut rng = Rng(0xD00D);
    let mut total_pdus = 0u64;
    for round in 0..60u64 {
        let mut enc = Encapsulator::new(DefaultCrc);
        if round % 3 == 1 {
            enc.enable_re_use_label_with_max_consecutive(1 + (round % 4) as u8);
        } else if round % 3 == 2 {
            enc.disable_re_use_label();
        }
        let mgr = Mgr { non_final: vec![], final_: vec![] };
        let mut dec = receiver(DefaultCrc, 8, mgr);
        // work list: (offset in pdu, len, label, frag_id, ctx)
        struct Job {
            off: usize,
            len: usize,
            label: Label,
            ptype: u16,
            frag_id: u8,
            ctx: Option<ContextFrag>,
            done: bool,
        }
        let mut jobs: Vec<Job> = (0..8)
            .map(|i| {
                let len = match rng.below(5) {
                    0 => rng.below(30),
                    1 => 4080 + rng.below(30),
                    2 => 8170 + rng.below(30),
                    3 => 60000 + rng.below(5527),
                    _ => rng.below(3000),
                };
                Job {
                    off: rng.below(MAXN - len),
                    len,
                    label: match rng.below(4) {
                        0 => Label::Broadcast,
                        1 => L3,
                        _ => L6,
                    },
                    ptype: 0x0600 + rng.below(0xF000) as u16,
                    frag_id: i as u8,
                    ctx: None,
                    done: false,
                }
            })
            .collect();
        let mut expected_done: Vec<usize> = vec![];
        let mut guard = 0;
        while jobs.iter().any(|j| !j.done) {
            guard += 1;
            assert!(guard < 100000);
            // one base band frame
            let frame_len = [100usize, 2001, 7274, 16000, 58192 / 8][rng.below(5)];
            let mut frame = vec![0u8; frame_len];
            let mut off = 0usize;
            enc.reset_last_label();
            let mut in_frame: Vec<(usize, bool)> = vec![]; // (job, completes)
            loop {
                let cands: Vec<usize> = (0..jobs.len()).filter(|i| !jobs[*i].done).collect();
                if cands.is_empty() {
                    break;
                }
                let ji = cands[rng.below(cands.len())];
                let j = &mut jobs[ji];
                let data = &pdu[j.off..j.off + j.len];
                let room = &mut frame[off..];
                let r = match &j.ctx {
                    None => enc.encap(data, j.frag_id, EncapMetadata::new(j.ptype, j.label), room),
                    Some(c) => enc.encap_frag(data, c, room),
                };
                match r {
                    Ok(EncapStatus::CompletedPkt(x)) => {
                        off += x as usize;
                        j.done = true;
                        in_frame.push((ji, true));
                    }
                    Ok(EncapStatus::FragmentedPkt(x, c)) => {
                        off += x as usize;
                        j.ctx = Some(c);
                        in_frame.push((ji, false));
                    }
                    Err(EncapError::ErrorSizeBuffer) => break,
                    Err(e) => panic!("{e:?}"),
                }
                if off == frame_len {
                    break;
                }
            }
            // receiver reads the frame
            dec.reset_last_label();
            let mut roff = 0usize;
            for (ji, completes) in in_frame {
                let j = &jobs[ji];
                match dec.decap(&frame[roff..]) {
                    Ok((DecapStatus::CompletedPkt(bx, md), used)) => {
                        assert!(completes, "round {round}: job {ji} completed early");
                        assert_eq!(md.pdu_len(), j.len);
                        assert!(bx[..j.len] == pdu[j.off..j.off + j.len]);
                        assert_eq!(md.label(), j.label);
                        assert_eq!(md.protocol_type(), j.ptype);
                        let _ = crc_of;
                        dec.provision_storage(bx).unwrap();
                        roff += used;
                        expected_done.push(ji);
                    }
                    Ok((DecapStatus::FragmentedPkt(md), used)) => {
                        assert!(!completes, "round {round}: job {ji} should have completed");
                        assert_eq!(md.label(), j.label);
                        assert_eq!(md.protocol_type(), j.ptype);
                        roff += used;
                    }
                    o => panic!("round {round}: job {ji} at {roff}: {o:?}"),
                }
            }
            assert_eq!(roff, off, "round {round}: receiver and sender disagree on the frame fill");
            if roff + 2 <= frame_len {
                match dec.decap(&frame[roff..]) {
                    Ok((DecapStatus::Padding, _)) => {}
                    o => panic!("round {round}: padding expected, got {o:?}"),
                }
            }
        }
        total_pdus += expected_done.len() as u64;
        assert_eq!(expected_done.len(), 8);
    }
    println!("d12: {total_pdus} PDUs interleaved");
}

// TEST 13: full squares (every PDU length x every buffer length) around each boundary, first call
#[test]
fn d13_first_call_full_squares() {
    let pdu = pdu_bytes();
    let mut arena = Arena::new();
    let mut count = 0u64;
    let squares: [(std::ops::RangeInclusive<usize>, std::ops::RangeInclusive<usize>); 6] = [
        (0..=64, 0..=84),
        (4070..=4110, 4070..=4110),
        (4070..=4110, 0..=30),
        (65515..=65540, 65515..=65550),
        (65515..=65540, 0..=30),
        (65515..=65540, 4085..=4100),
    ];
    for lcfg in ALL_LCFG {
        for (nr, br) in squares.iter() {
            for n in nr.clone() {
                for b in br.clone() {
                    let mut enc = Encapsulator::new(CheapCrc);
                    prime(&mut enc, lcfg);
                    let _ = check_first_call(&mut enc, &cheap, &pdu[..n], n as u8, 0x0800, lcfg, None, &mut arena, b);
                    count += 1;
                }
            }
        }
    }
    println!("d13: {count} first calls in full squares");
}

// TEST 14: receiver storage of exactly the PDU length is sufficient
#[test]
fn d14_exact_storage_round_trip() {
    let pdu = pdu_bytes();
    let mut arena = Arena::new();
    let crc_of = |p: &[u8], pt: u16, tl: u16, lb: &[u8]| crc_bitwise(&[&tl.to_be_bytes(), &pt.to_be_bytes(), lb, p]);
    let scheds = [
        Sched::Const(70000),
        Sched::Const(13),
        Sched::Const(14),
        Sched::Const(4097),
        Sched::JustShort(5),
        Sched::Random(5),
        Sched::Cycle(vec![13, 7, 8, 9]),
    ];
    let mut chains = 0u64;
    let mut ns = chain_pdu_lengths();
    ns.extend([65527, 65530, 65533]);
    for &n in &ns {
        for lcfg in ALL_LCFG {
            for sched in &scheds {
                if n > 9000 && matches!(sched, Sched::Cycle(_)) {
                    continue;
                }
                let mut enc = Encapsulator::new(DefaultCrc);
                let primer = prime(&mut enc, lcfg);
                let Some(pkts) = run_chain(&mut enc, &crc_of, &pdu[..n], 77, 0x0800, lcfg, None, sched, &mut arena) else {
                    continue;
                };
                // primer PDU is 3 bytes long: the storage must hold it as well
                let size = if primer.is_some() { n.max(3) } else { n };
                let mut memory = SimpleGseMemory::new(1, size, 0, 0);
                memory.provision_storage(vec![0u8; size].into_boxed_slice()).unwrap();
                let mut dec = Decapsulator::new(memory, DefaultCrc, Mgr { non_final: vec![], final_: vec![] });
                if let Some(pp) = primer {
                    match dec.decap(&pp) {
                        Ok((DecapStatus::CompletedPkt(bx, _), _)) => dec.provision_storage(bx).unwrap(),
                        o => panic!("primer {o:?}"),
                    }
                }
                let what = format!("exact storage n={n} lcfg={lcfg:?} sched={sched:?}");
                feed(&mut dec, &pkts, &pdu[..n], 0x0800, lcfg.received(), &[], 0, &what);
                chains += 1;
            }
        }
    }
    println!("d14: {chains} chains with exact storage");
}
