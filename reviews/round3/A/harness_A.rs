// Adversarial harness A: public seams and unusual-but-legal API usage.
//
// Public API only.  Four groups of tests:
//   * seam_c05_c08_*   : random histories over decap / provision / reset / Decapsulator::new_pdu and
//                        direct calls on the public field `Decapsulator::memory` (new_pdu, new_frag,
//                        take_frag, save_frag with hand built DecapContext values), on top of a
//                        fault injecting GseDecapMemory wrapper.  After every single operation the
//                        conservation of the storage buffers (C08) and the totality / progress of
//                        decap and of the peek function (C05) are checked.  At the end of each
//                        history the recovery property (C16) is checked with a fresh valid transfer
//                        produced by the crate's own Encapsulator.
//   * odd_memory_*     : GseDecapMemory implementation that returns odd but type-correct values
//                        (C05: no panic, bounded and progressing consumption).
//   * c17_model_*      : SimpleGseMemory against an explicit model.
//   * c09_*            : failure atomicity of encap / encap_frag / encap_ext / previews with a
//                        stateful (interior mutability) CrcCalculator, Clone / PartialEq of
//                        Encapsulator used as the state oracle.

use std::cell::RefCell;
use std::collections::BTreeMap;
use std::rc::Rc;

use dvb_gse_rust::crc::{CrcCalculator, DefaultCrc};
use dvb_gse_rust::gse_decap::gse_decap_memory::MemoryContext;
use dvb_gse_rust::gse_decap::{
    DecapContext, DecapError, DecapMemoryError, DecapStatus, Decapsulator, GseDecapMemory,
    SimpleGseMemory,
};
use dvb_gse_rust::gse_encap::{
    encap_frag_preview, encap_preview, ContextFrag, EncapError, EncapMetadata, EncapStatus,
    Encapsulator,
};
use dvb_gse_rust::header_extension::{
    Extension, MandatoryHeaderExt, MandatoryHeaderExtensionManager,
};
use dvb_gse_rust::label::Label;

// ---------------------------------------------------------------------------------------------
// small deterministic rng
// ---------------------------------------------------------------------------------------------
#[derive(Clone)]
struct Rng(u64);
impl Rng {
    fn new(seed: u64) -> Self {
        Rng(seed.wrapping_mul(0x9E37_79B9_7F4A_7C15) ^ 0xD1B5_4A32_D192_ED03)
    }
    fn next(&mut self) -> u64 {
        self.0 = self.0.wrapping_add(0x9E37_79B9_7F4A_7C15);
        let mut z = self.0;
        z = (z ^ (z >> 30)).wrapping_mul(0xBF58_476D_1CE4_E5B9);
        z = (z ^ (z >> 27)).wrapping_mul(0x94D0_49BB_1331_11EB);
        z ^ (z >> 31)
    }
    fn below(&mut self, n: usize) -> usize {
        if n == 0 {
            0
        } else {
            (self.next() % n as u64) as usize
        }
    }
    fn range(&mut self, lo: usize, hi: usize) -> usize {
        lo + self.below(hi - lo + 1)
    }
    fn chance(&mut self, num: usize, den: usize) -> bool {
        self.below(den) < num
    }
    fn byte(&mut self) -> u8 {
        self.next() as u8
    }
    fn bytes(&mut self, n: usize) -> Vec<u8> {
        (0..n).map(|_| self.byte()).collect()
    }
    fn pick<T: Clone>(&mut self, v: &[T]) -> T {
        v[self.below(v.len())].clone()
    }
}

// ---------------------------------------------------------------------------------------------
// wire level packet builders (independent from the encapsulator)
// ---------------------------------------------------------------------------------------------
fn lt_bits(l: &Label) -> u8 {
    match l {
        Label::SixBytesLabel(_) => 0,
        Label::ThreeBytesLabel(_) => 1,
        Label::Broadcast => 2,
        Label::ReUse => 3,
    }
}
fn hdr(s: bool, e: bool, lt: u8, gse_len: usize) -> [u8; 2] {
    let v: u16 = ((s as u16) << 15) | ((e as u16) << 14) | ((lt as u16 & 3) << 12) | (gse_len as u16 & 0x0FFF);
    v.to_be_bytes()
}
/// complete packet: t1 = first type field, tail = everything after the label
fn w_complete(l: &Label, t1: u16, tail: &[u8]) -> Vec<u8> {
    let gse_len = 2 + l.len() + tail.len();
    let mut v = hdr(true, true, lt_bits(l), gse_len).to_vec();
    v.extend_from_slice(&t1.to_be_bytes());
    v.extend_from_slice(l.get_bytes());
    v.extend_from_slice(tail);
    v
}
fn w_first(l: &Label, frag_id: u8, total_len: u16, t1: u16, tail: &[u8]) -> Vec<u8> {
    let gse_len = 1 + 2 + 2 + l.len() + tail.len();
    let mut v = hdr(true, false, lt_bits(l), gse_len).to_vec();
    v.push(frag_id);
    v.extend_from_slice(&total_len.to_be_bytes());
    v.extend_from_slice(&t1.to_be_bytes());
    v.extend_from_slice(l.get_bytes());
    v.extend_from_slice(tail);
    v
}
fn w_inter(lt: u8, frag_id: u8, payload: &[u8]) -> Vec<u8> {
    let mut v = hdr(false, false, lt, 1 + payload.len()).to_vec();
    v.push(frag_id);
    v.extend_from_slice(payload);
    v
}
fn w_end(lt: u8, frag_id: u8, payload: &[u8], crc: u32) -> Vec<u8> {
    let mut v = hdr(false, true, lt, 1 + payload.len() + 4).to_vec();
    v.push(frag_id);
    v.extend_from_slice(payload);
    v.extend_from_slice(&crc.to_be_bytes());
    v
}

// ---------------------------------------------------------------------------------------------
// extension manager used on the receiver side
// ---------------------------------------------------------------------------------------------
#[derive(Clone, Copy)]
struct Mgr;
impl MandatoryHeaderExtensionManager for Mgr {
    fn is_mandatory_header_id_known(&self, id: u16) -> MandatoryHeaderExt {
        match id {
            0x00AA => MandatoryHeaderExt::NonFinal(2),
            0x00AB => MandatoryHeaderExt::Final(1),
            0x00AC => MandatoryHeaderExt::NonFinal(0),
            0x0081 => MandatoryHeaderExt::Final(0),
            _ => MandatoryHeaderExt::Unknown,
        }
    }
}

// ---------------------------------------------------------------------------------------------
// fault injecting memory
// ---------------------------------------------------------------------------------------------
struct Ctl {
    rng: Rng,
    /// probability (per 1000) that a memory call fails spuriously
    fail_per_mille: usize,
    calls: u64,
    fails: u64,
    /// buffers the memory had to keep because the error variant it answered carries no buffer
    limbo: Vec<Box<[u8]>>,
}
#[derive(Clone)]
struct FaultyMem {
    inner: SimpleGseMemory,
    ctl: Rc<RefCell<Ctl>>,
}
impl FaultyMem {
    fn fail(&self) -> bool {
        let mut c = self.ctl.borrow_mut();
        c.calls += 1;
        let p = c.fail_per_mille;
        if p > 0 && c.rng.below(1000) < p {
            c.fails += 1;
            true
        } else {
            false
        }
    }
    fn kind(&self, n: usize) -> usize {
        self.ctl.borrow_mut().rng.below(n)
    }
}
impl GseDecapMemory for FaultyMem {
    fn new(a: usize, b: usize, c: usize, d: usize) -> Self {
        FaultyMem {
            inner: SimpleGseMemory::new(a, b, c, d),
            ctl: Rc::new(RefCell::new(Ctl {
                rng: Rng::new(1),
                fail_per_mille: 0,
                calls: 0,
                fails: 0,
                limbo: vec![],
            })),
        }
    }
    fn provision_storage(&mut self, storage: Box<[u8]>) -> Result<(), DecapMemoryError> {
        if self.fail() {
            return match self.kind(5) {
                0 => Err(DecapMemoryError::StorageOverflow(storage)),
                1 => Err(DecapMemoryError::BufferTooSmall(storage)),
                2 => {
                    self.ctl.borrow_mut().limbo.push(storage);
                    Err(DecapMemoryError::StorageUnderflow)
                }
                3 => {
                    self.ctl.borrow_mut().limbo.push(storage);
                    Err(DecapMemoryError::UndefinedId)
                }
                _ => {
                    self.ctl.borrow_mut().limbo.push(storage);
                    Err(DecapMemoryError::MemoryCorrupted)
                }
            };
        }
        self.inner.provision_storage(storage)
    }
    fn new_pdu(&mut self) -> Result<Box<[u8]>, DecapMemoryError> {
        if self.fail() {
            return match self.kind(3) {
                0 => Err(DecapMemoryError::StorageUnderflow),
                1 => Err(DecapMemoryError::UndefinedId),
                _ => Err(DecapMemoryError::MemoryCorrupted),
            };
        }
        self.inner.new_pdu()
    }
    fn new_frag(&mut self, context: DecapContext) -> Result<MemoryContext, DecapMemoryError> {
        if self.fail() {
            return match self.kind(3) {
                0 => Err(DecapMemoryError::StorageUnderflow),
                1 => Err(DecapMemoryError::UndefinedId),
                _ => Err(DecapMemoryError::MemoryCorrupted),
            };
        }
        self.inner.new_frag(context)
    }
    fn take_frag(&mut self, frag_id: u8) -> Result<MemoryContext, DecapMemoryError> {
        if self.fail() {
            return match self.kind(3) {
                0 => Err(DecapMemoryError::StorageUnderflow),
                1 => Err(DecapMemoryError::UndefinedId),
                _ => Err(DecapMemoryError::MemoryCorrupted),
            };
        }
        self.inner.take_frag(frag_id)
    }
    fn save_frag(&mut self, context: MemoryContext) -> Result<(), DecapMemoryError> {
        if self.fail() {
            let (_, b) = context;
            self.ctl.borrow_mut().limbo.push(b);
            return match self.kind(3) {
                0 => Err(DecapMemoryError::StorageUnderflow),
                1 => Err(DecapMemoryError::UndefinedId),
                _ => Err(DecapMemoryError::MemoryCorrupted),
            };
        }
        self.inner.save_frag(context)
    }
}

/// lengths of all buffers held by a SimpleGseMemory (observed on a clone, through the trait only)
fn drain_lens(mem: &SimpleGseMemory) -> (Vec<usize>, Vec<(u8, usize)>) {
    let mut m = mem.clone();
    let mut free = vec![];
    while let Ok(b) = m.new_pdu() {
        free.push(b.len());
    }
    let mut slots = vec![];
    for id in 0..=255u8 {
        if let Ok((c, b)) = m.take_frag(id) {
            assert_eq!(c.frag_id, id);
            slots.push((id, b.len()));
        }
    }
    (free, slots)
}

// ---------------------------------------------------------------------------------------------
// sender side trains (hand built, wire level)
// ---------------------------------------------------------------------------------------------
#[derive(Clone, Debug)]
struct Train {
    frag_id: u8,
    pdu: Vec<u8>,
    sent: usize,
    crc: u32,
    started: bool,
    label: Label,
    ptype: u16,
    total_len: u16,
}

struct World {
    d: Decapsulator<FaultyMem, DefaultCrc, Mgr>,
    ctl: Rc<RefCell<Ctl>>,
    n: usize,
    m: usize,
    /// buffers owned by the caller
    owned: Vec<Box<[u8]>>,
    /// every live buffer, identified by its (unique) length
    live: BTreeMap<usize, ()>,
    next_big: usize,
    next_small: usize,
    trains: Vec<Train>,
    log: Vec<String>,
    seam: bool,
    /// number of buffers destroyed by SimpleGseMemory::save_frag on an occupied slot (direct calls)
    destroyed_by_save: usize,
    /// a too small buffer was pushed into a slot through the seam: C16 is only informative then
    tainted: bool,
    stats: BTreeMap<String, usize>,
}

impl World {
    fn new(n: usize, m: usize, seed: u64, fail_per_mille: usize, seam: bool) -> World {
        let mem = FaultyMem::new(n, m, 0, 0);
        let ctl = mem.ctl.clone();
        {
            let mut c = ctl.borrow_mut();
            c.rng = Rng::new(seed ^ 0xABCD);
            c.fail_per_mille = fail_per_mille;
        }
        World {
            d: Decapsulator::new(mem, DefaultCrc {}, Mgr),
            ctl,
            n,
            m,
            owned: vec![],
            live: BTreeMap::new(),
            next_big: m,
            next_small: if m > 0 { m - 1 } else { 0 },
            trains: vec![],
            log: vec![],
            seam,
            destroyed_by_save: 0,
            tainted: false,
            stats: BTreeMap::new(),
        }
    }
    fn stat(&mut self, k: &str) {
        *self.stats.entry(k.to_string()).or_insert(0) += 1;
    }
    fn fresh_big(&mut self) -> Box<[u8]> {
        let l = self.next_big;
        self.next_big += 1;
        self.live.insert(l, ());
        vec![0u8; l].into_boxed_slice()
    }
    fn fresh_small(&mut self) -> Option<Box<[u8]>> {
        if self.next_small == 0 || self.m == 0 {
            return None;
        }
        let l = self.next_small;
        self.next_small -= 1;
        self.live.insert(l, ());
        Some(vec![0u8; l].into_boxed_slice())
    }
    fn own(&mut self, b: Box<[u8]>) {
        self.owned.push(b);
    }
    fn own_err(&mut self, e: DecapMemoryError) {
        match e {
            DecapMemoryError::StorageOverflow(b) | DecapMemoryError::BufferTooSmall(b) => {
                self.own(b)
            }
            _ => {}
        }
    }
    fn check_conservation(&mut self, what: &str) {
        let (free, slots) = drain_lens(&self.d.memory.inner);
        let mut seen: Vec<usize> = vec![];
        seen.extend(free.iter().cloned());
        seen.extend(slots.iter().map(|x| x.1));
        seen.extend(self.owned.iter().map(|b| b.len()));
        seen.extend(self.ctl.borrow().limbo.iter().map(|b| b.len()));
        seen.sort();
        let expected: Vec<usize> = self.live.keys().cloned().collect();
        if seen != expected {
            let tail: Vec<String> = self.log.iter().rev().take(12).rev().cloned().collect();
            panic!(
                "C08 conservation broken after {what}\n expected {expected:?}\n seen     {seen:?}\n free {free:?} slots {slots:?}\n last ops:\n{}",
                tail.join("\n")
            );
        }
    }
}

fn frag_id_pool(n: usize) -> Vec<u8> {
    let mut v = vec![0u8, 1, 2, 255, 128];
    for k in [n.saturating_sub(1), n, n + 1, 2 * n, 2 * n + 1, 3 * n] {
        v.push((k % 256) as u8);
    }
    v
}

fn rand_label(r: &mut Rng) -> Label {
    match r.below(8) {
        0 | 1 => Label::SixBytesLabel([1, 2, 3, 4, 5, r.below(3) as u8]),
        2 | 3 => Label::ThreeBytesLabel([9, 9, r.below(3) as u8]),
        4 => Label::Broadcast,
        5 => Label::ReUse,
        6 => Label::SixBytesLabel([0; 6]),
        _ => Label::ThreeBytesLabel([0; 3]),
    }
}

/// (t1, tail prefix carrying the extension chain and the final protocol type) - valid or not
fn rand_type_chain(r: &mut Rng) -> (u16, Vec<u8>) {
    match r.below(12) {
        0..=4 => (0x0800 + r.below(4) as u16, vec![]),
        5 => (0x0100 + r.below(256) as u16, vec![0x08, 0x00]),
        6 => {
            let mut t = r.bytes(2);
            t.extend_from_slice(&[0x86, 0xDD]);
            (0x0200 + r.below(256) as u16, t)
        }
        7 => {
            // known mandatory non final (2 bytes) then optional 4 bytes then type
            let mut t = vec![0xDE, 0xAD, 0x03, 0x01, 1, 2, 3, 4, 0x12, 0x34];
            if r.chance(1, 3) {
                t.truncate(r.below(t.len()));
            }
            (0x00AA, t)
        }
        8 => (0x00AB, vec![0x77]),
        9 => (0x0081, vec![]),
        10 => {
            let k = r.below(6);
            (r.below(0x100) as u16, r.bytes(k))
        }
        _ => {
            let k = r.below(12);
            (r.below(0x600) as u16, r.bytes(k))
        }
    }
}

fn gen_packet(w: &mut World, r: &mut Rng) -> Vec<u8> {
    let m = w.m;
    let ids = frag_id_pool(w.n);
    let pdu_len_choices: Vec<usize> = vec![
        0,
        1,
        2,
        m / 2,
        m.saturating_sub(1),
        m,
        m + 1,
        m + 7,
        m + 40,
        r.below(m + 50),
        r.below(60),
    ];
    match r.below(100) {
        // continue or start a train
        0..=39 => {
            if w.trains.is_empty() || (w.trains.len() < 6 && r.chance(1, 4)) {
                let mut len = r.pick(&pdu_len_choices).min(65000);
                if len < 2 {
                    len = 2 + r.below(20);
                }
                let label = loop {
                    let l = rand_label(r);
                    if l != Label::SixBytesLabel([0; 6]) {
                        break l;
                    }
                };
                let pdu = r.bytes(len);
                let ptype = 0x0800 + r.below(3) as u16;
                let total_len = (len + 2 + label.len()) as u16;
                let crc = DefaultCrc {}.calculate_crc32(&pdu, ptype, total_len, label.get_bytes());
                w.trains.push(Train {
                    frag_id: r.pick(&ids),
                    pdu,
                    sent: 0,
                    crc,
                    started: false,
                    label,
                    ptype,
                    total_len,
                });
            }
            let k = r.below(w.trains.len());
            let mut t = w.trains[k].clone();
            let remaining = t.pdu.len() - t.sent;
            let pkt;
            if !t.started {
                let take = r.range(0, (remaining - 1).min(4000));
                pkt = w_first(&t.label, t.frag_id, t.total_len, t.ptype, &t.pdu[..take]);
                t.sent = take;
                t.started = true;
                w.trains[k] = t;
            } else if remaining <= 4000 && r.chance(1, 2) {
                let crc = if r.chance(1, 8) { t.crc ^ 1 } else { t.crc };
                pkt = w_end(r.range(1, 3) as u8, t.frag_id, &t.pdu[t.sent..], crc);
                w.trains.remove(k);
            } else {
                let take = r.range(1, remaining.min(4000).max(1)).min(remaining.max(1));
                let take = take.min(remaining);
                if take == 0 {
                    pkt = w_end(3, t.frag_id, &[], t.crc);
                    w.trains.remove(k);
                } else {
                    pkt = w_inter(r.range(1, 3) as u8, t.frag_id, &t.pdu[t.sent..t.sent + take]);
                    t.sent += take;
                    w.trains[k] = t;
                }
            }
            pkt
        }
        // complete packets (valid or with odd type chains / labels)
        40..=59 => {
            let l = rand_label(r);
            let (t1, mut tail) = rand_type_chain(r);
            let len = r.pick(&pdu_len_choices).min(4000);
            tail.extend(r.bytes(len));
            tail.truncate(4080);
            w_complete(&l, t1, &tail)
        }
        // first fragments with odd fields
        60..=72 => {
            let l = rand_label(r);
            let (t1, mut tail) = rand_type_chain(r);
            let len = r.pick(&pdu_len_choices).min(4000);
            tail.extend(r.bytes(len));
            tail.truncate(4070);
            let total = match r.below(5) {
                0 => 0,
                1 => 0xFFFF,
                2 => (len + 2 + l.len()) as u16,
                3 => len as u16,
                _ => r.below(0x10000) as u16,
            };
            w_first(&l, r.pick(&ids), total, t1, &tail)
        }
        // stray intermediate / end
        73..=82 => {
            let len = r.pick(&pdu_len_choices).min(4000);
            let p = r.bytes(len);
            if r.chance(1, 2) {
                w_inter(r.range(1, 3) as u8, r.pick(&ids), &p)
            } else {
                w_end(r.range(0, 3) as u8, r.pick(&ids), &p, r.next() as u32)
            }
        }
        // degenerate headers
        83..=90 => {
            let h = r.below(0x10000) as u16;
            let mut v = h.to_be_bytes().to_vec();
            let gl = (h & 0xFFF) as usize;
            let l = match r.below(4) {
                0 => gl,
                1 => r.below(gl + 1),
                2 => gl + r.below(10),
                _ => r.below(12),
            };
            v.extend(r.bytes(l));
            v
        }
        // random bytes
        _ => {
            let l = r.below(40);
            r.bytes(l)
        }
    }
}

fn mutate(r: &mut Rng, mut p: Vec<u8>) -> Vec<u8> {
    match r.below(10) {
        0 => {
            if !p.is_empty() {
                let i = r.below(p.len());
                p[i] ^= 1 << r.below(8);
            }
        }
        1 => {
            let l = r.below(p.len() + 1);
            p.truncate(l);
        }
        2 => {
            let extra = r.below(9);
            p.extend(r.bytes(extra));
        }
        3 => {
            if p.len() >= 2 {
                let i = r.below(2);
                p[i] = r.byte();
            }
        }
        _ => {}
    }
    p
}

fn hand_context(w: &World, r: &mut Rng) -> DecapContext {
    let ids = frag_id_pool(w.n);
    let exts = match r.below(4) {
        0 => vec![Extension::new(0x0100, &[]).unwrap()],
        1 => vec![
            Extension::new(0x00AA, &[1, 2]).unwrap(),
            Extension::new(0x0301, &[1, 2, 3, 4]).unwrap(),
        ],
        _ => vec![],
    };
    let label = match r.below(5) {
        0 => Label::ReUse,
        1 => Label::Broadcast,
        2 => Label::SixBytesLabel([0; 6]),
        3 => Label::ThreeBytesLabel([7, 7, 7]),
        _ => Label::SixBytesLabel([1, 2, 3, 4, 5, 6]),
    };
    let pdu_len = match r.below(5) {
        0 => 0,
        1 => 0xFFFF,
        2 => w.m as u16,
        3 => (w.m as u16).wrapping_add(3),
        _ => r.below(0x10000) as u16,
    };
    let total_len = match r.below(4) {
        0 => 0,
        1 => 0xFFFF,
        2 => pdu_len.wrapping_add(2 + label.len() as u16 + r.below(10) as u16),
        _ => r.below(0x10000) as u16,
    };
    DecapContext::new(
        label,
        r.below(0x10000) as u16,
        r.pick(&ids),
        total_len,
        pdu_len,
        r.chance(1, 2),
        exts,
    )
}

fn check_decap_result(
    w: &mut World,
    pkt: &[u8],
    res: Result<(DecapStatus, usize), (DecapError, usize)>,
) {
    let consumed = match &res {
        Ok((_, c)) => *c,
        Err((_, c)) => *c,
    };
    assert!(consumed <= pkt.len(), "C05 consumed {consumed} > len {}", pkt.len());
    if !pkt.is_empty() {
        assert!(
            consumed >= 2.min(pkt.len()),
            "C05 no progress: consumed {consumed} len {}",
            pkt.len()
        );
    }
    match res {
        Ok((DecapStatus::CompletedPkt(b, md), _)) => {
            assert!(md.pdu_len() <= b.len());
            w.stat("ok_completed");
            w.own(b);
        }
        Ok((DecapStatus::FragmentedPkt(_), _)) => w.stat("ok_fragment"),
        Ok((DecapStatus::Padding, _)) => w.stat("ok_padding"),
        Err((DecapError::ErrorMemory(e), _)) => {
            w.stat("err_memory");
            w.own_err(e)
        }
        Err((e, _)) => {
            let k = format!("err_{:?}", e);
            w.stat(&k)
        }
    }
}

fn step(w: &mut World, r: &mut Rng) {
    let op = r.below(100);
    let cap_live = 2 * w.n.min(8) + 8;
    match op {
        0..=59 => {
            let p = gen_packet(w, r);
            let p = mutate(r, p);
            w.log.push(format!("decap {:02x?}", &p[..p.len().min(24)]));
            let _ = w.d.get_label_or_frag_id(&p);
            let res = w.d.decap(&p);
            w.log.push(format!("   -> {:?}", res.as_ref().map(|x| (x.0.to_str(), x.1)).map_err(|x| (x.0.to_str(), x.1))));
            check_decap_result(w, &p, res);
        }
        60..=74 => {
            // provision: a buffer of the caller, or a new one
            let b = if !w.owned.is_empty() && (r.chance(2, 3) || w.live.len() >= cap_live) {
                let i = r.below(w.owned.len());
                w.owned.swap_remove(i)
            } else if w.live.len() < cap_live {
                w.fresh_big()
            } else {
                return;
            };
            w.log.push(format!("provision len {}", b.len()));
            let via_field = r.chance(1, 2);
            let res = if via_field {
                w.d.memory.provision_storage(b)
            } else {
                w.d.provision_storage(b)
            };
            if let Err(e) = res {
                w.own_err(e)
            }
        }
        75..=77 => {
            w.log.push("reset".into());
            w.d.reset_last_label();
        }
        78..=81 => {
            w.log.push("new_pdu".into());
            let res = if r.chance(1, 2) {
                w.d.new_pdu()
            } else {
                w.d.memory.new_pdu()
            };
            if let Ok(b) = res {
                w.own(b)
            }
        }
        82..=86 => {
            let id = r.pick(&frag_id_pool(w.n));
            w.log.push(format!("take_frag {id}"));
            if let Ok((_, b)) = w.d.memory.take_frag(id) {
                w.own(b)
            }
        }
        87..=89 if w.seam => {
            let c = hand_context(w, r);
            w.log.push(format!("new_frag id {}", c.frag_id));
            if let Ok((_, b)) = w.d.memory.new_frag(c) {
                w.own(b)
            }
        }
        90..=99 if w.seam => {
            // save a hand built context with a buffer of the caller (or a too small one)
            let c = hand_context(w, r);
            let b = if r.chance(1, 4) {
                match w.fresh_small() {
                    Some(b) => {
                        w.tainted = true;
                        b
                    }
                    None => return,
                }
            } else if !w.owned.is_empty() {
                let i = r.below(w.owned.len());
                w.owned.swap_remove(i)
            } else {
                return;
            };
            // is the slot occupied ? (probe on a clone)
            let occupied = {
                let (_, slots) = drain_lens(&w.d.memory.inner);
                slots.iter().any(|(id, _)| *id as usize % w.n == c.frag_id as usize % w.n)
            };
            let len = b.len();
            w.log.push(format!("save_frag id {} len {} occupied {}", c.frag_id, len, occupied));
            let before_limbo = w.ctl.borrow().limbo.len();
            let res = w.d.memory.save_frag((c, b));
            let injected = w.ctl.borrow().limbo.len() != before_limbo;
            if !injected {
                assert_eq!(res.is_err(), occupied, "save_frag refusal <=> occupied slot");
                if res.is_err() {
                    // known candidate: the refused buffer is destroyed by SimpleGseMemory
                    w.destroyed_by_save += 1;
                    w.live.remove(&len);
                }
            }
        }
        _ => {}
    }
}

/// C16: fresh valid transfer produced by the crate's own encapsulator.  Returns a description of
/// the failure, if any.
fn recovery(w: &mut World, r: &mut Rng) -> Result<(), String> {
    w.ctl.borrow_mut().fail_per_mille = 0;
    w.d.reset_last_label();

    // the caller makes one storage buffer available (or the free list is reported full)
    let mut provide = |w: &mut World| -> Result<(), String> {
        let pos = w.owned.iter().position(|b| b.len() >= w.m);
        let b = match pos {
            Some(i) => w.owned.swap_remove(i),
            None => w.fresh_big(),
        };
        match w.d.provision_storage(b) {
            Ok(()) => Ok(()),
            Err(DecapMemoryError::StorageOverflow(b)) => {
                w.own(b);
                Ok(())
            }
            Err(e) => Err(format!("provision refused: {:?}", std::mem::discriminant(&e))),
        }
    };
    provide(w)?;

    let mut enc = Encapsulator::new(DefaultCrc {});
    enc.disable_re_use_label();

    // 1. complete packet, explicit label
    let label = match r.below(3) {
        0 => Label::SixBytesLabel([0xA, 0xB, 0xC, 0xD, 0xE, 0xF]),
        1 => Label::ThreeBytesLabel([0x1, 0x2, 0x3]),
        _ => Label::Broadcast,
    };
    let max_c = w.m.min(4000);
    let len = if r.chance(1, 3) { max_c } else { r.below(max_c + 1) };
    let pdu = r.bytes(len);
    let mut out = vec![0u8; 4200];
    let md = EncapMetadata::new(0x0800, label);
    let n = match enc.encap(&pdu, 0, md, &mut out) {
        Ok(EncapStatus::CompletedPkt(n)) => n as usize,
        other => return Err(format!("sender: {:?}", other)),
    };
    match w.d.decap(&out[..n]) {
        Ok((DecapStatus::CompletedPkt(b, meta), c)) => {
            if c != n || meta.pdu_len() != len || b[..len] != pdu[..] || meta.label() != label || meta.protocol_type() != 0x0800 {
                return Err("complete packet delivered wrongly".into());
            }
            w.own(b);
        }
        other => return Err(format!("complete packet (len {len}) not delivered: {:?}", other.map(|x| (x.0.to_str().to_string(), x.1)).map_err(|x| (x.0.to_str().to_string(), x.1)))),
    }
    w.check_conservation("recovery complete");

    // 2. fragmented PDU on any frag id, any label kind (re-use allowed when a label is remembered)
    provide(w)?;
    let frag_id = if r.chance(1, 2) { r.pick(&frag_id_pool(w.n)) } else { r.byte() };
    let label2 = match r.below(4) {
        0 => Label::SixBytesLabel([0x5, 0x5, 0x5, 0x5, 0x5, r.byte() | 1]),
        1 => Label::ThreeBytesLabel([0x6, 0x6, r.byte()]),
        2 => Label::Broadcast,
        _ => {
            if label == Label::Broadcast {
                Label::Broadcast
            } else {
                Label::ReUse
            }
        }
    };
    let exp_label = if label2 == Label::ReUse { label } else { label2 };
    let max_f = w.m.min(65535 - 2 - label2.len());
    if max_f < 4 {
        return Ok(());
    }
    let len = match r.below(4) {
        0 => max_f,
        1 => 4,
        _ => r.range(4, max_f),
    };
    let pdu = r.bytes(len);
    let md = EncapMetadata::new(0x86DD, label2);
    // first buffer small enough to force fragmentation
    let first_room = 7 + label2.len() + r.below((len - 3).min(4000));
    let mut out = vec![0u8; first_room];
    let (n, mut ctx) = match enc.encap(&pdu, frag_id, md, &mut out) {
        Ok(EncapStatus::FragmentedPkt(n, ctx)) => (n as usize, ctx),
        other => return Err(format!("sender first: {:?} room {first_room} len {len}", other)),
    };
    match w.d.decap(&out[..n]) {
        Ok((DecapStatus::FragmentedPkt(_), c)) if c == n => {}
        other => return Err(format!("first fragment (frag id {frag_id}, pdu {len}, label {:?}) refused: {:?}", label2, other.map(|x| (x.0.to_str().to_string(), x.1)).map_err(|x| (x.0.to_str().to_string(), x.1)))),
    }
    loop {
        let room = r.range(4, 4200);
        let mut out = vec![0u8; room];
        match enc.encap_frag(&pdu, &ctx, &mut out) {
            Ok(EncapStatus::FragmentedPkt(n, c2)) => {
                ctx = c2;
                match w.d.decap(&out[..n as usize]) {
                    Ok((DecapStatus::FragmentedPkt(_), c)) if c == n as usize => {}
                    other => return Err(format!("intermediate refused: {:?}", other.map(|x| (x.0.to_str().to_string(), x.1)).map_err(|x| (x.0.to_str().to_string(), x.1)))),
                }
            }
            Ok(EncapStatus::CompletedPkt(n)) => {
                match w.d.decap(&out[..n as usize]) {
                    Ok((DecapStatus::CompletedPkt(b, meta), c)) => {
                        if c != n as usize || meta.pdu_len() != len || b[..len] != pdu[..] || meta.label() != exp_label || meta.protocol_type() != 0x86DD {
                            return Err("fragmented PDU delivered wrongly".into());
                        }
                        w.own(b);
                    }
                    other => return Err(format!("end refused: {:?}", other.map(|x| (x.0.to_str().to_string(), x.1)).map_err(|x| (x.0.to_str().to_string(), x.1)))),
                }
                break;
            }
            Err(EncapError::ErrorSizeBuffer) => continue,
            Err(e) => return Err(format!("sender frag: {:?}", e)),
        }
    }
    w.check_conservation("recovery fragmented");
    Ok(())
}

fn run_histories(
    slots: &[usize],
    sizes: &[usize],
    seeds: u64,
    steps: usize,
    fail_per_mille: usize,
    seam: bool,
) -> BTreeMap<String, usize> {
    let mut total: BTreeMap<String, usize> = BTreeMap::new();
    for &n in slots {
        for &m in sizes {
            for seed in 0..seeds {
                let mut r = Rng::new(seed * 7919 + n as u64 * 131 + m as u64);
                let mut w = World::new(n, m, seed + 17, fail_per_mille, seam);
                // initial provisioning: sometimes more than the free list holds
                let k = r.below(n.min(8) + 5);
                for _ in 0..k {
                    let b = w.fresh_big();
                    if let Err(e) = w.d.provision_storage(b) {
                        w.own_err(e)
                    }
                }
                w.check_conservation("init");
                for s in 0..steps {
                    step(&mut w, &mut r);
                    w.check_conservation(&format!("n {n} m {m} seed {seed} step {s}"));
                }
                match recovery(&mut w, &mut r) {
                    Ok(()) => {}
                    Err(e) => {
                        if w.tainted {
                            *total.entry("c16_failed_but_tainted".into()).or_insert(0) += 1;
                            *total.entry(format!("tainted: {}", &e[..e.len().min(60)])).or_insert(0) += 1;
                        } else {
                            let tail: Vec<String> = w.log.iter().rev().take(12).rev().cloned().collect();
                            panic!("C16 n {n} m {m} seed {seed}: {e}\n{}", tail.join("\n"));
                        }
                    }
                }
                for (k, v) in &w.stats {
                    *total.entry(k.clone()).or_insert(0) += v;
                }
                *total.entry("destroyed_by_save".into()).or_insert(0) += w.destroyed_by_save;
                *total.entry("histories".into()).or_insert(0) += 1;
                *total.entry("mem_calls".into()).or_insert(0) += w.ctl.borrow().calls as usize;
                *total.entry("mem_faults".into()).or_insert(0) += w.ctl.borrow().fails as usize;
            }
        }
    }
    total
}

#[test]
fn seam_c05_c08_c16_decap_only_no_faults() {
    let t = run_histories(&[1, 2, 3, 4, 7, 255, 256], &[16, 64, 300], 40, 400, 0, false);
    println!("{t:#?}");
}

#[test]
fn seam_c05_c08_c16_decap_only_with_faults() {
    let t = run_histories(&[1, 2, 3, 4, 7, 256], &[16, 64, 300], 40, 400, 80, false);
    println!("{t:#?}");
}

#[test]
fn seam_c05_c08_c16_direct_memory_calls() {
    let t = run_histories(&[1, 2, 3, 4, 7, 256], &[16, 64, 300], 40, 400, 0, true);
    println!("{t:#?}");
    let t = run_histories(&[1, 2, 4, 256], &[16, 64], 30, 400, 80, true);
    println!("{t:#?}");
    // degenerate configured sizes: zero length and one byte storages
    let t = run_histories(&[1, 2, 3], &[0, 1, 5], 30, 300, 40, true);
    println!("{t:#?}");
}

#[test]
fn seam_c05_c08_c16_big_storages() {
    // storages above 65535 bytes and a configured size above 65535
    let t = run_histories(&[1, 2, 3], &[65533, 65536, 70000], 3, 250, 0, true);
    println!("{t:#?}");
    let t = run_histories(&[1, 2], &[65535, 66000], 3, 250, 60, false);
    println!("{t:#?}");
}

// ---------------------------------------------------------------------------------------------
// memory that returns odd but type-correct values
// ---------------------------------------------------------------------------------------------
struct OddMem {
    r: Rng,
}
impl OddMem {
    fn buf(&mut self) -> Box<[u8]> {
        let l = match self.r.below(6) {
            0 => 0,
            1 => 1,
            2 => 4096,
            3 => 70000,
            _ => self.r.below(300),
        };
        vec![0u8; l].into_boxed_slice()
    }
    fn ctx(&mut self, id: u8) -> DecapContext {
        let label = match self.r.below(4) {
            0 => Label::ReUse,
            1 => Label::Broadcast,
            2 => Label::SixBytesLabel([0; 6]),
            _ => Label::ThreeBytesLabel([1, 2, 3]),
        };
        let pdu_len = match self.r.below(4) {
            0 => 0,
            1 => 0xFFFF,
            _ => self.r.below(400) as u16,
        };
        DecapContext::new(
            label,
            self.r.below(0x10000) as u16,
            if self.r.chance(1, 2) { id } else { self.r.byte() },
            self.r.below(0x10000) as u16,
            pdu_len,
            self.r.chance(1, 2),
            vec![],
        )
    }
    fn err(&mut self, b: Option<Box<[u8]>>) -> DecapMemoryError {
        match (self.r.below(5), b) {
            (0, Some(b)) => DecapMemoryError::StorageOverflow(b),
            (1, Some(b)) => DecapMemoryError::BufferTooSmall(b),
            (0, None) => DecapMemoryError::StorageOverflow(vec![].into_boxed_slice()),
            (1, None) => DecapMemoryError::BufferTooSmall(vec![1u8; 3].into_boxed_slice()),
            (2, _) => DecapMemoryError::StorageUnderflow,
            (3, _) => DecapMemoryError::UndefinedId,
            _ => DecapMemoryError::MemoryCorrupted,
        }
    }
}
impl GseDecapMemory for OddMem {
    fn new(_: usize, _: usize, _: usize, _: usize) -> Self {
        OddMem { r: Rng::new(5) }
    }
    fn provision_storage(&mut self, s: Box<[u8]>) -> Result<(), DecapMemoryError> {
        if self.r.chance(1, 2) {
            Ok(())
        } else {
            Err(self.err(Some(s)))
        }
    }
    fn new_pdu(&mut self) -> Result<Box<[u8]>, DecapMemoryError> {
        if self.r.chance(3, 4) {
            Ok(self.buf())
        } else {
            Err(self.err(None))
        }
    }
    fn new_frag(&mut self, c: DecapContext) -> Result<MemoryContext, DecapMemoryError> {
        match self.r.below(4) {
            0 => Err(self.err(None)),
            1 => {
                let c2 = self.ctx(c.frag_id);
                Ok((c2, self.buf()))
            }
            _ => Ok((c, self.buf())),
        }
    }
    fn take_frag(&mut self, id: u8) -> Result<MemoryContext, DecapMemoryError> {
        if self.r.chance(1, 4) {
            Err(self.err(None))
        } else {
            let c = self.ctx(id);
            Ok((c, self.buf()))
        }
    }
    fn save_frag(&mut self, _: MemoryContext) -> Result<(), DecapMemoryError> {
        if self.r.chance(1, 4) {
            Err(self.err(None))
        } else {
            Ok(())
        }
    }
}

struct OddMgr;
impl MandatoryHeaderExtensionManager for OddMgr {
    fn is_mandatory_header_id_known(&self, id: u16) -> MandatoryHeaderExt {
        match id % 7 {
            0 => MandatoryHeaderExt::Final(255),
            1 => MandatoryHeaderExt::NonFinal(255),
            2 => MandatoryHeaderExt::Final(0),
            3 => MandatoryHeaderExt::NonFinal(0),
            4 => MandatoryHeaderExt::NonFinal(1),
            5 => MandatoryHeaderExt::Final(3),
            _ => MandatoryHeaderExt::Unknown,
        }
    }
}
struct OddCrc;
impl CrcCalculator for OddCrc {
    fn calculate_crc32(&self, pdu: &[u8], _: u16, _: u16, _: &[u8]) -> u32 {
        // constant for short PDUs: the end packets of the generator often "match"
        if pdu.len() % 2 == 0 {
            0
        } else {
            0xFFFF_FFFF
        }
    }
}

#[test]
fn odd_memory_c05_total() {
    let mut count = 0usize;
    for seed in 0..300u64 {
        let mut r = Rng::new(seed + 1000);
        let mut mem = OddMem::new(0, 0, 0, 0);
        mem.r = Rng::new(seed);
        let mut d = Decapsulator::new(mem, OddCrc, OddMgr);
        // a World only used by the generator
        let mut w = World::new(3, 64, seed, 0, false);
        for _ in 0..400 {
            let p = gen_packet(&mut w, &mut r);
            let mut p = mutate(&mut r, p);
            if r.chance(1, 10) {
                // crc field matching OddCrc
                let l = p.len();
                if l >= 4 {
                    let v = if r.chance(1, 2) { 0u8 } else { 0xFF };
                    for b in &mut p[l - 4..] {
                        *b = v;
                    }
                }
            }
            let _ = d.get_label_or_frag_id(&p);
            let res = d.decap(&p);
            let consumed = match &res {
                Ok((_, c)) => *c,
                Err((_, c)) => *c,
            };
            assert!(consumed <= p.len());
            if !p.is_empty() {
                assert!(consumed >= 2.min(p.len()));
            }
            if let Ok((DecapStatus::CompletedPkt(b, md), _)) = &res {
                assert!(md.pdu_len() <= b.len());
            }
            if r.chance(1, 30) {
                d.reset_last_label();
            }
            count += 1;
        }
    }
    println!("odd memory decap calls: {count}");
}

/// all 65536 fixed headers x every truncation of a short announced packet, against the odd memory
#[test]
fn odd_memory_c05_all_headers() {
    let mut mem = OddMem::new(0, 0, 0, 0);
    mem.r = Rng::new(99);
    let mut d = Decapsulator::new(mem, OddCrc, OddMgr);
    let mut r = Rng::new(4242);
    let mut count = 0usize;
    for h in 0..=0xFFFFu32 {
        let gl = (h & 0xFFF) as usize;
        for variant in 0..6 {
            let body_len = match variant {
                0 => gl,
                1 => gl.saturating_sub(1),
                2 => gl + 3,
                3 => r.below(gl + 1),
                4 => r.below(16),
                _ => gl.min(20),
            };
            let mut p = (h as u16).to_be_bytes().to_vec();
            match r.below(3) {
                0 => p.extend(std::iter::repeat(0u8).take(body_len)),
                1 => p.extend(r.bytes(body_len)),
                _ => {
                    // extension ids everywhere
                    for i in 0..body_len {
                        p.push(if i % 2 == 0 { (r.below(6)) as u8 } else { r.byte() });
                    }
                }
            }
            let _ = d.get_label_or_frag_id(&p);
            let res = d.decap(&p);
            let consumed = match &res {
                Ok((_, c)) => *c,
                Err((_, c)) => *c,
            };
            assert!(consumed <= p.len());
            assert!(consumed >= 2.min(p.len()));
            count += 1;
        }
    }
    println!("odd memory header sweep decap calls: {count}");
}

// ---------------------------------------------------------------------------------------------
// C17: SimpleGseMemory against a model
// ---------------------------------------------------------------------------------------------
#[derive(Clone)]
struct Model {
    n: usize,
    m: usize,
    free: Vec<usize>,                           // buffer ids
    slots: Vec<Option<(DecapContext, usize)>>, // ctx + buffer id
}

fn pattern(id: usize, len: usize) -> Box<[u8]> {
    (0..len).map(|i| (id * 31 + i * 7 + 3) as u8).collect::<Vec<u8>>().into_boxed_slice()
}

fn c17_run(n: usize, m: usize, seed: u64, steps: usize) -> (usize, usize) {
    let mut r = Rng::new(seed * 31 + n as u64 * 1009 + m as u64);
    let mut mem = SimpleGseMemory::new(n, m, 0, 0);
    let mut model = Model { n, m, free: vec![], slots: vec![None; n] };
    // id -> len ; buffers owned by the caller
    let mut lens: BTreeMap<usize, usize> = BTreeMap::new();
    let mut hand: Vec<(usize, Box<[u8]>)> = vec![];
    let mut next_id = 0usize;
    let mut ops = 0usize;
    let mut destroyed = 0usize;
    let ids = frag_id_pool(n);
    // a buffer is identified by (len, content): len is unique per id
    let ident = |lens: &BTreeMap<usize, usize>, b: &Box<[u8]>| -> usize {
        let id = *lens.iter().find(|(_, l)| **l == b.len()).expect("unknown buffer").0;
        assert_eq!(&pattern(id, b.len())[..], &b[..], "C17 buffer content modified");
        id
    };
    let mut next_len_big = m;
    let mut next_len_small = m;
    for _ in 0..steps {
        ops += 1;
        match r.below(10) {
            0..=2 => {
                // provision: below / at / above the configured size
                let (id, b) = if !hand.is_empty() && r.chance(1, 2) {
                    let i = r.below(hand.len());
                    hand.swap_remove(i)
                } else {
                    let len = if r.chance(1, 4) && next_len_small > 0 {
                        next_len_small -= 1;
                        next_len_small
                    } else {
                        next_len_big += 1;
                        next_len_big - 1
                    };
                    if lens.len() > 3 * n.min(16) + 12 {
                        continue;
                    }
                    let id = next_id;
                    next_id += 1;
                    lens.insert(id, len);
                    (id, pattern(id, len))
                };
                let full = model.free.len() == n + 2;
                let small = b.len() < m;
                match mem.provision_storage(b) {
                    Ok(()) => {
                        assert!(!full && !small, "C17 provision accepted (full {full} small {small})");
                        model.free.push(id);
                    }
                    Err(DecapMemoryError::StorageOverflow(b)) => {
                        assert!(full, "C17 overflow while not full");
                        assert_eq!(ident(&lens, &b), id);
                        hand.push((id, b));
                    }
                    Err(DecapMemoryError::BufferTooSmall(b)) => {
                        assert!(small, "C17 too small while large enough");
                        assert_eq!(ident(&lens, &b), id);
                        hand.push((id, b));
                    }
                    Err(_) => panic!("C17 provision: unexpected error"),
                }
            }
            3 => match mem.new_pdu() {
                Ok(b) => {
                    let id = ident(&lens, &b);
                    let pos = model.free.iter().position(|x| *x == id).expect("C17 new_pdu: buffer not free in model");
                    model.free.remove(pos);
                    hand.push((id, b));
                }
                Err(DecapMemoryError::StorageUnderflow) => assert!(model.free.is_empty(), "C17 underflow with free buffers"),
                Err(_) => panic!("C17 new_pdu: unexpected error"),
            },
            4 | 5 => {
                let fid = r.pick(&ids);
                let ctx = DecapContext::new(Label::Broadcast, r.below(65536) as u16, fid, r.below(65536) as u16, r.below(65536) as u16, r.chance(1, 2), vec![]);
                let idx = fid as usize % n;
                match mem.new_frag(ctx.clone()) {
                    Ok((c, b)) => {
                        assert_eq!(c, ctx);
                        let id = ident(&lens, &b);
                        match model.slots[idx].take() {
                            Some((_, bid)) => assert_eq!(bid, id, "C17 new_frag must reuse the slot buffer"),
                            None => {
                                let pos = model.free.iter().position(|x| *x == id).expect("C17 new_frag: not a free buffer");
                                model.free.remove(pos);
                            }
                        }
                        // keep it in hand, save it back most of the time
                        if r.chance(3, 4) {
                            let c2 = if r.chance(1, 5) {
                                // save under another id
                                DecapContext::new(Label::ReUse, 1, r.pick(&ids), 2, 3, false, vec![])
                            } else {
                                c
                            };
                            let idx2 = c2.frag_id as usize % n;
                            let occ = model.slots[idx2].is_some();
                            match mem.save_frag((c2.clone(), b)) {
                                Ok(()) => {
                                    assert!(!occ, "C17 save into an occupied slot accepted");
                                    model.slots[idx2] = Some((c2, id));
                                }
                                Err(DecapMemoryError::MemoryCorrupted) => {
                                    assert!(occ, "C17 save refused on a free slot");
                                    destroyed += 1;
                                    lens.remove(&id);
                                }
                                Err(_) => panic!("C17 save_frag: unexpected error"),
                            }
                        } else {
                            hand.push((id, b));
                        }
                    }
                    Err(DecapMemoryError::StorageUnderflow) => {
                        assert!(model.slots[idx].is_none() && model.free.is_empty(), "C17 new_frag underflow");
                    }
                    Err(_) => panic!("C17 new_frag: unexpected error"),
                }
            }
            6 | 7 => {
                let fid = r.pick(&ids);
                let idx = fid as usize % n;
                let before = mem.clone();
                match mem.take_frag(fid) {
                    Ok((c, b)) => {
                        let id = ident(&lens, &b);
                        let (mc, mid) = model.slots[idx].take().expect("C17 take_frag: nothing saved in the model");
                        assert_eq!(mc.frag_id, fid);
                        assert_eq!(mc, c);
                        assert_eq!(mid, id);
                        hand.push((id, b));
                    }
                    Err(DecapMemoryError::UndefinedId) => {
                        match &model.slots[idx] {
                            Some((c, _)) => assert_ne!(c.frag_id, fid, "C17 take_frag refused a saved id"),
                            None => {}
                        }
                        assert!(mem == before, "C17 take_frag failure modified the memory");
                    }
                    Err(_) => panic!("C17 take_frag: unexpected error"),
                }
            }
            _ => {
                if hand.is_empty() {
                    continue;
                }
                let i = r.below(hand.len());
                let (id, b) = hand.swap_remove(i);
                let c = DecapContext::new(Label::ThreeBytesLabel([1, 1, 1]), r.below(65536) as u16, r.pick(&ids), r.below(65536) as u16, r.below(65536) as u16, r.chance(1, 2), vec![Extension::new(0x0100, &[]).unwrap()]);
                let idx = c.frag_id as usize % n;
                let occ = model.slots[idx].is_some();
                match mem.save_frag((c.clone(), b)) {
                    Ok(()) => {
                        assert!(!occ);
                        model.slots[idx] = Some((c, id));
                    }
                    Err(DecapMemoryError::MemoryCorrupted) => {
                        assert!(occ);
                        destroyed += 1;
                        lens.remove(&id);
                    }
                    Err(_) => panic!("C17 save_frag: unexpected error"),
                }
            }
        }
        // global check: memory content == model content
        if ops % 16 == 0 || steps < 200 {
            let (mut free, mut slots) = drain_lens(&mem);
            free.sort();
            slots.sort();
            let mut mfree: Vec<usize> = model.free.iter().map(|id| lens[id]).collect();
            mfree.sort();
            let mut mslots: Vec<(u8, usize)> = model.slots.iter().flatten().map(|(c, id)| (c.frag_id, lens[id])).collect();
            mslots.sort();
            assert_eq!(free, mfree, "C17 free bag differs");
            assert_eq!(slots, mslots, "C17 slots differ");
            let _ = (model.n, model.m);
        }
    }
    (ops, destroyed)
}

#[test]
fn c17_model_random() {
    let mut ops = 0;
    let mut destroyed = 0;
    for &n in &[1usize, 2, 3, 4, 5, 16, 255, 256, 257, 300] {
        for &m in &[0usize, 1, 8, 100] {
            for seed in 0..20 {
                let (o, d) = c17_run(n, m, seed, 600);
                ops += o;
                destroyed += d;
            }
        }
    }
    println!("c17 ops {ops}, buffers destroyed by refused save_frag {destroyed}");
}

// ---------------------------------------------------------------------------------------------
// C09 failure atomicity with a stateful CRC calculator
// ---------------------------------------------------------------------------------------------
#[derive(Debug, Clone, PartialEq, Eq)]
struct CountingCrc {
    calls: std::cell::Cell<u32>,
}
impl CrcCalculator for CountingCrc {
    fn calculate_crc32(&self, pdu: &[u8], p: u16, t: u16, l: &[u8]) -> u32 {
        self.calls.set(self.calls.get() + 1);
        DefaultCrc {}.calculate_crc32(pdu, p, t, l) ^ self.calls.get()
    }
}

fn ext_pool(r: &mut Rng) -> Extension {
    match r.below(9) {
        0 => Extension::new(0x0100 + r.below(256) as u16, &[]).unwrap(),
        1 => Extension::new(0x0200 + r.below(256) as u16, &[1, 2]).unwrap(),
        2 => Extension::new(0x0300, &[1, 2, 3, 4]).unwrap(),
        3 => Extension::new(0x0400, &[1, 2, 3, 4, 5, 6]).unwrap(),
        4 => Extension::new(0x05FF, &[1, 2, 3, 4, 5, 6, 7, 8]).unwrap(),
        5 => Extension::new(0x00AA, &[9, 9]).unwrap(),
        6 => Extension::new(0x0081, &[]).unwrap(),
        7 => {
            let l = r.pick(&[0usize, 1, 255, 256, 300, 4080, 4090, 4100, 5000]);
            Extension::new(r.below(256) as u16, &vec![0x5A; l]).unwrap()
        }
        _ => Extension::new(0x00AB, &[7]).unwrap(),
    }
}

fn c09_label(r: &mut Rng) -> Label {
    match r.below(7) {
        0 => Label::SixBytesLabel([0; 6]),
        1 => Label::SixBytesLabel([1, 2, 3, 4, 5, 6]),
        2 => Label::SixBytesLabel([1, 2, 3, 4, 5, 7]),
        3 => Label::ThreeBytesLabel([0; 3]),
        4 => Label::ThreeBytesLabel([1, 2, 3]),
        5 => Label::Broadcast,
        _ => Label::ReUse,
    }
}
fn c09_ptype(r: &mut Rng) -> u16 {
    match r.below(8) {
        0 => 0x00FF,
        1 => 0x0100,
        2 => 0x05FF,
        3 => 0x0600,
        4 => r.below(0x100) as u16,
        5 => 0x0081,
        6 => 0x00AA,
        _ => r.below(0x10000) as u16,
    }
}
fn c09_len(r: &mut Rng) -> usize {
    match r.below(8) {
        0 => r.below(20),
        1 => r.range(4080, 4105),
        2 => r.range(65520, 65545),
        3 => r.range(0, 70000),
        4 => 70000,
        5 => r.range(4090, 4100),
        6 => r.below(200),
        _ => r.below(5000),
    }
}

#[derive(Clone, Debug)]
enum Call {
    Encap(usize, u8, u16, Label, usize),
    EncapExt(usize, u8, u16, Label, usize, Vec<Extension>),
    Frag(usize, ContextFrag, usize),
}

fn c09_call(r: &mut Rng) -> Call {
    match r.below(3) {
        0 => Call::Encap(c09_len(r), r.byte(), c09_ptype(r), c09_label(r), c09_len(r)),
        1 => {
            let k = r.below(5);
            let mut v: Vec<Extension> = (0..k).map(|_| ext_pool(r)).collect();
            let mut p = c09_ptype(r);
            if r.chance(1, 2) && !v.is_empty() {
                // make the final mandatory case reachable
                if let Some(l) = v.last() {
                    if l.id() < 0x100 {
                        p = l.id();
                    }
                }
            }
            if r.chance(1, 10) {
                v.clear();
            }
            Call::EncapExt(c09_len(r), r.byte(), p, c09_label(r), c09_len(r), v)
        }
        _ => {
            let pl = c09_len(r);
            let lf = match r.below(4) {
                0 => r.below(pl + 1).min(65535) as u16,
                1 => (pl as u16).wrapping_add(1),
                2 => 0xFFFF,
                _ => r.below(0x10000) as u16,
            };
            Call::Frag(pl, ContextFrag::new(r.byte(), r.next() as u32, lf), c09_len(r))
        }
    }
}

fn apply(e: &mut Encapsulator<CountingCrc>, c: &Call, pdu_src: &[u8], buf: &mut Vec<u8>) -> Result<EncapStatus, EncapError> {
    match c {
        Call::Encap(pl, f, p, l, bl) => {
            buf.resize(*bl, 0xEE);
            e.encap(&pdu_src[..*pl], *f, EncapMetadata::new(*p, *l), buf)
        }
        Call::EncapExt(pl, f, p, l, bl, x) => {
            buf.resize(*bl, 0xEE);
            e.encap_ext(&pdu_src[..*pl], *f, EncapMetadata::new(*p, *l), buf, x.clone())
        }
        Call::Frag(pl, ctx, bl) => {
            buf.resize(*bl, 0xEE);
            e.encap_frag(&pdu_src[..*pl], ctx, buf)
        }
    }
}

#[test]
fn c09_failure_atomic_stateful_crc() {
    let pdu_src: Vec<u8> = (0..70000usize).map(|i| (i * 13 + 5) as u8).collect();
    let mut errs = 0usize;
    let mut oks = 0usize;
    for seed in 0..6000u64 {
        let mut r = Rng::new(seed + 5);
        let mut e = Encapsulator::new(CountingCrc { calls: std::cell::Cell::new(0) });
        // prior state
        for _ in 0..r.below(6) {
            match r.below(6) {
                0 => e.disable_re_use_label(),
                1 => e.enable_re_use_label(),
                2 => e.enable_re_use_label_with_max_consecutive(r.pick(&[0u8, 1, 2, 255])),
                3 => e.reset_last_label(),
                _ => {
                    let mut b = vec![0u8; 64];
                    let _ = e.encap(&pdu_src[..r.below(40)], 1, EncapMetadata::new(0x0800, c09_label(&mut r)), &mut b);
                }
            }
        }
        for _ in 0..4 {
            let call = c09_call(&mut r);
            let snapshot = e.clone();
            let mut buf = vec![];
            // pre-fill as apply() does, to compare afterwards
            let bl = match &call {
                Call::Encap(_, _, _, _, bl) | Call::EncapExt(_, _, _, _, bl, _) | Call::Frag(_, _, bl) => *bl,
            };
            let res = apply(&mut e, &call, &pdu_src, &mut buf);
            // previews are pure and total
            match &call {
                Call::Encap(pl, _, p, l, bl) => {
                    let b = vec![0u8; *bl];
                    let _ = encap_preview(&pdu_src[..*pl], EncapMetadata::new(*p, *l), &b);
                }
                Call::Frag(pl, ctx, bl) => {
                    let b = vec![0u8; *bl];
                    let pv = encap_frag_preview(&pdu_src[..*pl], ctx, &b);
                    assert_eq!(pv.is_ok(), res.is_ok(), "frag preview and encap_frag disagree on success");
                    if (ctx.len_pdu_frag() as usize) > *pl {
                        assert!(res.is_err(), "C09 context beyond the PDU accepted");
                    }
                }
                _ => {}
            }
            // mandated refusals
            match &call {
                Call::Encap(pl, _, p, l, _) | Call::EncapExt(pl, _, p, l, _, _) => {
                    if *l == Label::SixBytesLabel([0; 6]) || (0x0100..=0x05FF).contains(p) || *pl > 65535 - 2 {
                        assert!(res.is_err(), "C09 mandated refusal missing: {:?}", call);
                    }
                }
                _ => {}
            }
            match res {
                Err(_) => {
                    errs += 1;
                    assert!(buf.iter().all(|b| *b == 0xEE) && buf.len() == bl, "C09 buffer modified on error: {:?}", call);
                    assert_eq!(e, snapshot, "C09 state modified on error: {:?}", call);
                    // the next packet is what it would have been
                    let next = c09_call(&mut r);
                    let mut e1 = e.clone();
                    let mut e2 = snapshot.clone();
                    let mut b1 = vec![];
                    let mut b2 = vec![];
                    let r1 = apply(&mut e1, &next, &pdu_src, &mut b1);
                    let r2 = apply(&mut e2, &next, &pdu_src, &mut b2);
                    assert_eq!(r1, r2);
                    assert_eq!(b1, b2);
                    assert_eq!(e1, e2);
                }
                Ok(st) => {
                    oks += 1;
                    let n = match st {
                        EncapStatus::CompletedPkt(n) => n,
                        EncapStatus::FragmentedPkt(n, _) => n,
                    } as usize;
                    assert!(n <= buf.len() && n <= 4097, "packet length {n}");
                    assert!(buf[n..].iter().all(|b| *b == 0xEE), "bytes written beyond the packet");
                    let gl = (u16::from_be_bytes([buf[0], buf[1]]) & 0xFFF) as usize;
                    assert_eq!(gl + 2, n, "GSE length field and returned length differ");
                }
            }
        }
    }
    println!("c09 calls: ok {oks} err {errs}");
}
