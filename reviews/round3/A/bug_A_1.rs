// bug_A_1: a refused GseDecapMemory::save_frag destroys the storage buffer it was given.
//
// Property C08 (storage buffers are conserved: never leaked, never duplicated), quantified over
// "all points at which a memory operation behind the GseDecapMemory trait can fail (underflow,
// overflow, undefined id, OCCUPIED SLOT)"; secondarily C17 (the bundled memory behaves like a bag
// of free buffers plus at most one saved context per slot).
//
// Public API only: the public field `Decapsulator::memory`, `take_frag` / `save_frag`, `decap`.

use dvb_gse_rust::crc::DefaultCrc;
use dvb_gse_rust::gse_decap::{
    DecapMemoryError, DecapStatus, Decapsulator, GseDecapMemory, SimpleGseMemory,
};
use dvb_gse_rust::header_extension::SimpleMandatoryExtensionHeaderManager;

/// first fragment, broadcast label, protocol type 0x0800, announced total length 2 + 20
fn first_fragment(frag_id: u8, payload: &[u8]) -> Vec<u8> {
    let gse_len = 1 + 2 + 2 + payload.len();
    let mut p = vec![0xA0 | ((gse_len >> 8) as u8 & 0x0F), gse_len as u8, frag_id, 0, 22, 0x08, 0x00];
    p.extend_from_slice(payload);
    p
}

/// number of storage buffers held by the memory (free list + every slot)
fn buffers_in_memory(mem: &mut SimpleGseMemory) -> usize {
    let mut n = 0;
    while mem.new_pdu().is_ok() {
        n += 1;
    }
    for id in 0..=255u8 {
        if mem.take_frag(id).is_ok() {
            n += 1;
        }
    }
    n
}

#[test]
fn refused_save_frag_loses_the_storage_buffer() {
    const PROVISIONED: usize = 3;
    let mut d = Decapsulator::new(
        SimpleGseMemory::new(2, 32, 0, 0),
        DefaultCrc {},
        SimpleMandatoryExtensionHeaderManager {},
    );
    for k in 0..PROVISIONED {
        d.provision_storage(vec![0u8; 32 + k].into_boxed_slice()).unwrap();
    }

    // a reassembly starts on frag id 1 (slot 1 of 2)
    let p = first_fragment(1, &[0x11; 5]);
    assert!(matches!(d.decap(&p), Ok((DecapStatus::FragmentedPkt(_), 12))));

    // the application takes the reassembly out of the public memory (to look at it, to age it...)
    let (context, storage) = d.memory.take_frag(1).unwrap();

    // meanwhile the stream starts a PDU on frag id 3, which shares slot 1
    let p = first_fragment(3, &[0x33; 5]);
    assert!(matches!(d.decap(&p), Ok((DecapStatus::FragmentedPkt(_), 12))));

    // the application puts its reassembly back: refused, the slot is occupied (this refusal is
    // what the trait documents) ...
    let res = d.memory.save_frag((context, storage));
    assert_eq!(res, Err(DecapMemoryError::MemoryCorrupted));

    // ... but the error value carries no buffer and the memory did not keep it either:
    // the caller owns 0 buffers, so the memory must still hold the 3 provisioned ones.
    let caller_owned = 0;
    let in_memory = buffers_in_memory(&mut d.memory);
    assert_eq!(
        in_memory + caller_owned,
        PROVISIONED,
        "a storage buffer vanished: {in_memory} left in the memory, {caller_owned} owned by the caller, {PROVISIONED} provisioned"
    );
}
