// C18 (borderline, see bug_C18_1.md): for a PDU longer than 65535 bytes, the payload length
// announced by encap_frag_preview is not the amount of PDU that encap_frag reports as
// consumed: the position of the returned context is truncated to 16 bits.
use dvb_gse_rust::crc::DefaultCrc;
use dvb_gse_rust::gse_encap::{encap_frag_preview, ContextFrag, EncapStatus, Encapsulator};

#[test]
fn frag_preview_payload_len_vs_context_advance_for_pdu_over_65535() {
    // PDU length and context position are both inside the quantified domain
    // (PDU lengths 0..=70000, all context positions).
    let pdu: Vec<u8> = (0..65536u32).map(|i| i as u8).collect();
    let pos: usize = 61442;
    let ctx = ContextFrag::new(9, 0xDEAD_BEEF, pos as u16);
    let mut buffer = vec![0u8; 4097];

    let preview = encap_frag_preview(&pdu, &ctx, &buffer).expect("preview accepts");
    assert_eq!(format!("{:?}", preview.pkt_type()), "IntermediateFragPkt");
    assert_eq!(preview.pdu_len(), 4094);
    assert_eq!(preview.pkt_len(), 4097);

    let encapsulator = Encapsulator::new(DefaultCrc {});
    let status = encapsulator
        .encap_frag(&pdu, &ctx, &mut buffer)
        .expect("encap_frag accepts");

    match status {
        EncapStatus::FragmentedPkt(pkt_len, new_ctx) => {
            // kind and packet length do agree
            assert_eq!(pkt_len, preview.pkt_len());
            assert_eq!(buffer[0] >> 6, 0, "intermediate packet on the wire");
            // the packet really carries preview.pdu_len() bytes of PDU ...
            assert_eq!(&buffer[3..4097], &pdu[pos..pos + 4094]);
            // ... but encap_frag reports a different amount of PDU as consumed:
            // 61442 + 4094 = 65536 is stored `as u16` and becomes 0.
            assert_eq!(
                new_ctx.len_pdu_frag() as usize,
                pos + preview.pdu_len(),
                "payload length produced by encap_frag (context advance) differs from the preview"
            );
        }
        other => panic!("preview said intermediate packet, encap_frag returned {:?}", other),
    }
}
