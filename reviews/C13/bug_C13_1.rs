// C13 - encap_ext returns Ok for a chain in which the final mandatory extension id
// (== protocol type) also appears earlier in the chain as a non-final mandatory extension.
// The resulting packet cannot be decoded by any receiver whose MandatoryHeaderExtensionManager
// maps an id to one answer (Unknown / Final(n) / NonFinal(n)): the receiver either drops it or,
// worse, silently delivers a wrong extension list / protocol type / PDU.
use dvb_gse_rust::crc::DefaultCrc;
use dvb_gse_rust::gse_decap::{DecapStatus, Decapsulator, GseDecapMemory, SimpleGseMemory};
use dvb_gse_rust::gse_encap::{EncapMetadata, EncapStatus, Encapsulator};
use dvb_gse_rust::header_extension::{
    Extension, MandatoryHeaderExt, MandatoryHeaderExtensionManager,
};
use dvb_gse_rust::label::Label;

const ID: u16 = 0x0042;

#[derive(Clone, Copy, Debug)]
enum Answer {
    Unknown,
    Final(u8),
    NonFinal(u8),
}

struct Mgr(Answer);
impl MandatoryHeaderExtensionManager for Mgr {
    fn is_mandatory_header_id_known(&self, id: u16) -> MandatoryHeaderExt {
        assert_eq!(id & 0xFF00, 0, "only mandatory ids are queried");
        match self.0 {
            Answer::Unknown => MandatoryHeaderExt::Unknown,
            Answer::Final(n) => MandatoryHeaderExt::Final(n),
            Answer::NonFinal(n) => MandatoryHeaderExt::NonFinal(n),
        }
    }
}

fn decapsulator(a: Answer) -> Decapsulator<SimpleGseMemory, DefaultCrc, Mgr> {
    let mut memory = SimpleGseMemory::new(1, 64, 0, 0);
    memory.provision_storage(vec![0u8; 64].into_boxed_slice()).unwrap();
    Decapsulator::new(memory, DefaultCrc {}, Mgr(a))
}

#[test]
fn final_mandatory_id_duplicated_earlier_in_chain_is_accepted_but_undecodable() {
    let chain = vec![
        Extension::new(ID, &[0x11, 0x22]).unwrap(), // used as a NON-final mandatory extension
        Extension::new(ID, &[0x33, 0x44]).unwrap(), // used as THE final mandatory extension
    ];
    let pdu = *b"hello";
    let label = Label::Broadcast;
    let mut buffer = [0u8; 64];

    let mut encapsulator = Encapsulator::new(DefaultCrc {});
    let res = encapsulator.encap_ext(&pdu, 1, EncapMetadata::new(ID, label), &mut buffer, chain.clone());

    let pkt_len = match res {
        // Refusing the combination is the behaviour the property asks for.
        Err(_) => return,
        Ok(EncapStatus::CompletedPkt(l)) => l as usize,
        Ok(other) => panic!("unexpected status {:?}", other),
    };

    // encap_ext said Ok: some receiver that "knows" id 0x42 must get everything back.
    let mut answers = vec![Answer::Unknown];
    for n in 0..=255u8 {
        answers.push(Answer::Final(n));
        answers.push(Answer::NonFinal(n));
    }
    let mut wrong_deliveries = vec![];
    for a in answers {
        let mut d = decapsulator(a);
        match d.decap(&buffer[..pkt_len]) {
            Ok((DecapStatus::CompletedPkt(out, md), len)) => {
                let same = len == pkt_len
                    && md.extensions() == &chain
                    && md.protocol_type() == ID
                    && md.label() == label
                    && md.pdu_len() == pdu.len()
                    && out[..md.pdu_len()] == pdu[..];
                if same {
                    return; // decodable: property holds
                }
                wrong_deliveries.push((a, md.protocol_type(), md.extensions().len(), out[..md.pdu_len()].to_vec()));
            }
            _ => {}
        }
    }
    panic!(
        "encap_ext returned Ok({pkt_len}) for [ext 0x42 non-final, ext 0x42 final] but no manager answer \
         for id 0x42 recovers the chain; silently wrong deliveries (answer, ptype, nb ext, pdu): {:?}",
        &wrong_deliveries[..wrong_deliveries.len().min(4)]
    );
}
